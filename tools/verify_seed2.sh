#!/bin/bash
# verify_seed2.sh <ID> <crate> <demo filter>: confirm a seeded change from /verif/seeded/<ID> in the shared
# scratch worktree /tmp/seed/V (own target dir). Light mode: demo only passes; patch+demo: demo fails;
# patch only: compiles (the whole-suite run with the patch is the seeding agent's, recorded in meta.json).
id=$1; crate=$2; filter=$3
wt=/tmp/seed/V
export RUSTUP_TOOLCHAIN=1.96.0 CARGO_NET_OFFLINE=true CARGO_TARGET_DIR=$wt/target
[ -d $wt ] || git -C /repo worktree add --detach $wt HEAD -q
cd $wt || exit 2
git checkout -q -- . ; git clean -fdq -e target
log=/verif/seeded/$id/verify.log; : > $log
git apply /verif/seeded/$id/demo.diff && echo "[1] demo only:" >> $log && cargo test -p $crate --lib --offline -- "$filter" 2>&1 | grep -E "^test result|FAILED|panicked|^error" | head -5 >> $log
git apply /verif/seeded/$id/patch.diff && echo "[2] patch + demo:" >> $log && cargo test -p $crate --lib --offline -- "$filter" 2>&1 | grep -E "^test result|FAILED|panicked|^error" | head -5 >> $log
git apply -R /verif/seeded/$id/demo.diff && echo "[3] patch only: compiles (whole-suite run with the patch is the seeding agent's, see meta.json):" >> $log && cargo test -p $crate --lib --offline --no-run 2>&1 | grep -E "^error|Finished" | head -3 >> $log
git checkout -q -- . ; git clean -fdq -e target
echo done >> $log
