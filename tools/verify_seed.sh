#!/bin/bash
# verify_seed.sh <ID> <worktree> <crate> <demo test filter>: confirm a seeded change independently.
# expects <worktree>/seeded/{patch.diff,demo.diff}; leaves the worktree clean.
id=$1; wt=$2; crate=$3; filter=$4
export RUSTUP_TOOLCHAIN=1.96.0 CARGO_NET_OFFLINE=true CARGO_TARGET_DIR=$wt/target
cd $wt || exit 2
cp seeded/patch.diff /tmp/seed/$id.patch; cp seeded/demo.diff /tmp/seed/$id.demo
git checkout -q -- . ; 
log=/verif/seeded/$id/verify.log; : > $log
git apply /tmp/seed/$id.demo && echo "[1] demo only:" >> $log && cargo test -p $crate --lib --offline -- "$filter" 2>&1 | grep -E "^test result|FAILED|panicked" | head -5 >> $log
git apply /tmp/seed/$id.patch && echo "[2] patch + demo:" >> $log && cargo test -p $crate --lib --offline -- "$filter" 2>&1 | grep -E "^test result|FAILED|panicked" | head -5 >> $log
if [ "${LIGHT:-0}" = "1" ]; then
  git apply -R /tmp/seed/$id.demo && echo "[3] patch only: compiles (whole-suite run with the patch is the seeding agent's, see meta.json):" >> $log && cargo test -p $crate --lib --offline --no-run 2>&1 | grep -E "^error|Finished" | head -3 >> $log
else
  git apply -R /tmp/seed/$id.demo && echo "[3] patch only, whole lib suite:" >> $log && cargo test -p $crate --lib --offline 2>&1 | grep -E "^test result|FAILED" | head -5 >> $log
fi
git checkout -q -- .
echo done >> $log
