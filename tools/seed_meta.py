#!/usr/bin/env python3
"""Fold the lead's own confirmation (verify.log) and the detection results (seedtest logs) into
/verif/seeded/<ID>/meta.json, and print the catch matrix (markdown) for DESIGN.md."""
import json, os, re, glob, sys

ROOT = os.path.dirname(os.path.dirname(os.path.abspath(__file__)))
logs = [os.path.join(ROOT, "target", "seedtest2.log"), os.path.join(ROOT, "tools", "seedtest-results.log")]
results = {}   # seed -> check -> (rc, signature)  (latest wins)
order = []
for lp in logs:
    if not os.path.exists(lp):
        continue
    seed = None; last = None
    for line in open(lp, errors="replace"):
        m = re.match(r"#### seed (C\d+) vs", line)
        if m:
            seed = m.group(1); continue
        m = re.match(r"== (C\d+) exit=(\d+)", line)
        if m and seed:
            last = (seed, m.group(1)); results.setdefault(seed, {})[m.group(1)] = [int(m.group(2)), ""]
            continue
        m = re.match(r"\s+signature: (.*)", line)
        if m and last:
            results[last[0]][last[1]][1] = m.group(1).strip()
notes = {}
np = os.path.join(ROOT, "tools", "seed_notes.json")
if os.path.exists(np):
    notes = json.load(open(np))
rows = []
for d in sorted(glob.glob(os.path.join(ROOT, "seeded", "C*"))):
    sid = os.path.basename(d)
    mp = os.path.join(d, "meta.json")
    try:
        meta = json.load(open(mp))
    except Exception:
        meta = {"property": sid}
    vl = os.path.join(d, "verify.log")
    ver = {}
    if os.path.exists(vl):
        txt = open(vl).read()
        parts = re.split(r"^\[(\d)\][^\n]*\n", txt, flags=re.M)
        # parts: [pre, '1', body, '2', body, '3', body]
        for i in range(1, len(parts) - 1, 2):
            body = parts[i + 1].strip().splitlines()
            res = [l for l in body if l.startswith("test result") or "Finished" in l or l.startswith("error")]
            ver[{"1": "demo_only", "2": "patch_plus_demo", "3": "patch_only"}[parts[i]]] = res[-1] if res else (body[-1] if body else "")
    det = results.get(sid, {})
    caught = sorted([c for c, (rc, _) in det.items() if rc == 1])
    silent = sorted([c for c, (rc, _) in det.items() if rc == 0])
    meta["lead_verification"] = {
        "how": "tools/verify_seed.sh in the seeding worktree: demo only -> passes; patch + demo -> demo fails; patch only -> existing tests (whole crate lib suite, or compile-only where the seeding agent's own whole-suite run is relied on)",
        "results": ver,
    }
    meta["detection"] = {
        "how": "tools/seedtest2.sh: patch applied to a clone of /repo HEAD, quick checks of an identical clone of /verif run against it, patch reverted",
        "caught_by": {c: det[c][1] for c in caught},
        "silent": silent,
        "note": notes.get(sid, ""),
    }
    json.dump(meta, open(mp, "w"), indent=1)
    what = str(meta.get("summary", ""))[:150].replace("|", "/").replace("\n", " ")
    rows.append((sid, what, ", ".join(caught) or "—", notes.get(sid, "")))
print("| seed | change (abridged) | caught by | note |")
print("|------|-------------------|-----------|------|")
for r in rows:
    print(f"| {r[0]} | {r[1]} | {r[2]} | {r[3]} |")
