#!/bin/bash
# runall.sh <tier> <ID...> : run checks sequentially, one summary line each into /verif/target/runall.log
tier=$1; shift
for id in "$@"; do
  s=$(date +%s)
  out=$(VERIF_THREADS=${VERIF_THREADS:-8} /verif/bin/vcheck $id $tier 2>&1); rc=$?
  echo "$id rc=$rc $(( $(date +%s)-s ))s :: $(echo "$out" | grep -E "^(VIOLATION|INCONCLUSIVE)" | head -2 | tr '\n' ' ') $(echo "$out" | grep -c '^KNOWN-FINDING') known :: $(echo "$out" | tail -1)" >> /verif/target/runall.log
done
echo "runall done: $*" >> /verif/target/runall.log
