#!/usr/bin/env python3
"""Generate /verif/MANIFEST.json from /verif/tools/checks.json (one record per claimed property).

checks.json: { "<ID>": {"level": "...", "text": "...", "note": "...", "technique": "...", "design": "..."} }
Properties not in checks.json are listed under not_applicable with the reason given in
/verif/tools/not_claimed.json (or a default "not yet built" reason).
"""
import json, os, sys

ROOT = os.path.dirname(os.path.dirname(os.path.abspath(__file__)))
props = [json.loads(l) for l in open(os.path.join(ROOT, "properties.jsonl"))]
import glob
checks = {}
for f in sorted(glob.glob(os.path.join(ROOT, "tools", "checks.d", "C*.json"))):
    checks[os.path.basename(f)[:-5]] = json.load(open(f))
# assemble the single committed known-findings file from per-property fragments
kf = []
for f in sorted(glob.glob(os.path.join(ROOT, "known_findings.d", "C*.json"))):
    kf.extend(json.load(open(f)))
json.dump(kf, open(os.path.join(ROOT, "known_findings.json"), "w"), indent=1)
nc_path = os.path.join(ROOT, "tools", "not_claimed.json")
not_claimed = json.load(open(nc_path)) if os.path.exists(nc_path) else {}
hooks = json.load(open(os.path.join(ROOT, "tools", "hooks.json")))
try:
    import subprocess
    repo = os.path.join(os.path.dirname(ROOT), "repo")
    out = subprocess.run(["git", "-C", repo, "log", "--reverse", "--format=%h", "--grep=^verif-hooks:"],
                         capture_output=True, text=True).stdout.split()
    if out:
        hooks["source_commits"] = out
        json.dump(hooks, open(os.path.join(ROOT, "tools", "hooks.json"), "w"))
except Exception:
    pass

ENV = "RUSTUP_TOOLCHAIN=1.96.0 CARGO_NET_OFFLINE=true"
man = {
    "version": 1,
    "setup_cmd": f"cd /verif && {ENV} ./bin/setup",
    "hooks": {
        "guard": "cargo feature `verif-hooks` (kanidmd_lib, sparkle_resolver_common, pam_sparkle_common); off by default",
        "enable": "harness workspace /verif/harness depends on /repo crates by path with features=[\"verif-hooks\"]; "
                  "./bin/vcheck rebuilds (cargo build --profile verif) from /repo's working tree before every run",
        "baseline_off_cmd": "cd /repo && RUSTUP_TOOLCHAIN=1.96.0 cargo test --workspace --no-fail-fast --offline",
        "source_commits": hooks["source_commits"],
        "add_only": True,
    },
    "engines": [
        {
            "name": "vf-core",
            "path": "/verif/harness/vf-core",
            "serves_properties": sorted(checks.keys()),
            "kind_free_text": "proptest-based sharded random search with signature-keyed shrinking, bounded-exhaustive enumerator, "
                              "known-findings matcher, replay files, evidence writer",
        },
        {
            "name": "vf-world",
            "path": "/verif/harness/vf-props/src",
            "serves_properties": sorted(checks.keys()),
            "kind_free_text": "shared generators, op-history interpreter against real in-process kanidm servers, virtual clock, "
                              "replication driver, independent reference evaluators (filter, schema, ACP grant model, closure)",
        },
    ],
    "checks": [],
    "not_applicable": [],
    "notes": "All checks are property-based tests / bounded-exhaustive enumerations / fault enumerations with explicit oracles; "
             "see DESIGN.md. exit 0 held, 1 violation, 2 inconclusive.",
}
for p in props:
    pid = p["id"]
    if pid in checks:
        c = checks[pid]
        entry = {
            "property_id": pid,
            "quick_cmd": f"./bin/vcheck {pid} quick",
            "thorough_cmd": f"./bin/vcheck {pid} thorough",
            "evidence_file": f"/verif/evidence/{pid}.json",
            "replay_cmd_template": f"./bin/vcheck {pid} quick --replay {{path}}",
            "engine": "vf-core",
            "level_claimed": {
                "category": c["level"],
                "text": c["text"],
                "design_ref": c.get("design", f"DESIGN.md §3 {pid}"),
            },
            "level_note": c["note"],
            "technique": c["technique"],
        }
        man["checks"].append(entry)
    else:
        man["not_applicable"].append({
            "property_id": pid,
            "reason": not_claimed.get(pid, "check not built yet (work in progress; see DESIGN.md for the planned design)"),
        })
json.dump(man, open(os.path.join(ROOT, "MANIFEST.json"), "w"), indent=1)
print(f"claimed={len(man['checks'])} not_claimed={len(man['not_applicable'])}")
try:
    import jsonschema
    jsonschema.validate(man, json.load(open("/root/.vp/MANIFEST.schema.json")))
    print("schema ok")
except ImportError:
    pass
