#!/bin/bash
# run_thorough.sh <per-check-timeout-s> <ID...>: thorough tier smoke run, one line per check in thorough.log (cwd = verif root)
t=$1; shift
HERE="$(cd "$(dirname "${BASH_SOURCE[0]}")/.." && pwd)"
cd "$HERE"
for id in "$@"; do
  s=$(date +%s)
  out=$(VERIF_THREADS=${VERIF_THREADS:-8} timeout $t ./bin/vcheck $id thorough 2>&1); rc=$?
  echo "$id rc=$rc $(( $(date +%s)-s ))s :: $(echo "$out" | grep -E "^(VIOLATION|INCONCLUSIVE)" | head -2 | tr '\n' ' ') :: $(echo "$out" | tail -1 | cut -c1-160)" >> "$HERE/thorough.log"
done
echo done >> "$HERE/thorough.log"
