#!/bin/bash
# seedtest2.sh <patch.diff> <ID> [<ID>...] : like seedtest.sh but in the clone /work/seedtest/{repo,verif}
# (kept identical to /repo and /verif HEAD by pulling first), so /repo stays free for other runs.
set -u
patch="$1"; shift
R=/work/seedtest
git -C $R/repo checkout -q -- . ; git -C $R/repo pull -q --no-edit /repo main >/dev/null 2>&1
git -C $R/verif checkout -q -- . ; git -C $R/verif pull -q --no-edit /verif main >/dev/null 2>&1
git -C $R/repo apply "$patch" || { echo "patch does not apply"; exit 3; }
rc_all=0
for id in "$@"; do
  out=$(VERIF_THREADS=${VERIF_THREADS:-8} $R/verif/bin/vcheck "$id" quick 2>&1); rc=$?
  echo "== $id exit=$rc"; echo "$out" | grep -E "^(VIOLATION|INCONCLUSIVE|  signature|C[0-9]+ quick)" | head -6
  [ $rc -eq 1 ] || rc_all=1
done
git -C $R/repo checkout -q -- .
exit $rc_all
