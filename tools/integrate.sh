#!/bin/bash
# integrate.sh <group>: merge a builder's verif clone; generated files are regenerated.
g=$1
cd /verif
git pull --no-edit /work/$g/verif main >/tmp/merge-$g.log 2>&1
for f in $(git diff --name-only --diff-filter=U); do
  case "$f" in
    known_findings.json|MANIFEST.json|evidence/*) git checkout --ours -- "$f" 2>/dev/null; git add "$f";;
    harness/Cargo.toml|harness/vf-props/Cargo.toml|harness/Cargo.lock) sed -i "/^<<<<<<< /d; /^=======$/d; /^>>>>>>> /d" "$f"; git add "$f"; echo "union-merged $f";;
    *) echo "REAL CONFLICT: $f";;
  esac
done
python3-vt tools/gen_manifest.py
git add -A
git diff --cached --quiet || git commit -q -m "integrate $g" 
git log --oneline | head -2
