#!/bin/bash
# mkwork.sh <group>: isolated scratch copy (<root>=/work/<group>) of repo + verif for one builder.
set -e
g="$1"; root=/work/$g
mkdir -p $root
git clone -q /repo $root/repo
git clone -q /verif $root/verif
git -C $root/repo config user.email builder@local; git -C $root/repo config user.name "builder-$g"
git -C $root/verif config user.email builder@local; git -C $root/verif config user.name "builder-$g"
mkdir -p $root/verif/target
cp -a /verif/target/verif $root/verif/target/ 2>/dev/null || true
rm -rf $root/verif/target/verif/incremental
echo "ready: $root"
