#!/bin/bash
# seedtest.sh <patch.diff> <ID> [<ID>...] : apply a seeded breaking change to /repo, run the quick
# checks, report, and undo the change. /repo must be clean (tracked files) before.
set -u
patch="$1"; shift
if [ -n "$(git -C /repo status --porcelain --untracked-files=no)" ]; then echo "repo not clean"; exit 3; fi
git -C /repo apply "$patch" || { echo "patch does not apply"; exit 3; }
rc_all=0
mkdir -p /verif/target/evidence-bak; cp /verif/evidence/*.json /verif/target/evidence-bak/ 2>/dev/null
for id in "$@"; do
  out=$(VERIF_THREADS=${VERIF_THREADS:-8} /verif/bin/vcheck "$id" quick 2>&1); rc=$?
  echo "== $id exit=$rc"; echo "$out" | grep -E "^(VIOLATION|INCONCLUSIVE|  signature|C[0-9]+ quick)" | head -6
  [ $rc -eq 1 ] || rc_all=1
done
git -C /repo checkout -- .
cp /verif/target/evidence-bak/*.json /verif/evidence/ 2>/dev/null
exit $rc_all
