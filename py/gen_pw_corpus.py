#!/usr/bin/env python3
"""Seeded corpus of password hashes produced by implementations independent of kanidm.

usage: gen_pw_corpus.py <seed> <count> <out.json>

Every entry: {"format", "encoded", "cleartext", "cands": [[candidate, accepted_by_reference], ...]}
`accepted_by_reference` is computed here by re-hashing the candidate with the same parameters and
comparing with the stored hash (glibc/libxcrypt crypt(3) via the `crypt` module, hashlib, and a
pure-Python RFC 1320 MD4 below) — never by asking kanidm.
"""
import base64, binascii, hashlib, json, random, struct, sys, unicodedata, warnings
warnings.simplefilter("ignore")
import crypt

# ------------------------------------------------------------------ RFC 1320 MD4 (pure Python)
def _lrot(x, n):
    return ((x << n) | (x >> (32 - n))) & 0xFFFFFFFF

def md4(data: bytes) -> bytes:
    a, b, c, d = 0x67452301, 0xEFCDAB89, 0x98BADCFE, 0x10325476
    ml = len(data) * 8
    data += b"\x80"
    data += b"\x00" * ((56 - len(data) % 64) % 64)
    data += struct.pack("<Q", ml)
    for off in range(0, len(data), 64):
        X = list(struct.unpack("<16I", data[off:off + 64]))
        aa, bb, cc, dd = a, b, c, d
        F = lambda x, y, z: (x & y) | (~x & z)
        G = lambda x, y, z: (x & y) | (x & z) | (y & z)
        H = lambda x, y, z: x ^ y ^ z
        for i in range(16):
            k = i
            s = (3, 7, 11, 19)[i % 4]
            if i % 4 == 0: a = _lrot((a + F(b, c, d) + X[k]) & 0xFFFFFFFF, s)
            elif i % 4 == 1: d = _lrot((d + F(a, b, c) + X[k]) & 0xFFFFFFFF, s)
            elif i % 4 == 2: c = _lrot((c + F(d, a, b) + X[k]) & 0xFFFFFFFF, s)
            else: b = _lrot((b + F(c, d, a) + X[k]) & 0xFFFFFFFF, s)
        for i in range(16):
            k = (i % 4) * 4 + i // 4
            s = (3, 5, 9, 13)[i % 4]
            if i % 4 == 0: a = _lrot((a + G(b, c, d) + X[k] + 0x5A827999) & 0xFFFFFFFF, s)
            elif i % 4 == 1: d = _lrot((d + G(a, b, c) + X[k] + 0x5A827999) & 0xFFFFFFFF, s)
            elif i % 4 == 2: c = _lrot((c + G(d, a, b) + X[k] + 0x5A827999) & 0xFFFFFFFF, s)
            else: b = _lrot((b + G(c, d, a) + X[k] + 0x5A827999) & 0xFFFFFFFF, s)
        order = (0, 8, 4, 12, 2, 10, 6, 14, 1, 9, 5, 13, 3, 11, 7, 15)
        for i in range(16):
            k = order[i]
            s = (3, 9, 11, 15)[i % 4]
            if i % 4 == 0: a = _lrot((a + H(b, c, d) + X[k] + 0x6ED9EBA1) & 0xFFFFFFFF, s)
            elif i % 4 == 1: d = _lrot((d + H(a, b, c) + X[k] + 0x6ED9EBA1) & 0xFFFFFFFF, s)
            elif i % 4 == 2: c = _lrot((c + H(d, a, b) + X[k] + 0x6ED9EBA1) & 0xFFFFFFFF, s)
            else: b = _lrot((b + H(c, d, a) + X[k] + 0x6ED9EBA1) & 0xFFFFFFFF, s)
        a = (a + aa) & 0xFFFFFFFF; b = (b + bb) & 0xFFFFFFFF
        c = (c + cc) & 0xFFFFFFFF; d = (d + dd) & 0xFFFFFFFF
    return struct.pack("<4I", a, b, c, d)

# RFC 1320 appendix A.5 test suite
assert md4(b"").hex() == "31d6cfe0d16ae931b73c59d7e0c089c0"
assert md4(b"abc").hex() == "a448017aaf21d8525fc10ae87aa6729d"
assert md4(b"message digest").hex() == "d9130a8164549fe818874806e1c7014b"
assert md4(b"12345678901234567890123456789012345678901234567890123456789012345678901234567890").hex() == "e33b4ddc9c38f2199c3e7b164fcc0536"

# ------------------------------------------------------------------ cleartexts
WORDS = ["correct", "horse", "battery", "staple", "Tr0ub4dor&3", "pässwörd", "пароль", "密码", "🔑🗝", "naïve", "éclair", "a b", " lead", "trail ", "tab\tbed"]

def gen_cleartext(rng, allow_nul):
    k = rng.randrange(12)
    if k == 0: return ""
    if k == 1: return rng.choice("aZ9 é漢🔑")
    if k == 2: return "".join(rng.choice("abcdefghijklmnopqrstuvwxyzABCDEFGHIJKLMNOPQRSTUVWXYZ0123456789") for _ in range(rng.choice([7, 8, 15, 16, 55, 56, 63, 64, 65, 72, 73, 127, 128, 255])))
    if k == 3: return "".join(chr(rng.choice([0x61, 0xe9, 0x4e2d, 0x1f511, 0x20, 0x301, 0x7f])) for _ in range(rng.randrange(1, 40)))
    if k == 4: return "x" * rng.choice([256, 511, 512] + ([513, 1024] if allow_nul and rng.randrange(4) == 0 else []))
    if k == 5: return "é" * rng.choice([128, 255, 256])          # 2 bytes each: 256 / 510 / 512 bytes
    if k == 6 and allow_nul: return "ab\x00cd" + rng.choice(WORDS)
    if k == 7: return unicodedata.normalize(rng.choice(["NFC", "NFD"]), rng.choice(["é", "ñandú", "Ångström", "한글"])) + rng.choice(WORDS)
    return rng.choice(["", " ", "-", "_"]).join(rng.choice(WORDS) for _ in range(rng.randrange(1, 5)))

def near_misses(rng, pw, allow_nul):
    out = []
    if pw:
        out.append(pw[:-1])
        out.append(pw[1:])
        sw = pw.swapcase()
        if sw != pw: out.append(sw)
        i = rng.randrange(len(pw))
        out.append(pw[:i] + ("X" if pw[i] != "X" else "Y") + pw[i + 1:])
    out.append(pw + " ")
    out.append(" " + pw)
    out.append(pw + pw)
    nfc, nfd = unicodedata.normalize("NFC", pw), unicodedata.normalize("NFD", pw)
    if nfc != pw: out.append(nfc)
    if nfd != pw: out.append(nfd)
    if allow_nul: out.append(pw + "\x00")
    out.append(pw + "a" * 600)          # beyond kanidm's input length guard
    out.append(gen_cleartext(rng, allow_nul))
    # dedupe, keep order, drop the real one (added separately)
    seen, res = {pw}, []
    for c in out:
        if c not in seen:
            seen.add(c); res.append(c)
    rng.shuffle(res)
    return res[:6]

B64 = lambda b: base64.b64encode(b).decode()
def ab64(b):  # passlib "adapted base64": '+' -> '.', no padding
    return base64.b64encode(b).decode().rstrip("=").replace("+", ".")
SALTCH = "./0123456789ABCDEFGHIJKLMNOPQRSTUVWXYZabcdefghijklmnopqrstuvwxyz"

# ------------------------------------------------------------------ formats: returns (encoded, verifier)
def f_crypt(prefix, maxsalt):
    def make(rng, pw):
        salt = "".join(rng.choice(SALTCH) for _ in range(rng.choice([0, 1, 4, 8, maxsalt, maxsalt])))[:maxsalt]
        rounds = ""
        if prefix in ("$5$", "$6$"):
            r = rng.choice([None, None, 1000, 1001, 5000, 4999, 12345])
            if r is not None: rounds = "rounds=%d$" % r
        setting = prefix + rounds + salt
        enc = crypt.crypt(pw, setting)
        if not enc or not enc.startswith(prefix):
            return None, None       # the reference refuses this passphrase (e.g. >= 512 bytes)
        def ok(c):
            r = crypt.crypt(c, enc)
            if not r or r.startswith("*"):
                return None         # reference cannot judge this candidate
            return r == enc
        return "{crypt}" + enc, ok
    return make

def f_django(rng, pw):
    cost = rng.choice([1, 2, 1000, 10000, 36000, 100000])
    salt = "".join(rng.choice("abcdefghijklmnopqrstuvwxyzABCDEFGHIJKLMNOPQRSTUVWXYZ0123456789") for _ in range(rng.choice([1, 8, 12, 22])))
    h = lambda c: hashlib.pbkdf2_hmac("sha256", c.encode(), salt.encode(), cost, 32)
    stored = h(pw)
    return "pbkdf2_sha256$%d$%s$%s" % (cost, salt, B64(stored)), (lambda c: h(c) == stored)

def f_oldap_pbkdf2(tag, alg, klen):
    def make(rng, pw):
        cost = rng.choice([1, 2, 1000, 10000, 29000, 60000])
        salt = bytes(rng.randrange(256) for _ in range(rng.choice([1, 8, 16, 17, 18, 32])))
        h = lambda c: hashlib.pbkdf2_hmac(alg, c.encode(), salt, cost, klen)
        stored = h(pw)
        t = rng.choice([tag, tag.lower(), tag.upper()])
        style = rng.randrange(3)
        if style == 0: enc = "{%s}%d$%s$%s" % (t, cost, ab64(salt), ab64(stored))          # passlib ab64
        elif style == 1: enc = "{%s}%d$%s$%s" % (t, cost, B64(salt), B64(stored))          # standard base64 with padding
        else: enc = "{%s}%d$%s$%s" % (t, cost, B64(salt).rstrip("="), B64(stored).rstrip("="))
        return enc, (lambda c: h(c) == stored)
    return make

def f_ds_sha(tag, alg, salted):
    def make(rng, pw):
        salt = bytes(rng.randrange(256) for _ in range(rng.choice([1, 4, 8, 16]))) if salted else b""
        h = lambda c: hashlib.new(alg, c.encode() + salt).digest()
        stored = h(pw)
        t = rng.choice([tag, tag.lower()])
        return "{%s}%s" % (t, B64(stored + salt)), (lambda c: h(c) == stored)
    return make

def f_nt(kind):
    def make(rng, pw):
        h = lambda c: md4(c.encode("utf-16-le"))
        stored = h(pw)
        if kind == "ipa":
            b = base64.urlsafe_b64encode(stored).decode()
            enc = "ipaNTHash: " + (b if rng.randrange(2) else b.rstrip("="))
        else:
            hx = stored.hex()
            enc = "sambaNTPassword: " + (hx.upper() if rng.randrange(2) else hx)
        return enc, (lambda c: h(c) == stored)
    return make

FORMATS = [
    ("crypt-md5", f_crypt("$1$", 8), False, 2),
    ("crypt-sha256", f_crypt("$5$", 16), False, 3),
    ("crypt-sha512", f_crypt("$6$", 16), False, 3),
    ("django-pbkdf2-sha256", f_django, True, 2),
    ("oldap-pbkdf2-sha1", f_oldap_pbkdf2("PBKDF2-SHA1", "sha1", 20), True, 1),
    ("oldap-pbkdf2", f_oldap_pbkdf2("PBKDF2", "sha1", 20), True, 1),
    ("oldap-pbkdf2-sha256", f_oldap_pbkdf2("PBKDF2-SHA256", "sha256", 32), True, 2),
    ("oldap-pbkdf2-sha512", f_oldap_pbkdf2("PBKDF2-SHA512", "sha512", 64), True, 2),
    ("ds-sha", f_ds_sha("SHA", "sha1", False), True, 1),
    ("ds-ssha", f_ds_sha("SSHA", "sha1", True), True, 1),
    ("ds-sha256", f_ds_sha("SHA256", "sha256", False), True, 1),
    ("ds-ssha256", f_ds_sha("SSHA256", "sha256", True), True, 1),
    ("ds-sha512", f_ds_sha("SHA512", "sha512", False), True, 1),
    ("ds-ssha512", f_ds_sha("SSHA512", "sha512", True), True, 1),
    ("nt-ipa", f_nt("ipa"), True, 1),
    ("nt-samba", f_nt("samba"), True, 1),
]

def main():
    seed, count, out = int(sys.argv[1]), int(sys.argv[2]), sys.argv[3]
    rng = random.Random(seed * 1000003 + 17)
    weighted = [f for f in FORMATS for _ in range(f[3])]
    entries = []
    for i in range(count):
        name, make, allow_nul, _ = FORMATS[i % len(FORMATS)] if i < 2 * len(FORMATS) else rng.choice(weighted)
        while True:
            pw = gen_cleartext(rng, allow_nul)
            enc, ok = make(rng, pw)
            if enc is not None:
                break
        assert ok(pw) is True
        cands = [[pw, True]]
        for c in near_misses(rng, pw, allow_nul):
            r = ok(c)
            if r is not None:
                cands.append([c, bool(r)])
        entries.append({"format": name, "encoded": enc, "cleartext": pw, "cands": cands})
    json.dump({"seed": seed, "entries": entries}, open(out, "w"), ensure_ascii=True)

if __name__ == "__main__":
    main()
