//! C47 — Stopping a supervisor stops everything under it.
//!
//! Generated supervisor trees (depth <= 3, <= 12 actors) with generated actor programs run on the
//! real `kanidm_actors` library inside `Runtime::exec`. A controller stops generated supervisors at
//! generated points and finally terminates the runtime.
//!
//! Oracle, evaluated at the instant `Supervisor::stop().await` / `Runtime::exec` returns: every actor
//! registered under the stopped node has run `cleanup` exactly once (after `setup`), is not inside
//! `run`, and makes no further `state`/`run`/`cleanup` call during an observation window; actors that
//! cannot stop by themselves and live outside the stopped subtree have not been cleaned up (and
//! looping ones keep making progress). A stop that does not return is a hang => inconclusive.
//!
//! (a) current-thread runtime where every delay is a number of scheduler yields (no timers): the
//!     execution is a function of the program up to `tokio::select!`'s internal branch randomisation;
//! (b) multi-thread runtime (2-4 workers) with real microsecond sleeps, each case repeated.
use kanidm_actors::{
    Actor, ActorState, Runtime, RuntimeSetup, Signal, SignalHandler, SoftwareSignalSource, Supervisor,
};
use proptest::prelude::*;
use serde::{Deserialize, Serialize};
use std::future::Future;
use std::sync::atomic::{AtomicBool, AtomicU32, AtomicU64, Ordering::SeqCst};
use std::sync::{Arc, Mutex};
use std::time::Duration;
use vf_core::{CaseLog, Check, Outcome, PropCfg};

#[derive(Debug, Clone, Copy, Serialize, Deserialize, PartialEq)]
enum Act {
    Nothing,
    Yield(u8),
    Sleep(u8),
    /// long but terminating
    Long(u16),
}

#[derive(Debug, Clone, Copy, Serialize, Deserialize, PartialEq)]
enum Wait {
    Immediate,
    Yield(u8),
    Sleep(u8),
    /// blocks for a message that never arrives
    Park,
}

#[derive(Debug, Clone, Serialize, Deserialize, PartialEq)]
struct Step {
    wait: Wait,
    run: Vec<Act>,
}

#[derive(Debug, Clone, Copy, Serialize, Deserialize, PartialEq)]
enum End {
    StopSelf,
    Loop,
    Park,
}

#[derive(Debug, Clone, Serialize, Deserialize, PartialEq)]
struct Prog {
    setup: Vec<Act>,
    steps: Vec<Step>,
    end: End,
    cleanup: Vec<Act>,
}

impl Prog {
    /// cannot stop unless its supervisor stops it
    fn immortal(&self) -> bool {
        self.end != End::StopSelf || self.steps.iter().any(|s| s.wait == Wait::Park)
    }
    fn loops(&self) -> bool {
        self.end == End::Loop && !self.steps.is_empty() && !self.steps.iter().any(|s| s.wait == Wait::Park)
    }
}

#[derive(Debug, Clone, Copy, Serialize, Deserialize, PartialEq)]
enum Ctl {
    Wait(u16),
    Stop(u8),
    Noise(u8),
}

#[derive(Debug, Clone, Copy, Serialize, Deserialize, PartialEq)]
enum Fin {
    Terminate,
    Interrupt,
    DropSender,
}

#[derive(Debug, Clone, Copy, Serialize, Deserialize, PartialEq)]
enum Mode {
    Single,
    Multi(u8),
}

#[derive(Debug, Clone, Serialize, Deserialize, PartialEq)]
struct Case {
    /// sub-supervisor i+1: (parent selector, drop its handle after the tree is built)
    sups: Vec<(u8, bool)>,
    /// (owning supervisor selector, program)
    actors: Vec<(u8, Prog)>,
    script: Vec<Ctl>,
    fin: Fin,
    mode: Mode,
}

impl Case {
    /// parent of every supervisor (index 0 = primary, parent of itself), depth capped at 3
    fn parents(&self) -> Vec<usize> {
        let mut parent = vec![0usize];
        let mut depth = vec![0usize];
        for (i, (sel, _)) in self.sups.iter().enumerate() {
            let me = i + 1;
            let mut p = *sel as usize % me;
            if depth[p] >= 3 {
                p = 0;
            }
            parent.push(p);
            depth.push(depth[p] + 1);
        }
        parent
    }
    fn owner(&self, a: usize) -> usize {
        self.actors[a].0 as usize % (self.sups.len() + 1)
    }
}

#[derive(Default)]
struct Obs {
    setup: AtomicU32,
    state_calls: AtomicU64,
    run_calls: AtomicU64,
    cleanup_started: AtomicU32,
    cleanup_done: AtomicU32,
    in_run: AtomicBool,
}

impl Obs {
    fn snap(&self) -> (u32, u64, u64, u32, u32) {
        (
            self.setup.load(SeqCst),
            self.state_calls.load(SeqCst),
            self.run_calls.load(SeqCst),
            self.cleanup_started.load(SeqCst),
            self.cleanup_done.load(SeqCst),
        )
    }
    fn ticks(&self) -> u64 {
        self.state_calls.load(SeqCst) + self.run_calls.load(SeqCst)
    }
}

async fn yields(n: u32) {
    for _ in 0..n {
        tokio::task::yield_now().await;
    }
}

async fn act(a: Act, multi: bool) {
    match (a, multi) {
        (Act::Nothing, _) => {}
        (Act::Yield(n), _) => yields(n as u32).await,
        (Act::Sleep(n), false) => yields(n as u32 * 3).await,
        (Act::Sleep(n), true) => tokio::time::sleep(Duration::from_micros(n as u64 * 50)).await,
        (Act::Long(n), false) => yields(n as u32).await,
        (Act::Long(n), true) => tokio::time::sleep(Duration::from_micros(n as u64 * 10)).await,
    }
}

struct GenActor {
    prog: Prog,
    obs: Arc<Obs>,
    idx: usize,
    multi: bool,
}

impl Actor for GenActor {
    type Message = usize;

    fn setup(&mut self) -> impl Future<Output = ()> + Send {
        async move {
            for a in self.prog.setup.clone() {
                act(a, self.multi).await;
            }
            self.obs.setup.fetch_add(1, SeqCst);
        }
    }

    fn state(&mut self) -> impl Future<Output = ActorState<usize>> + Send {
        async move {
            self.obs.state_calls.fetch_add(1, SeqCst);
            if self.idx >= self.prog.steps.len() {
                match self.prog.end {
                    End::StopSelf => return ActorState::Stop,
                    End::Park => std::future::pending::<()>().await,
                    End::Loop => {
                        if self.prog.steps.is_empty() {
                            std::future::pending::<()>().await;
                        }
                        // never spin without a suspension point
                        tokio::task::yield_now().await;
                        self.idx = 0;
                    }
                }
            }
            match self.prog.steps[self.idx].wait {
                Wait::Immediate => {}
                Wait::Yield(n) => yields(n as u32).await,
                Wait::Sleep(n) => act(Act::Sleep(n), self.multi).await,
                Wait::Park => std::future::pending::<()>().await,
            }
            // cancel-safe: the step is consumed only when the message is delivered
            let i = self.idx;
            self.idx += 1;
            ActorState::Ready(i)
        }
    }

    fn run(&mut self, i: usize) -> impl Future<Output = ()> + Send {
        async move {
            self.obs.run_calls.fetch_add(1, SeqCst);
            self.obs.in_run.store(true, SeqCst);
            let acts = self.prog.steps.get(i).map(|s| s.run.clone()).unwrap_or_default();
            for a in acts {
                act(a, self.multi).await;
            }
            self.obs.in_run.store(false, SeqCst);
        }
    }

    fn cleanup(&mut self) -> impl Future<Output = ()> + Send {
        async move {
            self.obs.cleanup_started.fetch_add(1, SeqCst);
            for a in self.prog.cleanup.clone() {
                act(a, self.multi).await;
            }
            self.obs.cleanup_done.fetch_add(1, SeqCst);
        }
    }
}

struct Handler;
impl SignalHandler for Handler {}

type Registry = Arc<Mutex<Vec<Option<Supervisor>>>>;

struct Ctx {
    case: Case,
    obs: Vec<Arc<Obs>>,
    registry: Registry,
    built: Arc<AtomicBool>,
    multi: bool,
}

impl RuntimeSetup for Ctx {
    type Error = ();
    fn setup(self, primary: &mut Supervisor) -> impl Future<Output = Result<(), ()>> + Send {
        async move {
            let parents = self.case.parents();
            let mut sups: Vec<Option<Supervisor>> = vec![None];
            for i in 1..parents.len() {
                let p = parents[i];
                let child = if p == 0 {
                    primary.subordinate().await
                } else {
                    match sups[p].as_mut() {
                        Some(s) => s.subordinate().await,
                        None => return Err(()),
                    }
                };
                sups.push(Some(child));
            }
            for (ai, (_, prog)) in self.case.actors.iter().enumerate() {
                let a = GenActor {
                    prog: prog.clone(),
                    obs: self.obs[ai].clone(),
                    idx: 0,
                    multi: self.multi,
                };
                let s = self.case.owner(ai);
                if s == 0 {
                    let _ = primary.spawn(a);
                } else {
                    match sups[s].as_mut() {
                        Some(sv) => {
                            let _ = sv.spawn(a);
                        }
                        None => return Err(()),
                    }
                }
            }
            for (i, (_, dropit)) in self.case.sups.iter().enumerate() {
                if *dropit {
                    sups[i + 1] = None;
                }
            }
            *self.registry.lock().map_err(|_| ())? = sups;
            self.built.store(true, SeqCst);
            Ok(())
        }
    }
}

#[derive(Debug)]
enum Verdict {
    Ok,
    Hang(String),
    Fail(&'static str, String),
}

/// Await `fut` but give up after a budget (scheduler turns in single mode, wall time in multi mode).
async fn guarded<T>(multi: bool, fut: impl Future<Output = T>) -> Option<T> {
    if multi {
        tokio::time::timeout(Duration::from_secs(60), fut).await.ok()
    } else {
        tokio::select! {
            biased;
            r = fut => Some(r),
            _ = yields(400_000) => None,
        }
    }
}

async fn window(multi: bool) {
    if multi {
        tokio::time::sleep(Duration::from_millis(2)).await;
    } else {
        yields(400).await;
    }
}

struct Stats {
    stops_with_live: u32,
    max_live_at_stop: usize,
    stopped_nonleaf: bool,
    final_live: usize,
    noop_stops: u32,
    sibling_progress_seen: u32,
    sibling_no_progress: u32,
}

async fn check_quiet(
    multi: bool,
    c: &Case,
    obs: &[Arc<Obs>],
    set: &[usize],
    what: &str,
) -> Option<(&'static str, String)> {
    for &a in set {
        let (setup, _, _, cs, cd) = obs[a].snap();
        if cd == 0 {
            return Some((
                "actor under the stopped node had not finished cleanup when the stop returned",
                format!("{what}: actor {a} {:?} setup={setup} cleanup_started={cs} cleanup_done={cd}", c.actors[a].1),
            ));
        }
        if cs != 1 || cd != 1 {
            return Some((
                "cleanup did not run exactly once",
                format!("{what}: actor {a} cleanup_started={cs} cleanup_done={cd}"),
            ));
        }
        if setup != 1 {
            return Some((
                "cleanup ran without a completed setup",
                format!("{what}: actor {a} setup={setup}"),
            ));
        }
        if obs[a].in_run.load(SeqCst) {
            return Some((
                "actor still inside run() when the stop returned",
                format!("{what}: actor {a}"),
            ));
        }
    }
    let before: Vec<_> = set.iter().map(|&a| obs[a].snap()).collect();
    window(multi).await;
    for (k, &a) in set.iter().enumerate() {
        let now = obs[a].snap();
        if now != before[k] {
            return Some((
                "actor active after the stop returned",
                format!("{what}: actor {a} counters {:?} -> {:?}", before[k], now),
            ));
        }
    }
    None
}

async fn drive(c: &Case, multi: bool, stats: &mut Stats) -> Verdict {
    let n_sups = c.sups.len();
    let parents = c.parents();
    let obs: Vec<Arc<Obs>> = c.actors.iter().map(|_| Arc::new(Obs::default())).collect();
    let registry: Registry = Arc::new(Mutex::new(Vec::new()));
    let built = Arc::new(AtomicBool::new(false));
    let (src, tx) = SoftwareSignalSource::new();
    let ctx = Ctx {
        case: c.clone(),
        obs: obs.clone(),
        registry: registry.clone(),
        built: built.clone(),
        multi,
    };
    let mut exec = tokio::spawn(async move { Runtime::new().exec(ctx, Handler, src).await });

    // wait for the tree
    let b2 = built.clone();
    let ready = guarded(multi, async move {
        while !b2.load(SeqCst) {
            tokio::task::yield_now().await;
        }
    })
    .await;
    if ready.is_none() {
        return Verdict::Hang("tree was never built".into());
    }

    let under = |s: usize, root: usize| -> bool {
        let mut x = s;
        loop {
            if x == root {
                return true;
            }
            if x == 0 {
                return false;
            }
            x = parents[x];
        }
    };
    let mut stopped_roots: Vec<usize> = Vec::new();
    let mut tx = Some(tx);

    for ctl in &c.script {
        match ctl {
            Ctl::Wait(n) => {
                if multi {
                    tokio::time::sleep(Duration::from_micros(*n as u64 * 10)).await;
                } else {
                    yields(*n as u32).await;
                }
            }
            Ctl::Noise(k) => {
                if let Some(tx) = tx.as_ref() {
                    let sig = match k % 4 {
                        0 => Signal::Hangup,
                        1 => Signal::UserDefined1,
                        2 => Signal::UserDefined2,
                        _ => Signal::Alarm,
                    };
                    let _ = tx.try_send(sig);
                }
            }
            Ctl::Stop(sel) => {
                if n_sups == 0 {
                    continue;
                }
                let s = 1 + (*sel as usize % n_sups);
                let handle = registry.lock().ok().and_then(|mut r| r.get_mut(s).and_then(|h| h.take()));
                let Some(handle) = handle else {
                    stats.noop_stops += 1;
                    continue;
                };
                let subtree: Vec<usize> = (0..c.actors.len()).filter(|&a| under(c.owner(a), s)).collect();
                let live = subtree.iter().filter(|&&a| obs[a].cleanup_done.load(SeqCst) == 0).count();
                if live > 0 {
                    stats.stops_with_live += 1;
                    stats.max_live_at_stop = stats.max_live_at_stop.max(live);
                }
                if (1..=n_sups).any(|x| x != s && under(x, s)) {
                    stats.stopped_nonleaf = true;
                }
                if guarded(multi, handle.stop()).await.is_none() {
                    return Verdict::Hang(format!("stop of supervisor {s} did not return"));
                }
                stopped_roots.push(s);
                if let Some((sig, msg)) = check_quiet(multi, c, &obs, &subtree, &format!("stop(sup {s})")).await {
                    return Verdict::Fail(sig, msg);
                }
                // actors outside every stopped subtree that cannot stop by themselves must be untouched
                let outside: Vec<usize> = (0..c.actors.len())
                    .filter(|&a| !stopped_roots.iter().any(|r| under(c.owner(a), *r)))
                    .filter(|&a| c.actors[a].1.immortal())
                    .collect();
                for &a in &outside {
                    let (_, _, _, cs, _) = obs[a].snap();
                    if cs != 0 {
                        return Verdict::Fail(
                            "actor outside the stopped subtree was stopped",
                            format!("stop(sup {s}): actor {a} owner sup {} cleanup_started={cs}", c.owner(a)),
                        );
                    }
                }
                // looping siblings keep running (progress is awaited, not assumed)
                for &a in outside.iter().filter(|&&a| c.actors[a].1.loops()) {
                    let t0 = obs[a].ticks();
                    let o = obs[a].clone();
                    let progressed = if multi {
                        tokio::time::timeout(Duration::from_secs(10), async {
                            while o.ticks() == t0 {
                                tokio::time::sleep(Duration::from_micros(200)).await;
                            }
                        })
                        .await
                        .is_ok()
                    } else {
                        let mut ok = false;
                        for _ in 0..40_000 {
                            if o.ticks() != t0 {
                                ok = true;
                                break;
                            }
                            tokio::task::yield_now().await;
                        }
                        ok
                    };
                    if progressed {
                        stats.sibling_progress_seen += 1;
                    } else if obs[a].cleanup_started.load(SeqCst) != 0 {
                        return Verdict::Fail(
                            "actor outside the stopped subtree was stopped",
                            format!("stop(sup {s}): looping actor {a} was cleaned up"),
                        );
                    } else {
                        stats.sibling_no_progress += 1;
                    }
                }
            }
        }
    }

    // final: bring the runtime down
    stats.final_live = obs.iter().filter(|o| o.cleanup_done.load(SeqCst) == 0).count();
    match c.fin {
        Fin::Terminate => {
            if let Some(tx) = tx.as_ref() {
                if guarded(multi, tx.send(Signal::Terminate)).await.is_none() {
                    return Verdict::Hang("signal channel full".into());
                }
            }
        }
        Fin::Interrupt => {
            if let Some(tx) = tx.as_ref() {
                if guarded(multi, tx.send(Signal::Interrupt)).await.is_none() {
                    return Verdict::Hang("signal channel full".into());
                }
            }
        }
        Fin::DropSender => {
            tx.take();
        }
    }
    match guarded(multi, &mut exec).await {
        None => {
            exec.abort();
            return Verdict::Hang("Runtime::exec did not return after the terminating signal".into());
        }
        Some(Err(e)) => {
            return Verdict::Fail("Runtime::exec task failed", format!("{e}"));
        }
        Some(Ok(Err(()))) => return Verdict::Hang("harness: tree setup failed".into()),
        Some(Ok(Ok(()))) => {}
    }
    let all: Vec<usize> = (0..c.actors.len()).collect();
    if let Some((sig, msg)) = check_quiet(multi, c, &obs, &all, "Runtime::exec returned").await {
        return Verdict::Fail(sig, msg);
    }
    drop(tx);
    Verdict::Ok
}

fn check(c: &Case, reps_single: u32, reps_multi: u32) -> Outcome {
    let mut log = CaseLog::new();
    let (multi, workers, reps) = match c.mode {
        Mode::Single => (false, 1usize, reps_single),
        Mode::Multi(w) => (true, 2 + (w as usize % 3), reps_multi),
    };
    let mut stats = Stats {
        stops_with_live: 0,
        max_live_at_stop: 0,
        stopped_nonleaf: false,
        final_live: 0,
        noop_stops: 0,
        sibling_progress_seen: 0,
        sibling_no_progress: 0,
    };
    for _ in 0..reps {
        let rt = if multi {
            tokio::runtime::Builder::new_multi_thread()
                .worker_threads(workers)
                .enable_time()
                .build()
                .expect("rt")
        } else {
            tokio::runtime::Builder::new_current_thread()
                .enable_time()
                .build()
                .expect("rt")
        };
        let v = rt.block_on(drive(c, multi, &mut stats));
        rt.shutdown_background();
        match v {
            Verdict::Ok => {}
            Verdict::Hang(why) => {
                log.class("hang");
                log.class(format!("hang:{why}"));
                break;
            }
            Verdict::Fail(sig, msg) => {
                log.fail(sig, format!("[{:?}] {msg}", c.mode));
                break;
            }
        }
    }
    let parents = c.parents();
    let depth = (0..parents.len())
        .map(|mut x| {
            let mut d = 0;
            while x != 0 {
                x = parents[x];
                d += 1;
            }
            d
        })
        .max()
        .unwrap_or(0);
    log.class(format!("depth:{depth}"));
    log.class(format!("actors:{}", c.actors.len().min(12) / 3 * 3));
    log.class(if multi { "rt:multi-thread" } else { "rt:current-thread" });
    if stats.stops_with_live > 0 {
        log.class("stop:had-live-actors");
    }
    if stats.max_live_at_stop >= 2 {
        log.class("stop:>=2-live-actors");
    }
    if stats.stopped_nonleaf {
        log.class("stop:supervisor-with-sub-supervisors");
    }
    if stats.noop_stops > 0 {
        log.class("stop:handle-gone");
    }
    if stats.sibling_progress_seen > 0 {
        log.class("sibling:progress-after-stop");
    }
    if stats.sibling_no_progress > 0 {
        log.class("sibling:no-progress-observed");
    }
    if stats.final_live >= 3 {
        log.class("final:>=3-live-actors");
    }
    log.class(format!("fin:{:?}", c.fin));
    if c.sups.iter().any(|(_, d)| *d) {
        log.class("tree:dropped-supervisor-handle");
    }
    for (_, p) in &c.actors {
        if p.steps.iter().any(|s| s.run.iter().any(|a| matches!(a, Act::Long(_)))) {
            log.class("prog:long-run");
        }
        if p.cleanup.iter().any(|a| !matches!(a, Act::Nothing)) {
            log.class("prog:slow-cleanup");
        }
        if p.end == End::StopSelf && !p.immortal() {
            log.class("prog:finishes-early");
        }
        if p.steps.iter().any(|s| s.wait == Wait::Park) || p.end == End::Park {
            log.class("prog:blocks");
        }
    }
    if (stats.max_live_at_stop >= 2 || (stats.final_live >= 3 && depth >= 2)) && !log.classes.iter().any(|c| c == "hang") {
        log.nontrivial();
    }
    log.finish()
}

fn arb_act() -> impl Strategy<Value = Act> {
    prop_oneof![
        2 => Just(Act::Nothing),
        4 => (1u8..20).prop_map(Act::Yield),
        3 => (1u8..20).prop_map(Act::Sleep),
        1 => (100u16..1500).prop_map(Act::Long),
    ]
}

fn arb_prog() -> impl Strategy<Value = Prog> {
    let wait = prop_oneof![
        3 => Just(Wait::Immediate),
        3 => (1u8..20).prop_map(Wait::Yield),
        3 => (1u8..20).prop_map(Wait::Sleep),
        1 => Just(Wait::Park),
    ];
    let step = (wait, proptest::collection::vec(arb_act(), 0..3)).prop_map(|(wait, run)| Step { wait, run });
    (
        proptest::collection::vec(arb_act(), 0..2),
        proptest::collection::vec(step, 0..4),
        prop_oneof![2 => Just(End::StopSelf), 4 => Just(End::Loop), 2 => Just(End::Park)],
        proptest::collection::vec(arb_act(), 0..3),
    )
        .prop_map(|(setup, steps, end, cleanup)| Prog {
            setup,
            steps,
            end,
            cleanup,
        })
}

fn arb_case(multi: bool) -> impl Strategy<Value = Case> {
    let ctl = prop_oneof![
        4 => (0u16..600).prop_map(Ctl::Wait),
        4 => (0u8..8).prop_map(Ctl::Stop),
        1 => (0u8..4).prop_map(Ctl::Noise),
    ];
    (
        proptest::collection::vec((0u8..8, proptest::bool::weighted(0.08)), 0..6),
        proptest::collection::vec((0u8..8, arb_prog()), 1..=12),
        proptest::collection::vec(ctl, 0..6),
        prop_oneof![3 => Just(Fin::Terminate), 2 => Just(Fin::Interrupt), 1 => Just(Fin::DropSender)],
        0u8..3,
    )
        .prop_map(move |(sups, actors, script, fin, w)| Case {
            sups,
            actors,
            script,
            fin,
            mode: if multi { Mode::Multi(w) } else { Mode::Single },
        })
}

fn main() {
    let cx = Check::from_args("C47", "exploration");
    cx.rule(
        "supervisor trees (primary + 0-5 sub-supervisors, depth<=3, some handles dropped) with 1-12 actors; actor programs: setup acts, 0-3 steps {wait: immediate/yield/sleep/block forever; run: acts}, \
         end {stop by itself / loop forever / block forever}, cleanup acts; acts = nothing/yield n/sleep/long-but-terminating; controller script of waits, Supervisor::stop on generated sub-supervisors and non-terminating signals, \
         then Terminate/Interrupt/closing the signal source. (a) current-thread runtime, all delays are scheduler yields (x2 repetitions), (b) multi-thread runtime 2-4 workers with real microsecond sleeps (x4 quick / x20 thorough). \
         non-trivial = a stop whose subtree had >=2 actors not yet cleaned up, or a final shutdown with >=3 live actors in a tree of depth>=2; distinct by hash",
    );
    cx.assume("tokio's scheduler and select! branch randomisation are not owned by the harness: interleavings are sampled (repetitions), not enumerated");
    cx.assume("a stop/exec that does not return within the budget (400k scheduler turns / 60 s) is a hang: counted, makes the run inconclusive, never a violation");
    cx.assume("generated actors satisfy the premise: setup/run/cleanup always terminate; only state() may block forever");
    let n1 = cx.tier.pick(6_000, 100_000);
    let n2 = cx.tier.pick(1_500, 15_000);
    let rm = cx.tier.pick(4, 12);
    cx.prop(
        "current-thread-yield-schedules",
        PropCfg::new(n1).shrink(300),
        || arb_case(false),
        || (),
        |_, c| check(c, 2, rm),
    );
    cx.prop(
        "multi-thread-real-time",
        PropCfg::new(n2).shrink(100),
        || arb_case(true),
        || (),
        |_, c| check(c, 2, rm),
    );
    let hangs = cx.class_count("hang");
    if hangs > 0 {
        cx.inconclusive(&format!("{hangs} cases hung (stop or exec did not return within the budget)"));
    }
    cx.require_class("stop:>=2-live-actors", 500);
    cx.require_class("stop:supervisor-with-sub-supervisors", 300);
    cx.require_class("sibling:progress-after-stop", 300);
    cx.require_class("prog:long-run", 500);
    cx.require_class("prog:slow-cleanup", 500);
    cx.finish();
}
