//! C14 — Replication wire framing survives any fragmentation.
//!
//! Message sequences are encoded back-to-back by the real `Encoder` (codec.rs compiled from the
//! working tree), optionally with a crafted bad length header spliced in between two frames; the byte
//! stream is cut at generated positions and fed chunk-wise (a) directly to the real `Decoder` over
//! one growing `BytesMut` and (b) through `tokio_util::codec::FramedRead` over a chunked reader.
//!
//! Oracle (independent model over the frame table): frames are delivered in order; a frame whose
//! length is within the limit is emitted exactly when its last byte has arrived (and equals the
//! sent message as `serde_json::Value`); a frame of length 0 or above the limit yields `Err` as
//! soon as its 8 header bytes have arrived and nothing afterwards; complete stream => buffer empty.
use bytes::BytesMut;
use futures_core::Stream;
use proptest::prelude::*;
use serde::{Deserialize, Serialize};
use serde_json::{json, Value};
use std::pin::Pin;
use std::task::{Context, Poll};
use tokio::io::{AsyncRead, ReadBuf};
use tokio_util::codec::{Decoder, Encoder, FramedRead};
use vf_codec::codec::{ConsumerCodec, ConsumerRequest, SupplierCodec, SupplierResponse};
use vf_core::{CaseLog, Check, Outcome, PropCfg};

type T = (u64, u32);

#[derive(Debug, Clone, Serialize, Deserialize, PartialEq)]
enum Val {
    U8(Vec<String>),
    I8(Vec<String>),
    UU(Vec<u8>),
    BO(Vec<bool>),
    UI(Vec<u32>),
}

#[derive(Debug, Clone, Serialize, Deserialize, PartialEq)]
struct Ent {
    id: u8,
    tomb: bool,
    at: (T, u8),
    attrs: Vec<(u8, T, u8, Option<Val>)>,
}

#[derive(Debug, Clone, Serialize, Deserialize, PartialEq)]
struct Ctx {
    version: u32,
    patch: u32,
    devel: bool,
    domain: u8,
    ranges: Vec<(u8, T, Vec<T>, T)>,
    schema: Vec<Ent>,
    meta: Vec<Ent>,
    entries: Vec<Ent>,
}

#[derive(Debug, Clone, Serialize, Deserialize, PartialEq)]
enum Msg {
    // consumer -> supplier
    Ping,
    RefreshReq,
    IncReq { domain: u8, ranges: Vec<(u8, T, T)> },
    // supplier -> consumer
    Pong,
    IncSimple(u8),
    IncCtx(Ctx),
    RefCtx(Ctx),
}

impl Msg {
    fn is_request(&self) -> bool {
        matches!(self, Msg::Ping | Msg::RefreshReq | Msg::IncReq { .. })
    }
    fn kind(&self) -> &'static str {
        match self {
            Msg::Ping => "msg:Ping",
            Msg::RefreshReq => "msg:RefreshReq",
            Msg::IncReq { .. } => "msg:IncrementalReq",
            Msg::Pong => "msg:Pong",
            Msg::IncSimple(_) => "msg:Incremental-status",
            Msg::IncCtx(_) => "msg:Incremental-ctx",
            Msg::RefCtx(_) => "msg:Refresh-ctx",
        }
    }
}

#[derive(Debug, Clone, Copy, Serialize, Deserialize, PartialEq)]
enum Limit {
    Big,
    /// max_frame_bytes = json length of message (idx % n) + delta
    Rel { idx: u8, delta: i8 },
}

#[derive(Debug, Clone, Copy, Serialize, Deserialize, PartialEq)]
enum BadKind {
    Zero,
    MaxPlus(u32),
    U64Max,
    HighBit,
    Over32,
}

#[derive(Debug, Clone, Copy, Serialize, Deserialize, PartialEq)]
struct Bad {
    /// spliced in after (after % (n+1)) messages
    after: u8,
    kind: BadKind,
    /// filler bytes following the crafted header (before the remaining real frames)
    body: u8,
}

#[derive(Debug, Clone, Copy, Serialize, Deserialize, PartialEq)]
enum Cut {
    /// absolute position modulo (len+1)
    At(u32),
    /// relative to the start of frame (idx % (frames+1)); idx == frames means end of stream
    Frame { idx: u8, off: i8 },
}

#[derive(Debug, Clone, Serialize, Deserialize, PartialEq)]
struct Case {
    msgs: Vec<Msg>,
    limit: Limit,
    bad: Option<Bad>,
    cuts: Vec<Cut>,
    /// bytes removed from the end of the stream (early EOF)
    trunc: u16,
    /// bit i set: the chunked reader returns Pending once before chunk i
    pend: u16,
    /// initial capacity of the destination / source buffers
    cap: u32,
}

// ---------------------------------------------------------------------------- JSON construction

fn uu(i: u8) -> String {
    uuid::Uuid::from_u128(0xA000_0000_0000_4000_8000_0000_0000_0000u128 + i as u128).to_string()
}
fn dur(t: &T) -> Value {
    json!({"secs": t.0, "nanos": t.1 % 1_000_000_000})
}
fn cid(t: &T, s: u8) -> Value {
    json!({"t": dur(t), "s": uu(s)})
}
const ATTRS: [&str; 6] = ["description", "displayname", "name", "member", "mail", "class"];

fn val(v: &Val) -> Value {
    match v {
        Val::U8(s) => json!({"U8": s}),
        Val::I8(s) => json!({"I8": s}),
        Val::UU(u) => json!({"UU": u.iter().map(|i| uu(*i)).collect::<Vec<_>>()}),
        Val::BO(b) => json!({"BO": b}),
        Val::UI(u) => json!({"UI": u}),
    }
}

fn ent(e: &Ent) -> Value {
    let st = if e.tomb {
        json!({"Tombstone": {"at": cid(&e.at.0, e.at.1)}})
    } else {
        let mut attrs = serde_json::Map::new();
        for (a, t, s, v) in &e.attrs {
            attrs.insert(
                ATTRS[*a as usize % ATTRS.len()].to_string(),
                json!({"cid": cid(t, *s), "attr": v.as_ref().map(val)}),
            );
        }
        json!({"Live": {"at": cid(&e.at.0, e.at.1), "attrs": attrs}})
    };
    json!({"uuid": uu(e.id), "st": st})
}

fn ctx(c: &Ctx, incremental: bool) -> Value {
    let mut ranges = serde_json::Map::new();
    for (s, min, anchors, max) in &c.ranges {
        ranges.insert(
            uu(*s),
            json!({"m": dur(min), "a": anchors.iter().map(dur).collect::<Vec<_>>(), "x": dur(max)}),
        );
    }
    let ents = |v: &Vec<Ent>| v.iter().map(ent).collect::<Vec<_>>();
    let mut m = serde_json::Map::new();
    m.insert("domain_version".into(), json!(c.version));
    if incremental {
        m.insert("domain_patch_level".into(), json!(c.patch));
    } else {
        m.insert("domain_devel".into(), json!(c.devel));
    }
    m.insert("domain_uuid".into(), json!(uu(c.domain)));
    m.insert("ranges".into(), Value::Object(ranges));
    m.insert("schema_entries".into(), json!(ents(&c.schema)));
    m.insert("meta_entries".into(), json!(ents(&c.meta)));
    m.insert("entries".into(), json!(ents(&c.entries)));
    json!({"v1": m})
}

fn msg_json(m: &Msg) -> Value {
    match m {
        Msg::Ping => json!("Ping"),
        Msg::RefreshReq => json!("Refresh"),
        Msg::IncReq { domain, ranges } => {
            let mut r = serde_json::Map::new();
            for (s, min, max) in ranges {
                r.insert(uu(*s), json!({"m": dur(min), "x": dur(max)}));
            }
            json!({"Incremental": {"V1": {"domain_uuid": uu(*domain), "ranges": r}}})
        }
        Msg::Pong => json!("Pong"),
        Msg::IncSimple(k) => {
            let n = ["domainmismatch", "nochangesavailable", "refreshrequired", "unwillingtosupply"];
            json!({"Incremental": n[*k as usize % 4]})
        }
        Msg::IncCtx(c) => json!({"Incremental": ctx(c, true)}),
        Msg::RefCtx(c) => json!({"Refresh": ctx(c, false)}),
    }
}

// ---------------------------------------------------------------------------- stream + model

#[derive(Debug, Clone)]
enum FrameKind {
    Msg(usize),
    Bad,
}
#[derive(Debug, Clone)]
struct Frame {
    start: usize,
    end: usize,
    kind: FrameKind,
}

struct Built {
    request: bool,
    stream: Vec<u8>,
    frames: Vec<Frame>,
    canon: Vec<Value>,
    max: usize,
}

enum BuildErr {
    Mixed,
    Harness(String),
}

/// Encode the case with the real encoder and build the frame table.
fn build(c: &Case) -> Result<Built, BuildErr> {
    let n = c.msgs.len();
    if n == 0 {
        return Err(BuildErr::Mixed);
    }
    let request = c.msgs[0].is_request();
    if c.msgs.iter().any(|m| m.is_request() != request) {
        return Err(BuildErr::Mixed);
    }
    // Real typed messages from the generated JSON (private fields => via Deserialize).
    let mut reqs: Vec<ConsumerRequest> = Vec::new();
    let mut resps: Vec<SupplierResponse> = Vec::new();
    let mut canon = Vec::new();
    for m in &c.msgs {
        let j = msg_json(m);
        if request {
            let r: ConsumerRequest =
                serde_json::from_value(j.clone()).map_err(|e| BuildErr::Harness(format!("{e}: {j}")))?;
            canon.push(serde_json::to_value(&r).map_err(|e| BuildErr::Harness(e.to_string()))?);
            reqs.push(r);
        } else {
            let r: SupplierResponse =
                serde_json::from_value(j.clone()).map_err(|e| BuildErr::Harness(format!("{e}: {j}")))?;
            canon.push(serde_json::to_value(&r).map_err(|e| BuildErr::Harness(e.to_string()))?);
            resps.push(r);
        }
    }
    // First pass: frame lengths (needed for a limit relative to a message and for MaxPlus headers).
    // Lengths come from the encoder's own output, so the model does not assume a JSON layout.
    let mut dst = if c.cap as usize >= 8 * 1024 * 1024 {
        BytesMut::with_capacity(c.cap as usize)
    } else {
        BytesMut::with_capacity((c.cap as usize).min(1 << 16))
    };
    let mut enc_c = ConsumerCodec::new(0);
    let mut enc_s = SupplierCodec::new(0);
    let bad_at = c.bad.map(|b| b.after as usize % (n + 1));
    let mut frames: Vec<Frame> = Vec::new();
    let mut bad_slot: Option<(usize, usize)> = None; // (frame index, header offset)
    let mut reqs = reqs.into_iter();
    let mut resps = resps.into_iter();
    for i in 0..=n {
        if bad_at == Some(i) {
            let b = c.bad.expect("bad");
            let start = dst.len();
            dst.extend_from_slice(&[0u8; 8]);
            for k in 0..b.body {
                dst.extend_from_slice(&[b'{' + (k % 3)]);
            }
            bad_slot = Some((frames.len(), start));
            frames.push(Frame {
                start,
                end: dst.len(),
                kind: FrameKind::Bad,
            });
        }
        if i == n {
            break;
        }
        let start = dst.len();
        let r = if request {
            enc_c.encode(reqs.next().expect("req"), &mut dst)
        } else {
            enc_s.encode(resps.next().expect("resp"), &mut dst)
        };
        if let Err(e) = r {
            return Err(BuildErr::Harness(format!("encoder failed: {e}")));
        }
        if dst.len() < start + 8 {
            return Err(BuildErr::Harness("encoder wrote less than a header".into()));
        }
        frames.push(Frame {
            start,
            end: dst.len(),
            kind: FrameKind::Msg(i),
        });
    }
    let len_of = |i: usize| -> usize {
        frames
            .iter()
            .find(|f| matches!(f.kind, FrameKind::Msg(k) if k == i))
            .map(|f| f.end - f.start - 8)
            .unwrap_or(0)
    };
    let max = match c.limit {
        Limit::Big => 1 << 20,
        Limit::Rel { idx, delta } => (len_of(idx as usize % n) as i64 + delta as i64).max(0) as usize,
    };
    let mut stream = dst.to_vec();
    if let Some((_, off)) = bad_slot {
        let b = c.bad.expect("bad");
        let v: u64 = match b.kind {
            BadKind::Zero => 0,
            BadKind::MaxPlus(d) => max as u64 + d.max(1) as u64,
            BadKind::U64Max => u64::MAX,
            BadKind::HighBit => 1u64 << 63,
            BadKind::Over32 => (1u64 << 32) | 5,
        };
        stream[off..off + 8].copy_from_slice(&v.to_be_bytes());
    }
    let keep = stream.len().saturating_sub(c.trunc as usize);
    stream.truncate(keep);
    Ok(Built {
        request,
        stream,
        frames,
        canon,
        max,
    })
}

#[derive(Debug, Clone, PartialEq)]
enum Exp {
    /// message index, arrival threshold (bytes that must have arrived)
    Msg(usize, usize),
    Err(usize),
}

fn model(b: &Built) -> Vec<Exp> {
    let avail = b.stream.len();
    let mut out = Vec::new();
    for f in &b.frames {
        match f.kind {
            FrameKind::Bad => {
                if f.start + 8 <= avail {
                    out.push(Exp::Err(f.start + 8));
                }
                break;
            }
            FrameKind::Msg(i) => {
                let l = f.end - f.start - 8;
                if l == 0 || l > b.max {
                    if f.start + 8 <= avail {
                        out.push(Exp::Err(f.start + 8));
                    }
                    break;
                }
                if f.end <= avail {
                    out.push(Exp::Msg(i, f.end));
                } else {
                    break;
                }
            }
        }
    }
    out
}

fn cut_positions(c: &Case, b: &Built) -> Vec<usize> {
    let len = b.stream.len();
    let nf = b.frames.len();
    let mut v: Vec<usize> = c
        .cuts
        .iter()
        .map(|cut| match cut {
            Cut::At(p) => *p as usize % (len + 1),
            Cut::Frame { idx, off } => {
                let i = *idx as usize % (nf + 1);
                let base = if i == nf { len } else { b.frames[i].start };
                (base as i64 + *off as i64).clamp(0, len as i64) as usize
            }
        })
        .filter(|p| *p > 0 && *p < len)
        .collect();
    v.sort_unstable();
    v.dedup();
    v
}

#[derive(Debug)]
enum Got {
    Msg(Value),
    Err(std::io::ErrorKind),
}

enum AnyDec {
    S(SupplierCodec),
    C(ConsumerCodec),
}
impl AnyDec {
    fn decode(&mut self, src: &mut BytesMut) -> Result<Option<Value>, std::io::Error> {
        match self {
            AnyDec::S(d) => d
                .decode(src)
                .map(|o| o.map(|m| serde_json::to_value(&m).unwrap_or(Value::Null))),
            AnyDec::C(d) => d
                .decode(src)
                .map(|o| o.map(|m| serde_json::to_value(&m).unwrap_or(Value::Null))),
        }
    }
}

/// A reader handing out the generated chunks one `poll_read` at a time.
struct ChunkReader {
    chunks: Vec<Vec<u8>>,
    idx: usize,
    off: usize,
    pend: u16,
    pended: bool,
    delivered: usize,
}
impl AsyncRead for ChunkReader {
    fn poll_read(mut self: Pin<&mut Self>, cx: &mut Context<'_>, buf: &mut ReadBuf<'_>) -> Poll<std::io::Result<()>> {
        let me = &mut *self;
        if me.idx >= me.chunks.len() {
            return Poll::Ready(Ok(())); // EOF
        }
        if me.off == 0 && !me.pended && me.idx < 16 && (me.pend >> me.idx) & 1 == 1 {
            me.pended = true;
            cx.waker().wake_by_ref();
            return Poll::Pending;
        }
        let ch = &me.chunks[me.idx];
        let n = (ch.len() - me.off).min(buf.remaining());
        buf.put_slice(&ch[me.off..me.off + n]);
        me.off += n;
        me.delivered += n;
        if me.off >= ch.len() {
            me.idx += 1;
            me.off = 0;
            me.pended = false;
        }
        Poll::Ready(Ok(()))
    }
}

struct Item<D: Decoder>(D);
impl<D: Decoder> Decoder for Item<D>
where
    D::Item: Serialize,
{
    type Item = Value;
    type Error = D::Error;
    fn decode(&mut self, src: &mut BytesMut) -> Result<Option<Value>, D::Error> {
        self.0
            .decode(src)
            .map(|o| o.map(|m| serde_json::to_value(&m).unwrap_or(Value::Null)))
    }
}

fn run_framed<D>(rt: &tokio::runtime::Runtime, dec: D, chunks: Vec<Vec<u8>>, pend: u16, limit: usize) -> (Vec<Got>, bool, usize)
where
    D: Decoder<Error = std::io::Error> + Unpin,
    D::Item: Serialize,
{
    let reader = ChunkReader {
        chunks,
        idx: 0,
        off: 0,
        pend,
        pended: false,
        delivered: 0,
    };
    let mut framed = FramedRead::new(reader, Item(dec));
    let mut got = Vec::new();
    let mut clean_end = false;
    rt.block_on(async {
        for _ in 0..limit {
            let next = std::future::poll_fn(|cx| Pin::new(&mut framed).poll_next(cx)).await;
            match next {
                Some(Ok(v)) => got.push(Got::Msg(v)),
                Some(Err(e)) => {
                    got.push(Got::Err(e.kind()));
                    break;
                }
                None => {
                    clean_end = true;
                    break;
                }
            }
        }
    });
    let left = framed.read_buffer().len();
    (got, clean_end, left)
}

fn check(rt: &tokio::runtime::Runtime, c: &Case) -> Outcome {
    let b = match build(c) {
        Ok(b) => b,
        Err(BuildErr::Mixed) => return Outcome::discard(),
        Err(BuildErr::Harness(e)) => {
            return Outcome::discard().class(format!("harness-build-error:{}", &e[..e.len().min(60)]));
        }
    };
    let mut log = CaseLog::new();
    let exp = model(&b);
    let cuts = cut_positions(c, &b);
    let len = b.stream.len();
    let mut bounds = cuts.clone();
    bounds.push(len);
    let complete = c.trunc == 0
        && exp.len() == b.frames.len()
        && exp.iter().all(|e| matches!(e, Exp::Msg(..)));
    let expects_err = exp.iter().any(|e| matches!(e, Exp::Err(_)));

    // ---- (a) direct decoder over one growing buffer
    let mut dec = if b.request {
        AnyDec::S(SupplierCodec::new(b.max))
    } else {
        AnyDec::C(ConsumerCodec::new(b.max))
    };
    let mut buf = BytesMut::with_capacity((c.cap as usize).min(1 << 16));
    let mut got: Vec<(usize, Got)> = Vec::new();
    let mut prev = 0usize;
    let mut errored = false;
    'feed: for &end in &bounds {
        if end == prev {
            continue;
        }
        buf.extend_from_slice(&b.stream[prev..end]);
        prev = end;
        for round in 0.. {
            if round > b.frames.len() + 2 {
                log.fail(
                    "decoder keeps emitting without consuming input",
                    format!("fed={end} got={got:?}"),
                );
                break 'feed;
            }
            match dec.decode(&mut buf) {
                Ok(Some(v)) => got.push((end, Got::Msg(v))),
                Ok(None) => break,
                Err(e) => {
                    got.push((end, Got::Err(e.kind())));
                    errored = true;
                    break 'feed;
                }
            }
        }
    }
    let arrival = |threshold: usize| -> usize { *bounds.iter().find(|e| **e >= threshold).unwrap_or(&len) };
    if !log.failed() {
        compare(&mut log, "direct", &b, &exp, got.iter().map(|(_, g)| g));
        if !log.failed() {
            for (e, (fed, _)) in exp.iter().zip(got.iter()) {
                let th = match e {
                    Exp::Msg(_, t) | Exp::Err(t) => *t,
                };
                if *fed != arrival(th) {
                    let what = match e {
                        Exp::Msg(..) => "message not emitted when its last byte arrived",
                        Exp::Err(_) => "bad length header not rejected when the header arrived",
                    };
                    log.fail(what, format!("needed {th} bytes, emitted after {fed} bytes; cuts={cuts:?}"));
                    break;
                }
            }
        }
        if !log.failed() && complete && !errored && !buf.is_empty() {
            log.fail(
                "buffer not empty after a complete stream",
                format!("{} bytes left", buf.len()),
            );
        }
    }

    // ---- (b) through FramedRead
    if !log.failed() {
        let mut chunks = Vec::new();
        let mut p = 0;
        for &end in &bounds {
            if end > p {
                chunks.push(b.stream[p..end].to_vec());
                p = end;
            }
        }
        let lim = b.frames.len() + 3;
        let (fgot, clean, left) = if b.request {
            run_framed(rt, SupplierCodec::new(b.max), chunks, c.pend, lim)
        } else {
            run_framed(rt, ConsumerCodec::new(b.max), chunks, c.pend, lim)
        };
        // At EOF with a partial frame FramedRead itself reports an error; that is tokio-util
        // behaviour and accepted (but no message may appear).
        let mut fg: Vec<&Got> = fgot.iter().collect();
        if !expects_err && !complete {
            if let Some(Got::Err(_)) = fg.last() {
                fg.pop();
            }
        }
        compare(&mut log, "framed", &b, &exp, fg.into_iter());
        if !log.failed() && complete && !(clean && left == 0) {
            log.fail(
                "FramedRead did not end cleanly after a complete stream",
                format!("clean_end={clean} left={left}"),
            );
        }
    }

    // ---- classes
    let n = c.msgs.len();
    let mut in_header = false;
    let mut in_body = false;
    let mut at_boundary = false;
    for p in &cuts {
        let mut hit = false;
        for f in &b.frames {
            if *p > f.start && *p < f.start + 8 {
                in_header = true;
                hit = true;
            } else if *p >= f.start + 8 && *p < f.end {
                if *p == f.start + 8 {
                    log.class("cut:exactly-after-header");
                }
                in_body = true;
                hit = true;
            }
        }
        if !hit {
            at_boundary = true;
        }
    }
    if in_header {
        log.class("cut:inside-header");
    }
    if in_body {
        log.class("cut:inside-body");
    }
    if at_boundary {
        log.class("cut:frame-boundary");
    }
    log.class(format!("cuts:{}", cuts.len().min(12)));
    log.class(format!("msgs:{n}"));
    log.class(if b.request { "dir:requests" } else { "dir:responses" });
    for m in &c.msgs {
        log.class(m.kind());
    }
    match c.limit {
        Limit::Big => log.class("limit:big"),
        Limit::Rel { delta, .. } => log.class(format!("limit:len{delta:+}")),
    }
    if let Some(bd) = c.bad {
        log.class(format!("bad-header:{:?}", bd.kind).split('(').next().unwrap_or("").to_string());
    }
    if expects_err {
        log.class("expect:reject");
        // which kind of rejection
        if let Some(Exp::Err(t)) = exp.last() {
            let f = b.frames.iter().find(|f| f.start + 8 == *t);
            if let Some(Frame {
                kind: FrameKind::Msg(_),
                ..
            }) = f
            {
                log.class("expect:real-message-over-limit");
            }
        }
    }
    if complete {
        log.class("expect:all-decoded");
    }
    if c.trunc > 0 {
        log.class("truncated-stream");
    }
    if len > 4096 {
        log.class("stream>4KiB");
    }
    if exp.iter().filter(|e| matches!(e, Exp::Msg(..))).count() >= 2 && (in_header || in_body) {
        log.nontrivial();
    }
    log.finish()
}

fn compare<'a>(log: &mut CaseLog, via: &str, b: &Built, exp: &[Exp], got: impl Iterator<Item = &'a Got>) {
    let got: Vec<&Got> = got.collect();
    for (i, e) in exp.iter().enumerate() {
        match (e, got.get(i)) {
            (Exp::Msg(m, _), Some(Got::Msg(v))) => {
                if *v != b.canon[*m] {
                    log.fail(
                        "decoded message differs from the message sent",
                        format!("[{via}] position {i}: sent={} got={}", b.canon[*m], v),
                    );
                    return;
                }
            }
            (Exp::Msg(m, _), Some(Got::Err(k))) => {
                log.fail(
                    "valid frame rejected",
                    format!("[{via}] position {i}: sent={} got Err({k:?}) max={}", b.canon[*m], b.max),
                );
                return;
            }
            (Exp::Msg(m, _), None) => {
                log.fail(
                    "sent message never decoded",
                    format!("[{via}] position {i}: sent={} max={}", b.canon[*m], b.max),
                );
                return;
            }
            (Exp::Err(_), Some(Got::Err(_))) => {}
            (Exp::Err(_), Some(Got::Msg(v))) => {
                log.fail(
                    "empty or oversized frame decoded instead of rejected",
                    format!("[{via}] position {i}: got={v} max={}", b.max),
                );
                return;
            }
            (Exp::Err(_), None) => {
                log.fail(
                    "empty or oversized frame not rejected",
                    format!("[{via}] position {i}: decoder waits for more input; max={}", b.max),
                );
                return;
            }
        }
    }
    if got.len() > exp.len() {
        log.fail(
            "decoder produced more than was sent",
            format!("[{via}] extra={:?}", &got[exp.len()..]),
        );
    }
}

// ---------------------------------------------------------------------------- generators

fn arb_t() -> impl Strategy<Value = T> {
    prop_oneof![
        4 => (0u64..5, 0u32..3),
        2 => (1_700_000_000u64..1_700_000_100, 0u32..1_000_000_000),
        1 => Just((u64::MAX, 999_999_999u32)),
    ]
}

fn arb_string() -> impl Strategy<Value = String> {
    let alphabet: Vec<char> = vec![
        'a', 'Z', '0', ' ', '"', '\\', '\n', '\u{0}', '\u{7f}', 'é', 'ß', '漢', '😀', '{', '}', '[', ',', ':',
    ];
    proptest::collection::vec(proptest::sample::select(alphabet), 0..12).prop_map(|v| v.into_iter().collect())
}

fn arb_val() -> impl Strategy<Value = Val> {
    prop_oneof![
        proptest::collection::vec(arb_string(), 0..3).prop_map(Val::U8),
        proptest::collection::vec(arb_string(), 0..3).prop_map(Val::I8),
        proptest::collection::vec(0u8..8, 0..3).prop_map(Val::UU),
        proptest::collection::vec(any::<bool>(), 0..3).prop_map(Val::BO),
        proptest::collection::vec(any::<u32>(), 0..3).prop_map(Val::UI),
    ]
}

fn arb_ent() -> impl Strategy<Value = Ent> {
    (
        0u8..8,
        proptest::bool::weighted(0.25),
        (arb_t(), 0u8..4),
        proptest::collection::vec((0u8..6, arb_t(), 0u8..4, proptest::option::weighted(0.8, arb_val())), 0..4),
    )
        .prop_map(|(id, tomb, at, attrs)| Ent { id, tomb, at, attrs })
}

fn arb_ctx() -> impl Strategy<Value = Ctx> {
    (
        (0u32..20, 0u32..3, any::<bool>(), 0u8..3),
        proptest::collection::vec((0u8..4, arb_t(), proptest::collection::vec(arb_t(), 0..3), arb_t()), 0..3),
        proptest::collection::vec(arb_ent(), 0..2),
        proptest::collection::vec(arb_ent(), 0..2),
        proptest::collection::vec(arb_ent(), 0..4),
    )
        .prop_map(|((version, patch, devel, domain), ranges, schema, meta, entries)| Ctx {
            version,
            patch,
            devel,
            domain,
            ranges,
            schema,
            meta,
            entries,
        })
}

fn arb_request() -> impl Strategy<Value = Msg> {
    prop_oneof![
        3 => Just(Msg::Ping),
        2 => Just(Msg::RefreshReq),
        4 => (0u8..3, proptest::collection::vec((0u8..6, arb_t(), arb_t()), 0..4))
            .prop_map(|(domain, ranges)| Msg::IncReq { domain, ranges }),
    ]
}

fn arb_response() -> impl Strategy<Value = Msg> {
    prop_oneof![
        3 => Just(Msg::Pong),
        2 => (0u8..4).prop_map(Msg::IncSimple),
        3 => arb_ctx().prop_map(Msg::IncCtx),
        2 => arb_ctx().prop_map(Msg::RefCtx),
    ]
}

fn arb_cut() -> impl Strategy<Value = Cut> {
    prop_oneof![
        3 => (0u32..20_000).prop_map(Cut::At),
        4 => (0u8..10, -2i8..11).prop_map(|(idx, off)| Cut::Frame { idx, off }),
    ]
}

fn arb_bad() -> impl Strategy<Value = Bad> {
    (
        0u8..9,
        prop_oneof![
            3 => Just(BadKind::Zero),
            3 => (1u32..4).prop_map(BadKind::MaxPlus),
            1 => (4u32..100_000).prop_map(BadKind::MaxPlus),
            2 => Just(BadKind::U64Max),
            1 => Just(BadKind::HighBit),
            1 => Just(BadKind::Over32),
        ],
        prop_oneof![2 => Just(0u8), 1 => 0u8..40],
    )
        .prop_map(|(after, kind, body)| Bad { after, kind, body })
}

fn arb_case() -> impl Strategy<Value = Case> {
    let msgs = prop_oneof![
        proptest::collection::vec(arb_request(), 1..=8),
        proptest::collection::vec(arb_response(), 1..=8),
    ];
    let limit = prop_oneof![
        3 => Just(Limit::Big),
        4 => (0u8..8, -1i8..=1).prop_map(|(idx, delta)| Limit::Rel { idx, delta }),
    ];
    (
        msgs,
        limit,
        proptest::option::weighted(0.3, arb_bad()),
        proptest::collection::vec(arb_cut(), 0..=12),
        prop_oneof![9 => Just(0u16), 1 => 1u16..30],
        any::<u16>(),
        prop_oneof![6 => 0u32..64, 1 => Just(8 * 1024 * 1024u32), 1 => Just(8 * 1024 * 1024 + 1u32)],
    )
        .prop_map(|(msgs, limit, bad, cuts, trunc, pend, cap)| Case {
            msgs,
            limit,
            bad,
            cuts,
            trunc,
            pend,
            cap,
        })
}

// ---------------------------------------------------------------------------- bounded-exhaustive bases

fn tiny_ctx() -> Ctx {
    Ctx {
        version: 9,
        patch: 1,
        devel: false,
        domain: 1,
        ranges: vec![],
        schema: vec![],
        meta: vec![],
        entries: vec![Ent {
            id: 3,
            tomb: true,
            at: ((1, 0), 1),
            attrs: vec![],
        }],
    }
}

fn bases() -> Vec<Case> {
    let base = |msgs: Vec<Msg>, limit: Limit, bad: Option<Bad>| Case {
        msgs,
        limit,
        bad,
        cuts: vec![],
        trunc: 0,
        pend: 0,
        cap: 0,
    };
    let inc = Msg::IncReq {
        domain: 1,
        ranges: vec![(2, (1, 0), (2, 5))],
    };
    vec![
        base(vec![Msg::Ping, Msg::Ping], Limit::Big, None),
        base(vec![Msg::Ping, inc.clone(), Msg::RefreshReq], Limit::Big, None),
        base(vec![Msg::Ping, inc.clone(), Msg::RefreshReq], Limit::Rel { idx: 1, delta: 0 }, None),
        base(vec![Msg::Ping, inc, Msg::RefreshReq], Limit::Rel { idx: 1, delta: -1 }, None),
        base(vec![Msg::Pong, Msg::IncSimple(1), Msg::Pong, Msg::IncSimple(3)], Limit::Big, None),
        base(
            vec![Msg::Pong, Msg::IncSimple(2), Msg::Pong],
            Limit::Rel { idx: 1, delta: 0 },
            Some(Bad {
                after: 2,
                kind: BadKind::MaxPlus(1),
                body: 0,
            }),
        ),
        base(
            vec![Msg::RefreshReq, Msg::Ping],
            Limit::Big,
            Some(Bad {
                after: 1,
                kind: BadKind::Zero,
                body: 0,
            }),
        ),
        base(
            vec![Msg::Ping, Msg::RefreshReq],
            Limit::Big,
            Some(Bad {
                after: 2,
                kind: BadKind::U64Max,
                body: 3,
            }),
        ),
        base(vec![Msg::Pong, Msg::IncCtx(tiny_ctx()), Msg::Pong], Limit::Big, None),
        base(vec![Msg::RefCtx(tiny_ctx()), Msg::Pong], Limit::Rel { idx: 0, delta: 0 }, None),
    ]
}

fn main() {
    let cx = Check::from_args("C14", "exploration");
    cx.rule(
        "1-8 generated messages of one direction (Ping/Refresh/Incremental(ruv) or Pong/Incremental(status|ctx)/Refresh(ctx) with generated entries, \
         unicode/escape-heavy strings) encoded back-to-back by the real Encoder, optional crafted bad header (0, max+d, u64::MAX, 2^63, 2^32+5) spliced between frames, \
         optional early EOF; stream cut at <=12 generated positions (absolute or relative to frame starts/header bytes) and fed chunk-wise to the real Decoder \
         and through FramedRead (reader may return Pending); max_frame_bytes big or exactly len(msg k)+{-1,0,+1}. \
         bounded-exhaustive: every single cut and every pair of cuts for 10 fixed short streams. \
         non-trivial = >=2 messages expected to decode and >=1 cut strictly inside a length header or a JSON body; enumerated cases distinct by construction, random by hash",
    );
    cx.assume("wire format of a frame is an 8-byte big-endian length followed by that many bytes (used only to craft bad headers); frame boundaries of real messages are taken from the encoder's output");
    cx.assume("at EOF inside a partial frame tokio-util's FramedRead reports its own error; accepted, but no message may be produced");

    // bounded-exhaustive sweep
    let bs = bases();
    let mut offsets = Vec::new(); // (base idx, m, first index)
    let mut total = 0u64;
    for (i, b) in bs.iter().enumerate() {
        let len = match build(b) {
            Ok(x) => x.stream.len(),
            Err(_) => {
                cx.inconclusive("base sequence does not build");
                cx.finish();
            }
        };
        let m = len as u64; // cut positions a,b in 0..len (0 = no cut), a <= b
        offsets.push((i, m, total));
        total += m * (m + 1) / 2;
    }
    let offs = &offsets;
    let bsr = &bs;
    cx.enumerate(
        "exhaustive-1-and-2-cuts",
        total,
        |i| {
            let (bi, m, first) = *offs.iter().rev().find(|(_, _, f)| *f <= i).expect("offset");
            let mut k = i - first;
            // row a has (m - a) entries: b in a..m
            let mut a = 0u64;
            while k >= m - a {
                k -= m - a;
                a += 1;
            }
            let b = a + k;
            let mut c = bsr[bi].clone();
            c.cuts = vec![Cut::At(a as u32), Cut::At(b as u32)];
            c
        },
        || tokio::runtime::Builder::new_current_thread().build().expect("rt"),
        |rt, c| check(rt, c),
    );

    let n = cx.tier.pick(200_000, 4_000_000);
    cx.prop(
        "random-fragmentation",
        PropCfg::new(n).shrink(1500),
        arb_case,
        || tokio::runtime::Builder::new_current_thread().build().expect("rt"),
        |rt, c| check(rt, c),
    );
    cx.not_exhaustive();
    if cx.class_count("discarded") > 0 {
        cx.inconclusive("harness could not build some generated messages (see classes harness-build-error:*)");
    }
    cx.require_class("cut:inside-header", 5_000);
    cx.require_class("cut:inside-body", 5_000);
    cx.require_class("expect:reject", 3_000);
    cx.require_class("expect:real-message-over-limit", 1_000);
    cx.require_class("limit:len+0", 1_000);
    cx.require_class("expect:all-decoded", 5_000);
    cx.finish();
}
