//! The real replication wire codec, compiled from the repository working tree.
#![allow(dead_code, unused_imports, clippy::all)]
#[macro_use]
extern crate tracing;

#[path = "../../../../repo/server/core/src/repl/codec.rs"]
pub mod codec;
