//! C44 — Offline login accepts only the last password verified online.
//!
//! Level 2 (`resolver-histories`): the real `Resolver` + real `KanidmProvider` + real kanidm_client
//! against a scripted loopback HTTP server that plays the identity server (whoami, unix token,
//! unix credential verify). Generated histories of login attempts (password from a small pool),
//! server-side password changes, server failures for one request, server going down / coming back.
//! Oracle: a login that the resolver served from an *offline* session and reported `Success`
//! implies the supplied password equals the password of the most recent verification the server
//! accepted for this user on this machine.
//!
//! Level 1 (`cache-helpers`): `UserToken::kanidm_update_cached_password` /
//! `kanidm_check_cached_password` with two soft-TPM machines (own machine key, own HMAC key):
//! update / check / copy the cached credential to the other machine. Oracle: check accepts exactly
//! when the cache holds that password sealed by the key of the checking machine.
use kanidm_client::KanidmClientBuilder;
use kanidm_hsm_crypto::provider::{BoxedDynTpm, SoftTpm, Tpm, TpmHmacS256};
use kanidm_hsm_crypto::structures::HmacS256Key;
use kanidm_hsm_crypto::AuthValue;
use kanidm_lib_crypto::CryptoPolicy;
use proptest::prelude::*;
use serde::{Deserialize, Serialize};
use serde_json::json;
use sparkle_resolver_common::db::Cache;
use sparkle_resolver_common::idprovider::interface::{ProviderOrigin, UserToken};
use sparkle_resolver_common::idprovider::kanidm::KanidmProvider;
use sparkle_resolver_common::idprovider::system::SystemProvider;
use sparkle_resolver_common::resolver::{AuthSession, Resolver};
use sparkle_unix_common::constants::{
    DEFAULT_CACHE_TIMEOUT, DEFAULT_GID_ATTR_MAP, DEFAULT_HOME_ALIAS, DEFAULT_HOME_ATTR, DEFAULT_HOME_PREFIX,
    DEFAULT_SHELL, DEFAULT_UID_ATTR_MAP,
};
use sparkle_unix_common::unix_config::KanidmConfig;
use sparkle_unix_common::unix_proto::{PamAuthRequest, PamAuthResponse, PamServiceInfo};
use std::sync::{Arc, Mutex};
use std::time::SystemTime;
use time::OffsetDateTime;
use uuid::Uuid;
use vf_core::{CaseLog, Check, Outcome, PropCfg};
use vf_httpstub::{Reply, Request, Stub};

const PWS: [&str; 5] = ["correct horse battery", "Tr0ub4dor&3", "p\u{e4}ss w\u{f6}rd", "correct horse batterz", "x"];
fn pw(i: u8) -> String {
    PWS[i as usize % PWS.len()].to_string()
}
const USER: &str = "alice";

// =========================================================================== level 2

#[derive(Debug, Clone, Copy, Serialize, Deserialize, PartialEq)]
enum Fault {
    Status500,
    Status403,
    Garbage,
    Drop,
}

#[derive(Debug, Clone, Copy, Serialize, Deserialize, PartialEq)]
enum Sel {
    Pool(u8),
    /// the password the server currently accepts
    ServerCurrent,
    /// the password of the last verification the server accepted
    LastVerified,
    /// a password that was verified earlier but is not the last one
    OlderVerified,
}

#[derive(Debug, Clone, Copy, Serialize, Deserialize, PartialEq)]
enum Op {
    Login(Sel),
    ServerPw(u8),
    /// the next credential-verify request fails this way
    FailNextVerify(Fault),
    /// server unreachable; `noticed`: the resolver has already marked the provider offline
    Down { noticed: bool },
    Up,
    /// cached entries become stale (as after the cache timeout)
    Invalidate,
}

#[derive(Debug, Clone, Serialize, Deserialize, PartialEq)]
struct Hist {
    ops: Vec<Op>,
}

struct Server {
    up: bool,
    pw: String,
    fail_next: Option<Fault>,
    /// credentials the server accepted, in order
    accepted: Vec<String>,
    verify_calls: u32,
}

fn token_json() -> serde_json::Value {
    json!({
        "name": USER, "spn": format!("{USER}@example.com"), "displayname": "Alice", "gidnumber": 20001,
        "uuid": "5b5e7f4e-0000-4000-8000-0000000000a1", "shell": null,
        "groups": [{"name": "users", "spn": "users@example.com", "uuid": "5b5e7f4e-0000-4000-8000-0000000000b1", "gidnumber": 20002}],
        "sshkeys": [], "valid": true
    })
}

fn serve(srv: &Arc<Mutex<Server>>, r: &Request) -> Reply {
    let mut s = srv.lock().expect("lock");
    if !s.up {
        return Reply::Close;
    }
    let parts: Vec<&str> = r.path.split('/').collect();
    match (r.method.as_str(), parts.as_slice()) {
        ("GET", ["", "v1", "self"]) => Reply::Http(200, json!({"youare": {"attrs": {"name": ["unixd"]}}}).to_string().into_bytes()),
        ("GET", ["", "v1", "account", id, "_unix", "_token"]) if *id == USER || *id == "alice@example.com" => {
            Reply::Http(200, token_json().to_string().into_bytes())
        }
        ("POST", ["", "v1", "account", id, "_unix", "_auth"]) if *id == USER || *id == "alice@example.com" => {
            s.verify_calls += 1;
            if let Some(f) = s.fail_next.take() {
                return match f {
                    Fault::Status500 => Reply::Http(500, b"\"backend\"".to_vec()),
                    Fault::Status403 => Reply::Http(403, b"\"accessdenied\"".to_vec()),
                    Fault::Garbage => Reply::Http(200, b"{\"name\": ".to_vec()),
                    Fault::Drop => Reply::Close,
                };
            }
            let cred = serde_json::from_slice::<serde_json::Value>(&r.body)
                .ok()
                .and_then(|v| v.get("value").and_then(|x| x.as_str()).map(|x| x.to_string()));
            match cred {
                Some(c) if c == s.pw => {
                    s.accepted.push(c);
                    Reply::Http(200, token_json().to_string().into_bytes())
                }
                _ => Reply::Http(200, b"null".to_vec()),
            }
        }
        _ => Reply::Http(404, b"\"nomatchingentries\"".to_vec()),
    }
}

struct World {
    rt: tokio::runtime::Runtime,
    resolver: Resolver,
    server: Arc<Mutex<Server>>,
    _rx: tokio::sync::mpsc::Receiver<sparkle_resolver_common::idprovider::interface::Id>,
    _stub: Stub,
}

fn world() -> World {
    let rt = vf_unixint::runtime();
    let stub = Stub::start("1.12.0-dev");
    let server = Arc::new(Mutex::new(Server {
        up: true,
        pw: pw(0),
        fail_next: None,
        accepted: vec![],
        verify_calls: 0,
    }));
    let s2 = server.clone();
    stub.set_handler(move |r| serve(&s2, r));
    let url = stub.url();
    let (resolver, rx) = rt.block_on(async {
        let mut m = vf_unixint::machine().await;
        let client = KanidmClientBuilder::new()
            .address(url)
            .enable_native_ca_roots(false)
            .no_proxy()
            .connect_timeout(1)
            .request_timeout(2)
            .build()
            .expect("client");
        let provider = {
            let mut dbtxn = m.db.write().await;
            let p = KanidmProvider::new(
                client,
                &KanidmConfig {
                    conn_timeout: 1,
                    request_timeout: 2,
                    pam_allowed_login_groups: vec!["users".into()],
                    map_group: vec![],
                    service_account_token: Some("harness-token".into()),
                },
                SystemTime::now(),
                &mut (&mut dbtxn).into(),
                &mut m.hsm,
                &m.machine_key,
            )
            .await
            .expect("provider");
            dbtxn.commit().expect("commit");
            p
        };
        // the production policy targets 250 ms per hash; the property does not depend on the cost
        provider.verif_set_crypto_policy(CryptoPolicy::danger_test_minimum()).await;
        let vf_unixint::Machine { db, hsm, .. } = m;
        Resolver::new(
            db,
            Arc::new(SystemProvider::new().expect("system")),
            vec![Arc::new(provider)],
            hsm,
            DEFAULT_CACHE_TIMEOUT,
            DEFAULT_SHELL.to_string(),
            DEFAULT_HOME_PREFIX.into(),
            DEFAULT_HOME_ATTR,
            DEFAULT_HOME_ALIAS,
            DEFAULT_UID_ATTR_MAP,
            DEFAULT_GID_ATTR_MAP,
        )
        .await
        .expect("resolver")
    });
    World {
        rt,
        resolver,
        server,
        _rx: rx,
        _stub: stub,
    }
}

fn histories(w: &mut World, h: &Hist) -> Outcome {
    let mut log = CaseLog::new();
    let World { rt, resolver, server, .. } = w;
    {
        let mut s = server.lock().expect("lock");
        s.up = true;
        s.pw = pw(0);
        s.fail_next = None;
        s.accepted.clear();
        s.verify_calls = 0;
    }
    let info = PamServiceInfo {
        service: "sshd".into(),
        tty: None,
        rhost: None,
    };
    rt.block_on(async {
        if resolver.clear_cache().await.is_err() {
            log.class("harness:clear-cache-failed");
            return;
        }
        resolver.mark_next_check_now(SystemTime::now()).await;
        let _ = resolver.test_connection().await;
        // passwords that an offline login may legitimately accept
        let mut acceptable: Vec<String> = Vec::new();
        let mut ever_verified: Vec<String> = Vec::new();
        let mut offline_since_down = false;
        for (i, op) in h.ops.iter().enumerate() {
            match op {
                Op::ServerPw(k) => server.lock().expect("lock").pw = pw(*k),
                Op::FailNextVerify(f) => server.lock().expect("lock").fail_next = Some(*f),
                Op::Down { noticed } => {
                    server.lock().expect("lock").up = false;
                    if *noticed {
                        resolver.mark_offline().await;
                    }
                    offline_since_down = true;
                }
                Op::Up => {
                    server.lock().expect("lock").up = true;
                    resolver.mark_next_check_now(SystemTime::now()).await;
                    let _ = resolver.test_connection().await;
                }
                Op::Invalidate => {
                    let _ = resolver.invalidate().await;
                }
                Op::Login(sel) => {
                    let cred = match sel {
                        Sel::Pool(k) => pw(*k),
                        Sel::ServerCurrent => server.lock().expect("lock").pw.clone(),
                        Sel::LastVerified => ever_verified.last().cloned().unwrap_or_else(|| pw(0)),
                        Sel::OlderVerified => {
                            let n = ever_verified.len();
                            if n >= 2 {
                                ever_verified[n - 2].clone()
                            } else {
                                pw(3)
                            }
                        }
                    };
                    let accepted_before = server.lock().expect("lock").accepted.len();
                    let (_tx, rx) = tokio::sync::broadcast::channel(1);
                    let init = resolver
                        .pam_account_authenticate_init(USER, &info, OffsetDateTime::UNIX_EPOCH + time::Duration::seconds(1_700_000_000), rx)
                        .await;
                    let Ok((mut session, first)) = init else {
                        log.class("login:init-error");
                        continue;
                    };
                    let offline = matches!(session, AuthSession::Offline { .. });
                    let online = matches!(session, AuthSession::Online { .. });
                    if !matches!(first, PamAuthResponse::Password) {
                        log.class(format!("login:first-response-{}", if offline { "offline" } else { "other" }));
                        continue;
                    }
                    let res = resolver
                        .pam_account_authenticate_step(&mut session, PamAuthRequest::Password { cred: cred.clone() })
                        .await;
                    let success = matches!(res, Ok(PamAuthResponse::Success));
                    let server_accepted_now = server.lock().expect("lock").accepted.len() > accepted_before;
                    if offline {
                        if success {
                            if !acceptable.contains(&cred) {
                                let sig = if acceptable.is_empty() {
                                    "offline login accepted although no password was ever verified online"
                                } else if ever_verified.contains(&cred) {
                                    "offline login accepted an older password than the last one verified online"
                                } else {
                                    "offline login accepted a password that was never verified online"
                                };
                                log.fail(sig, format!("step {i}: cred={cred:?} acceptable={acceptable:?} history={:?}", &h.ops[..=i]));
                                return;
                            }
                            log.class("offline:accepted-last-verified");
                            if offline_since_down {
                                log.class("offline:accepted-while-server-down");
                            }
                        } else if acceptable.contains(&cred) {
                            log.class("converse:offline-refused-last-verified");
                        } else if ever_verified.contains(&cred) {
                            log.class("offline:refused-older-password");
                        } else {
                            log.class("offline:refused-unverified-password");
                        }
                    } else if online {
                        if success && !server_accepted_now {
                            log.fail(
                                "online login succeeded although the server did not accept the password",
                                format!("step {i}: cred={cred:?} history={:?}", &h.ops[..=i]),
                            );
                            return;
                        }
                        if server_accepted_now {
                            if success {
                                acceptable = vec![cred.clone()];
                                log.class("online:success");
                            } else {
                                // server verified, the machine did not complete the login: either state is defensible
                                acceptable.push(cred.clone());
                                log.class("online:server-accepted-but-login-failed");
                            }
                            ever_verified.retain(|x| *x != cred);
                            ever_verified.push(cred.clone());
                        } else {
                            log.class(match res {
                                Ok(PamAuthResponse::Denied) => "online:denied",
                                Ok(_) => "online:other",
                                Err(_) => "online:error",
                            });
                        }
                    }
                }
            }
        }
    });
    let c = &log.classes;
    if c.iter().any(|x| x == "offline:accepted-last-verified")
        && c.iter().any(|x| x == "offline:refused-older-password" || x == "offline:refused-unverified-password")
    {
        log.nontrivial();
    }
    log.finish()
}

fn arb_sel() -> impl Strategy<Value = Sel> {
    prop_oneof![
        3 => (0u8..5).prop_map(Sel::Pool),
        4 => Just(Sel::ServerCurrent),
        4 => Just(Sel::LastVerified),
        3 => Just(Sel::OlderVerified),
    ]
}

fn arb_hist() -> impl Strategy<Value = Hist> {
    let fault = prop_oneof![Just(Fault::Status500), Just(Fault::Status403), Just(Fault::Garbage), Just(Fault::Drop)];
    // free-form histories
    let op = prop_oneof![
        10 => arb_sel().prop_map(Op::Login),
        3 => (0u8..5).prop_map(Op::ServerPw),
        1 => fault.clone().prop_map(Op::FailNextVerify),
        3 => proptest::bool::weighted(0.8).prop_map(|noticed| Op::Down { noticed }),
        2 => Just(Op::Up),
        1 => Just(Op::Invalidate),
    ];
    let free = proptest::collection::vec(op, 3..14).prop_map(|ops| Hist { ops });
    // shaped histories: rounds of (online phase, server goes down, offline phase, server returns)
    let online_op = prop_oneof![
        6 => prop_oneof![3 => Just(Sel::ServerCurrent), 1 => (0u8..5).prop_map(Sel::Pool), 1 => Just(Sel::OlderVerified)].prop_map(Op::Login),
        3 => (0u8..5).prop_map(Op::ServerPw),
        1 => fault.prop_map(Op::FailNextVerify),
        1 => Just(Op::Invalidate),
    ];
    let round = (
        proptest::collection::vec(online_op, 1..6),
        proptest::bool::weighted(0.85),
        proptest::collection::vec(arb_sel(), 1..5),
    );
    let shaped = proptest::collection::vec(round, 1..4).prop_map(|rounds| {
        let mut ops = Vec::new();
        for (online, noticed, offline) in rounds {
            ops.extend(online);
            ops.push(Op::Down { noticed });
            ops.extend(offline.into_iter().map(Op::Login));
            ops.push(Op::Up);
        }
        Hist { ops }
    });
    prop_oneof![3 => shaped, 1 => free]
}

// =========================================================================== level 1

#[derive(Debug, Clone, Copy, Serialize, Deserialize, PartialEq)]
enum PSel {
    Pool(u8),
    /// the password the token of that machine currently caches (if any)
    Cached,
}

#[derive(Debug, Clone, Copy, Serialize, Deserialize, PartialEq)]
enum HOp {
    Update { m: bool, p: u8 },
    Check { m: bool, p: PSel },
    /// copy the cached credential of machine m's token into the other machine's token
    CopyTo { from: bool },
    Clear { m: bool },
}

#[derive(Debug, Clone, Serialize, Deserialize, PartialEq)]
struct HCase {
    ops: Vec<HOp>,
}

struct Mach {
    hsm: BoxedDynTpm,
    hmac: HmacS256Key,
}

fn mach() -> Mach {
    let mut hsm = BoxedDynTpm::new(SoftTpm::default());
    let av = AuthValue::ephemeral().expect("auth value");
    let lmk = hsm.root_storage_key_create(&av).expect("mk create");
    let mk = hsm.root_storage_key_load(&av, &lmk).expect("mk load");
    let hmac = {
        let ctx: &mut dyn TpmHmacS256 = &mut *hsm;
        let l = ctx.hmac_s256_create(&mk).expect("hmac create");
        ctx.hmac_s256_load(&mk, &l).expect("hmac load")
    };
    Mach { hsm, hmac }
}

fn blank_token() -> UserToken {
    UserToken {
        provider: ProviderOrigin::Kanidm,
        name: USER.into(),
        spn: format!("{USER}@example.com"),
        uuid: Uuid::from_u128(0x5b5e7f4e_0000_4000_8000_0000000000a1),
        gidnumber: 20_001,
        displayname: "Alice".into(),
        shell: None,
        groups: vec![],
        sshkeys: vec![],
        valid: true,
        extra_keys: Default::default(),
    }
}

fn helpers(ms: &mut (Mach, Mach), c: &HCase) -> Outcome {
    let mut log = CaseLog::new();
    let policy = CryptoPolicy::danger_test_minimum();
    let mut tok = (blank_token(), blank_token());
    // model: cached (password index, sealed by machine A?) per token
    let mut model: (Option<(u8, bool)>, Option<(u8, bool)>) = (None, None);
    for (i, op) in c.ops.iter().enumerate() {
        match *op {
            HOp::Update { m, p } => {
                let (t, mc, md) = if m { (&mut tok.0, &mut ms.0, &mut model.0) } else { (&mut tok.1, &mut ms.1, &mut model.1) };
                t.kanidm_update_cached_password(&policy, &pw(p), &mut mc.hsm, &mc.hmac);
                *md = Some((p % PWS.len() as u8, m));
                if !t.kanidm_has_offline_credentials() {
                    log.class("helper:update-left-no-credential");
                    *md = None;
                }
            }
            HOp::Clear { m } => {
                if m {
                    tok.0 = blank_token();
                    model.0 = None;
                } else {
                    tok.1 = blank_token();
                    model.1 = None;
                }
            }
            HOp::CopyTo { from } => {
                if from {
                    tok.1.extra_keys = tok.0.extra_keys.clone();
                    model.1 = model.0;
                } else {
                    tok.0.extra_keys = tok.1.extra_keys.clone();
                    model.0 = model.1;
                }
            }
            HOp::Check { m, p } => {
                let (t, mc, md) = if m { (&tok.0, &mut ms.0, &model.0) } else { (&tok.1, &mut ms.1, &model.1) };
                let p = match p {
                    PSel::Pool(i) => i % PWS.len() as u8,
                    PSel::Cached => md.map(|(q, _)| q).unwrap_or(0),
                };
                let got = t.kanidm_check_cached_password(&pw(p), &mut mc.hsm, &mc.hmac);
                let same_pw = md.map(|(q, _)| q == p).unwrap_or(false);
                let same_key = md.map(|(_, k)| k == m).unwrap_or(false);
                if got && !(same_pw && same_key) {
                    let sig = if md.is_none() {
                        "cached-password check accepted with an empty cache"
                    } else if !same_pw {
                        "cached-password check accepted a different password"
                    } else {
                        "cached-password check accepted a credential sealed by another machine's key"
                    };
                    log.fail(sig, format!("op {i} {op:?}: model={md:?} history={:?}", &c.ops[..=i]));
                    break;
                }
                if !got && same_pw && same_key {
                    log.fail(
                        "cached-password check refused the cached password under the sealing key",
                        format!("op {i} {op:?}: model={md:?}"),
                    );
                    break;
                }
                log.class(match (got, md.is_some(), same_pw, same_key) {
                    (true, ..) => "helper:accept",
                    (false, false, ..) => "helper:refuse-empty-cache",
                    (false, true, false, true) => "helper:refuse-wrong-password",
                    (false, true, true, false) => "helper:refuse-foreign-key",
                    (false, true, false, false) => "helper:refuse-wrong-password-foreign-key",
                    _ => "helper:other",
                });
            }
        }
    }
    let cl = &log.classes;
    if cl.iter().any(|x| x == "helper:accept") && cl.iter().any(|x| x == "helper:refuse-foreign-key" || x == "helper:refuse-wrong-password") {
        log.nontrivial();
    }
    log.finish()
}

fn arb_hcase() -> impl Strategy<Value = HCase> {
    let op = prop_oneof![
        5 => (any::<bool>(), 0u8..5).prop_map(|(m, p)| HOp::Update { m, p }),
        5 => (any::<bool>(), (0u8..5).prop_map(PSel::Pool)).prop_map(|(m, p)| HOp::Check { m, p }),
        6 => any::<bool>().prop_map(|m| HOp::Check { m, p: PSel::Cached }),
        3 => any::<bool>().prop_map(|from| HOp::CopyTo { from }),
        1 => any::<bool>().prop_map(|m| HOp::Clear { m }),
    ];
    (any::<bool>(), 0u8..5, proptest::collection::vec(op, 2..12)).prop_map(|(m, p, mut ops)| {
        ops.insert(0, HOp::Update { m, p });
        HCase { ops }
    })
}

fn main() {
    std::env::set_var("KANIDM_DEV_YOLO", "1");
    let cx = Check::from_args("C44", "exploration");
    cx.rule(
        "resolver-histories: 1-3 rounds of {online phase: logins (current server password / pool / an older verified one), server-side password changes, one failing verify reply, cache invalidation; server down (noticed or not); offline phase: 1-4 logins with the last verified / an older verified / the current server / a pool password; server up} plus free-form histories of 3-13 ops {login with one of 5 passwords (two differ in one letter), server-side password change, one failing verify reply (500/403/garbage/drop), server down (noticed or not yet noticed by the resolver), server up, cache invalidation} \
         against the real Resolver+KanidmProvider+kanidm_client over a loopback HTTP stub; every login is classified by the session the resolver chose (online/offline). \
         cache-helpers: 2-11 ops {update, check, copy cached credential to the other machine, clear} on two soft-TPM machines with their own machine and HMAC keys. \
         non-trivial = history with an offline accept of the last verified password AND an offline refusal of another password (helpers: an accept and a refusal for wrong password or foreign key); distinct by hash",
    );
    cx.assume("the KDF cost policy of the provider is lowered through a verif-hooks setter (production targets 250 ms per hash); connectivity changes are signalled to the resolver with its public mark_offline / mark_next_check_now + test_connection, as its daemon does");
    cx.assume("level 2 is judged one-directionally (offline accept => last password the server accepted); if the server accepted a password but the login did not complete, both that and the previous password are tolerated");
    let n2 = cx.tier.pick(4_000, 80_000);
    cx.prop("resolver-histories", PropCfg::new(n2).shrink(200), arb_hist, world, |w, h| histories(w, h));
    let n1 = cx.tier.pick(10_000, 300_000);
    cx.prop("cache-helpers", PropCfg::new(n1).shrink(500), arb_hcase, || (mach(), mach()), |m, c| helpers(m, c));
    if cx.class_count("harness:clear-cache-failed") > 0 {
        cx.inconclusive("resolver.clear_cache failed in the harness");
    }
    cx.require_class("offline:accepted-last-verified", 200);
    cx.require_class("offline:accepted-while-server-down", 150);
    cx.require_class("offline:refused-older-password", 50);
    cx.require_class("offline:refused-unverified-password", 100);
    cx.require_class("online:success", 300);
    cx.require_class("helper:accept", 1000);
    cx.require_class("helper:refuse-foreign-key", 300);
    cx.require_class("helper:refuse-wrong-password", 1000);
    cx.finish();
}
