//! C45 — Host login requires membership of an allowed group.
//!
//! Generated allowed-login lists x generated account records, decided by the real
//! `KanidmProvider::unix_user_authorise` (a) called directly and (b) reached through the real
//! `Resolver::pam_account_allowed` (cache DB, refresh, provider lookup), where the directory side is
//! a scripted provider that only answers `unix_user_get` and delegates the decision to the real one.
//!
//! Oracle (from the property text): allowed <=> record valid AND some group of the record is named,
//! by its name or its hyphenated UUID, in the list; empty list admits nobody; unknown account is never
//! allowed. List entries that match a group only under a laxer reading (other letter case, SPN,
//! un-hyphenated UUID) make the case ambiguous: then only `strict => allowed => lax` is demanded.
use proptest::prelude::*;
use serde::{Deserialize, Serialize};
use sparkle_resolver_common::idprovider::interface::{GroupToken, IdProvider, ProviderOrigin, UserToken};
use sparkle_unix_common::unix_proto::PamServiceInfo;
use uuid::Uuid;
use vf_core::{CaseLog, Check, Outcome, PropCfg};
use vf_unixint::{Directory, World};

const NGROUPS: u8 = 8;

fn guuid(i: u8) -> Uuid {
    Uuid::from_u128(0xabcdef00_1111_4222_8333_0000_0000_0000u128 + (i as u128) * 0x0101)
}
/// Group 7 is adversarial: its *name* is the hyphenated uuid of group 0.
fn gname(i: u8) -> String {
    match i % NGROUPS {
        0 => "idm_admins".into(),
        1 => "ops".into(),
        2 => "ops_extra".into(),
        3 => "wheel".into(),
        7 => guuid(0).hyphenated().to_string(),
        k => format!("grp{k}"),
    }
}

#[derive(Debug, Clone, Copy, Serialize, Deserialize, PartialEq)]
enum Entry {
    Name(u8),
    Uuid(u8),
    NameUpper(u8),
    UuidUpper(u8),
    UuidSimple(u8),
    Spn(u8),
    NamePrefix(u8),
    Junk(u8),
    Empty,
}

impl Entry {
    fn text(&self) -> String {
        match self {
            Entry::Name(i) => gname(*i),
            Entry::Uuid(i) => guuid(*i % NGROUPS).hyphenated().to_string(),
            Entry::NameUpper(i) => gname(*i).to_uppercase(),
            Entry::UuidUpper(i) => guuid(*i % NGROUPS).hyphenated().to_string().to_uppercase(),
            Entry::UuidSimple(i) => guuid(*i % NGROUPS).simple().to_string(),
            Entry::Spn(i) => format!("{}@example.com", gname(*i)),
            Entry::NamePrefix(i) => {
                let n = gname(*i);
                n[..n.len() - 1].to_string()
            }
            Entry::Junk(k) => format!("nosuchgroup{k}"),
            Entry::Empty => String::new(),
        }
    }
}

#[derive(Debug, Clone, Serialize, Deserialize, PartialEq)]
struct Rec {
    valid: bool,
    groups: Vec<u8>,
}

#[derive(Debug, Clone, Serialize, Deserialize, PartialEq)]
enum Step {
    Record(Rec),
    Absent,
    Unreachable,
}

#[derive(Debug, Clone, Serialize, Deserialize, PartialEq)]
struct Case {
    allow: Vec<Entry>,
    steps: Vec<Step>,
    by_spn: bool,
}

fn token(r: &Rec) -> UserToken {
    UserToken {
        provider: ProviderOrigin::Kanidm,
        name: "alice".into(),
        spn: "alice@example.com".into(),
        uuid: Uuid::from_u128(0x5555_0000_0000_4000_8000_0000_0000_0001),
        gidnumber: 20_001,
        displayname: "Alice".into(),
        shell: None,
        groups: r
            .groups
            .iter()
            .map(|g| {
                let g = *g % NGROUPS;
                GroupToken {
                    provider: ProviderOrigin::Kanidm,
                    name: gname(g),
                    spn: format!("{}@example.com", gname(g)),
                    uuid: guuid(g),
                    gidnumber: 30_000 + g as u32,
                    extra_keys: Default::default(),
                }
            })
            .collect(),
        sshkeys: vec![],
        valid: r.valid,
        extra_keys: Default::default(),
    }
}

/// (strict, lax) reading of the property for one record.
fn reference(allow: &[String], r: &Rec) -> (bool, bool) {
    let mut strict = false;
    let mut lax = false;
    for g in &r.groups {
        let g = *g % NGROUPS;
        let name = gname(g);
        let uuid = guuid(g);
        for e in allow {
            if *e == name || *e == uuid.hyphenated().to_string() {
                strict = true;
            }
            let as_uuid = Uuid::parse_str(e).ok();
            if e.to_lowercase() == name.to_lowercase()
                || as_uuid == Some(uuid)
                || e.to_lowercase() == format!("{}@example.com", name).to_lowercase()
            {
                lax = true;
            }
        }
    }
    (r.valid && strict, r.valid && (lax || strict))
}

fn judge(log: &mut CaseLog, via: &str, allow: &[String], rec: Option<&Rec>, got: &Result<Option<bool>, String>) {
    match rec {
        None => {
            log.class("expect:unknown-account");
            if let Ok(Some(true)) = got {
                log.fail(
                    "unknown account allowed to log in",
                    format!("[{via}] allow={allow:?} got={got:?}"),
                );
            }
        }
        Some(r) => {
            let (strict, lax) = reference(allow, r);
            if strict != lax {
                log.class("ambiguous:lax-only-match");
            }
            match got {
                Ok(Some(true)) => {
                    if !lax {
                        let sig = if allow.is_empty() {
                            "empty allowed-login list admitted a user"
                        } else if !r.valid {
                            "invalid account allowed to log in"
                        } else {
                            "login allowed without membership of an allowed group"
                        };
                        log.fail(sig, format!("[{via}] allow={allow:?} record={r:?}"));
                    }
                }
                Ok(Some(false)) => {
                    if strict {
                        log.fail(
                            "valid member of an allowed group denied",
                            format!("[{via}] allow={allow:?} record={r:?}"),
                        );
                    }
                }
                other => {
                    if strict {
                        log.fail(
                            "valid member of an allowed group not authorised (no decision)",
                            format!("[{via}] allow={allow:?} record={r:?} got={other:?}"),
                        );
                    }
                }
            }
            if strict {
                log.class(format!("expect:allowed[{via}]"));
            } else if !lax {
                log.class(format!("expect:denied[{via}]"));
                if r.valid && !r.groups.is_empty() && !allow.is_empty() {
                    log.class("denied:valid-but-no-matching-group");
                }
                if !r.valid && reference(allow, &Rec { valid: true, groups: r.groups.clone() }).0 {
                    log.class("denied:member-but-invalid");
                }
                if allow.is_empty() && r.valid && !r.groups.is_empty() {
                    log.class("denied:empty-list");
                }
            }
        }
    }
}

fn check(w: &mut World, c: &Case) -> Outcome {
    let mut log = CaseLog::new();
    let allow: Vec<String> = c.allow.iter().map(|e| e.text()).collect();
    let World {
        rt, resolver, scripted, ..
    } = w;
    rt.block_on(async {
        scripted.real.verif_set_pam_allow_groups(&allow).await;
        *scripted.dir.lock().expect("lock") = Directory::Absent;
        if resolver.clear_cache().await.is_err() {
            log.class("harness:invalidate-failed");
            return;
        }
        // (a) the provider's decision function directly, for every record of the history
        for s in &c.steps {
            if let Step::Record(r) = s {
                let got = scripted
                    .real
                    .unix_user_authorise(&token(r))
                    .await
                    .map_err(|e| format!("{e:?}"));
                judge(&mut log, "provider", &allow, Some(r), &got);
            }
        }
        if log.failed() {
            return;
        }
        // (b) through the resolver
        let info = PamServiceInfo {
            service: "sshd".into(),
            tty: None,
            rhost: None,
        };
        let who = if c.by_spn { "alice@example.com" } else { "alice" };
        let mut cached: Option<Rec> = None;
        for (i, s) in c.steps.iter().enumerate() {
            *scripted.dir.lock().expect("lock") = match s {
                Step::Record(r) => {
                    cached = Some(r.clone());
                    Directory::Record(token(r))
                }
                Step::Absent => {
                    cached = None;
                    Directory::Absent
                }
                Step::Unreachable => Directory::Unreachable,
            };
            // force the resolver to consult the directory again (cache entries become stale)
            if resolver.invalidate().await.is_err() {
                log.class("harness:invalidate-failed");
                return;
            }
            let got = resolver
                .pam_account_allowed(who, &info)
                .await
                .map_err(|_| "resolver error".to_string());
            judge(&mut log, "resolver", &allow, cached.as_ref(), &got);
            if log.failed() {
                return;
            }
            if i > 0 {
                if let (Step::Record(a), Some(Step::Record(b))) = (s, c.steps.get(i - 1)) {
                    let (sa, _) = reference(&allow, a);
                    let (sb, _) = reference(&allow, b);
                    if sb && !sa {
                        log.class("history:allowed-then-revoked");
                    }
                }
                if matches!(s, Step::Unreachable) && cached.is_some() {
                    log.class("history:decided-from-cache-while-unreachable");
                }
            }
        }
    });
    // classes of the list
    if allow.is_empty() {
        log.class("list:empty");
    }
    for e in &c.allow {
        log.class(
            match e {
                Entry::Name(_) => "list:name",
                Entry::Uuid(_) => "list:uuid",
                Entry::NameUpper(_) | Entry::UuidUpper(_) => "list:other-case",
                Entry::UuidSimple(_) => "list:uuid-unhyphenated",
                Entry::Spn(_) => "list:spn",
                Entry::NamePrefix(_) => "list:name-prefix",
                Entry::Junk(_) => "list:junk",
                Entry::Empty => "list:empty-string",
            }
            .to_string(),
        );
    }
    let has_allowed = log.classes.iter().any(|c| c.starts_with("expect:allowed"));
    let has_denied = log.classes.iter().any(|c| c.starts_with("expect:denied"));
    if has_allowed && has_denied {
        log.class("both-outcomes-in-one-case");
    }
    // non-trivial: non-empty list, a record with >=1 group, and a definite expectation
    if !allow.is_empty()
        && c.steps
            .iter()
            .any(|s| matches!(s, Step::Record(r) if !r.groups.is_empty()))
        && (has_allowed || has_denied)
    {
        log.nontrivial();
    }
    log.finish()
}

fn arb_entry() -> impl Strategy<Value = Entry> {
    prop_oneof![
        6 => (0..NGROUPS).prop_map(Entry::Name),
        6 => (0..NGROUPS).prop_map(Entry::Uuid),
        1 => (0..NGROUPS).prop_map(Entry::NameUpper),
        1 => (0..NGROUPS).prop_map(Entry::UuidUpper),
        1 => (0..NGROUPS).prop_map(Entry::UuidSimple),
        1 => (0..NGROUPS).prop_map(Entry::Spn),
        1 => (0..NGROUPS).prop_map(Entry::NamePrefix),
        2 => (0u8..3).prop_map(Entry::Junk),
        1 => Just(Entry::Empty),
    ]
}

fn arb_rec() -> impl Strategy<Value = Rec> {
    (
        proptest::bool::weighted(0.7),
        proptest::collection::vec(0..NGROUPS, 0..5),
    )
        .prop_map(|(valid, groups)| Rec { valid, groups })
}

fn arb_case() -> impl Strategy<Value = Case> {
    let step = prop_oneof![
        8 => arb_rec().prop_map(Step::Record),
        1 => Just(Step::Absent),
        2 => Just(Step::Unreachable),
    ];
    (
        prop_oneof![
            1 => Just(Vec::new()),
            6 => proptest::collection::vec(arb_entry(), 1..4),
        ],
        proptest::collection::vec(step, 1..4),
        any::<bool>(),
    )
        .prop_map(|(allow, steps, by_spn)| Case { allow, steps, by_spn })
}

fn main() {
    let cx = Check::from_args("C45", "exploration");
    cx.rule(
        "allowed-login list of 0-3 entries (group names, hyphenated uuids, and near-misses: other case, spn, un-hyphenated uuid, name prefix, junk, empty string) over a pool of 8 groups \
         (one group is *named* like another group's uuid) x a history of 1-3 directory states for one user (record with valid flag and 0-4 groups / account absent / server unreachable); \
         every record is decided by the real KanidmProvider::unix_user_authorise directly, and the whole history by the real Resolver::pam_account_allowed (cache invalidated before each query, lookup by name or spn). \
         non-trivial = non-empty list, a record with >=1 group and a definite (non-ambiguous) expectation; distinct by hash of the case",
    );
    cx.assume("one provider+resolver per worker, re-configured per case through the verif-hooks setter (allowed-login list) and Resolver::clear_cache; the directory side is a scripted IdProvider that answers unix_user_get from the generated record and forwards unix_user_authorise to the real KanidmProvider; no system (/etc/passwd) accounts are loaded");
    cx.assume("both directions are judged (deny of a valid member is reported under its own signature); list entries matching only case-insensitively / by spn / by un-hyphenated uuid are ambiguous: only strict => allowed => lax is demanded");
    let n = cx.tier.pick(30_000, 600_000);
    cx.prop("authorise", PropCfg::new(n).shrink(400), arb_case, vf_unixint::world, |w, c| check(w, c));
    cx.require_class("expect:allowed[provider]", 500);
    cx.require_class("expect:allowed[resolver]", 500);
    cx.require_class("expect:denied[resolver]", 500);
    cx.require_class("denied:member-but-invalid", 100);
    cx.require_class("denied:valid-but-no-matching-group", 100);
    cx.require_class("denied:empty-list", 100);
    cx.require_class("history:allowed-then-revoked", 50);
    if cx.class_count("harness:invalidate-failed") > 0 {
        cx.inconclusive("resolver.invalidate() failed in the harness");
    }
    cx.finish();
}
