//! C43 — PAM fails closed.
//!
//! The real PAM core (`sm_authenticate`, `acct_mgmt` of pam_sparkle_common, reached through the
//! verif-hooks re-export) runs with a scripted `PamHandler` against
//!  * a scripted fake resolver daemon on a real Unix socket (every reply kind, wrong kinds for the
//!    state, errors, undecodable frames, early disconnect, silence), or
//!  * no reachable daemon (no socket / stale socket / regular file), in which case the module falls
//!    back to passwd/shadow content that the harness generated, wrote to scratch files and read back
//!    with the real `read_etc_passwd_file` / `read_etc_shadow_file` parsers.
//!
//! Oracle (one-directional, from the property): PAM_SUCCESS from authenticate implies
//!  * daemon reachable: the last complete reply the daemon sent was the explicit
//!    `PamAuthenticateStepResponse{Success}`;
//!  * daemon unreachable: the first shadow line of that account (independent split(':') parse of the
//!    file text) holds a `$5$`/`$6$`/`$y$` hash for which libcrypt's crypt(3) reproduces the stored
//!    string from a credential the handler actually handed out, and the account expiry day (field 8)
//!    is absent or in the future.
//! `acct_mgmt` likewise (`PamStatus(Some(true))`; fallback: shadow line present and not expired).
use pam_sparkle_common::constants::PamResultCode;
use pam_sparkle_common::module::PamResult;
use pam_sparkle_common::verif_hooks::{acct_mgmt, sm_authenticate, PamHandler, RequestOptions, CLIENT};
use pam_sparkle_common::ModuleOptions;
use proptest::prelude::*;
use serde::{Deserialize, Serialize};
use serde_json::{json, Value};
use sparkle_unix_common::unix_passwd::{read_etc_passwd_file, read_etc_shadow_file};
use sparkle_unix_common::unix_proto::{DeviceAuthorizationResponse, PamServiceInfo};
use std::cell::RefCell;
use std::ffi::{c_char, c_int, c_void, CStr, CString};
use std::io::{Read, Write};
use std::os::unix::net::{UnixListener, UnixStream};
use std::path::PathBuf;
use std::sync::atomic::{AtomicUsize, Ordering};
use std::sync::{Arc, Mutex};
use time::OffsetDateTime;
use vf_core::{CaseLog, Check, Outcome, PropCfg};

#[link(name = "crypt")]
extern "C" {
    fn crypt_rn(phrase: *const c_char, setting: *const c_char, data: *mut c_void, size: c_int) -> *mut c_char;
}

/// crypt(3) from the system libcrypt (thread-safe variant). None = libcrypt refuses the setting.
fn crypt3(pw: &str, setting: &str) -> Option<String> {
    let pw = CString::new(pw).ok()?;
    let setting = CString::new(setting).ok()?;
    let mut data = vec![0u8; 1 << 17];
    // SAFETY: both strings are NUL terminated, the scratch buffer outlives the call and is larger
    // than struct crypt_data; the result points into that buffer and is copied before it is freed.
    unsafe {
        let r = crypt_rn(pw.as_ptr(), setting.as_ptr(), data.as_mut_ptr() as *mut c_void, data.len() as c_int);
        if r.is_null() {
            None
        } else {
            Some(CStr::from_ptr(r).to_string_lossy().to_string())
        }
    }
}

// ------------------------------------------------------------------------------------------ case

const NAMES: [&str; 5] = ["alice", "al", "bob", "root", "alice2"];
const PWS: [&str; 6] = ["a", "correct horse", "p\u{e4}ssw\u{f6}rd\u{2713}", " ", "hunter2hunter2hunter2hunter2hunter2hunter2hunter2hunter2hunter2hunter2hunter2hunter2", "$6$x$y"];

#[derive(Debug, Clone, Serialize, Deserialize, PartialEq)]
enum HashKind {
    Sha512(Option<u32>),
    Sha256(Option<u32>),
    Yescrypt,
    Md5,
    Bcrypt,
    Des,
    /// "!" + a valid supported hash (locked account)
    Locked(Box<HashKind>),
    Bang,
    Star,
    BangBang,
    Empty,
    X,
    /// the field is the password itself
    Plain,
    /// supported hash with the last character removed
    Truncated(Box<HashKind>),
    /// supported hash whose hash body keeps only its first n characters
    Short(Box<HashKind>, u8),
}

#[derive(Debug, Clone, Copy, Serialize, Deserialize, PartialEq)]
enum Exp {
    None,
    Days(i64),
}

#[derive(Debug, Clone, Serialize, Deserialize, PartialEq)]
struct Entry {
    name: u8,
    kind: HashKind,
    pw: u8,
    salt: u8,
    exp: Exp,
    in_passwd: bool,
    in_shadow: bool,
}

#[derive(Debug, Clone, Serialize, Deserialize, PartialEq)]
struct Files {
    entries: Vec<Entry>,
    comments: bool,
    /// a line with a wrong field count in shadow (the real parser then rejects the file)
    malformed_shadow: bool,
    shadow_unreadable: bool,
}

#[derive(Debug, Clone, Copy, Serialize, Deserialize, PartialEq)]
enum PwSel {
    /// the true password of the first shadow entry of the account
    Correct,
    Pool(u8),
    CorrectTruncated,
    CorrectExtended,
    Empty,
    /// the stored shadow field itself
    StoredField,
}

#[derive(Debug, Clone, Copy, Serialize, Deserialize, PartialEq)]
enum Ans {
    Give(PwSel),
    Nothing,
    Fail(u8),
}

#[derive(Debug, Clone, Serialize, Deserialize, PartialEq)]
struct Handler {
    account_fail: Option<u8>,
    service_fail: Option<u8>,
    authtok: Ans,
    passwords: Vec<Ans>,
    pins: Vec<Ans>,
    mfa: Vec<Ans>,
    /// message()/message_device_grant() fail from this call on
    message_fail_at: Option<u8>,
}

#[derive(Debug, Clone, Serialize, Deserialize, PartialEq)]
enum Rep {
    Success,
    Denied,
    Unknown,
    Password,
    DeviceGrant,
    MfaCode,
    MfaPoll,
    MfaPollWait,
    SetupPin,
    Pin,
    Error,
    Ok,
    PamStatus(Option<bool>),
    SshKeys,
    NssAccount,
    ProviderStatus,
    /// well framed, not JSON
    GarbageFrame,
    /// well framed JSON naming a variant that does not exist
    UnknownVariant,
    /// Success-looking object with a misspelt key
    AlmostSuccess,
    /// half a frame, then the connection is closed
    Partial,
    Close,
    Silence,
}

#[derive(Debug, Clone, Serialize, Deserialize, PartialEq)]
enum Daemon {
    Reachable(Vec<Rep>),
    NoPathConfigured,
    NoSocket,
    StaleSocket,
    NotASocket,
}

#[derive(Debug, Clone, Copy, Serialize, Deserialize, PartialEq)]
enum Now {
    /// seconds relative to 00:00 UTC of the expiry day of the account's first shadow entry
    RelExpiry(i64),
    Abs(i64),
}

#[derive(Debug, Clone, Serialize, Deserialize, PartialEq)]
struct Case {
    acct_flow: bool,
    use_first_pass: bool,
    ignore_unknown_user: bool,
    account: u8,
    /// when set (and entries exist): the account is the name of entry (k % len)
    account_of_entry: Option<u8>,
    handler: Handler,
    daemon: Daemon,
    files: Files,
    now: Now,
}

// ------------------------------------------------------------------------------------------ files

fn salt(i: u8) -> &'static str {
    ["saltsalt", "./A9zZ0123456789"][i as usize % 2]
}

static ORACLE_CACHE: Mutex<Option<std::collections::HashMap<(String, String), bool>>> = Mutex::new(None);

/// Does libcrypt reproduce `field` from `pw`? (memoised: a pure function)
fn crypt_confirms(pw: &str, field: &str) -> bool {
    let key = (pw.to_string(), field.to_string());
    if let Some(v) = ORACLE_CACHE.lock().expect("lock").get_or_insert_with(Default::default).get(&key) {
        return *v;
    }
    let v = crypt3(pw, field).as_deref() == Some(field);
    ORACLE_CACHE
        .lock()
        .expect("lock")
        .get_or_insert_with(Default::default)
        .insert(key, v);
    v
}

static FIELD_CACHE: Mutex<Option<std::collections::HashMap<String, Option<String>>>> = Mutex::new(None);

/// The stored shadow field for an entry (hashes are produced by libcrypt). None = libcrypt cannot.
/// Pure function of its arguments; memoised because yescrypt/sha-crypt settings cost 10-100 ms.
fn stored_field(kind: &HashKind, pw: &str, s: u8) -> Option<String> {
    let key = format!("{kind:?}|{pw}|{}", s % 2);
    if let Some(v) = FIELD_CACHE.lock().expect("lock").get_or_insert_with(Default::default).get(&key) {
        return v.clone();
    }
    let v = stored_field_uncached(kind, pw, s);
    FIELD_CACHE
        .lock()
        .expect("lock")
        .get_or_insert_with(Default::default)
        .insert(key, v.clone());
    v
}

fn stored_field_uncached(kind: &HashKind, pw: &str, s: u8) -> Option<String> {
    let st = salt(s);
    match kind {
        HashKind::Sha512(None) => crypt3(pw, &format!("$6${st}$")),
        HashKind::Sha512(Some(r)) => crypt3(pw, &format!("$6$rounds={r}${st}$")),
        HashKind::Sha256(None) => crypt3(pw, &format!("$5${st}$")),
        HashKind::Sha256(Some(r)) => crypt3(pw, &format!("$5$rounds={r}${st}$")),
        HashKind::Yescrypt => crypt3(pw, &format!("$y$j9T${}$", &"saltSALT./01"[..(4 + (s as usize % 2) * 8)])),
        HashKind::Md5 => crypt3(pw, &format!("$1${}$", &st[..st.len().min(8)])),
        HashKind::Bcrypt => crypt3(pw, "$2b$04$abcdefghijklmnopqrstuu"),
        HashKind::Des => crypt3(pw, "ab"),
        HashKind::Locked(k) => stored_field(k, pw, s).map(|h| format!("!{h}")),
        HashKind::Bang => Some("!".into()),
        HashKind::Star => Some("*".into()),
        HashKind::BangBang => Some("!!".into()),
        HashKind::Empty => Some(String::new()),
        HashKind::X => Some("x".into()),
        HashKind::Plain => Some(pw.to_string()),
        HashKind::Truncated(k) => stored_field(k, pw, s).map(|mut h| {
            h.pop();
            h
        }),
        HashKind::Short(k, n) => stored_field(k, pw, s).map(|h| match h.rfind('$') {
            Some(p) => {
                let keep = (*n as usize).min(h.len() - p - 1);
                h[..p + 1 + keep].to_string()
            }
            None => h,
        }),
    }
}

struct Rendered {
    passwd: String,
    shadow: String,
}

fn render(f: &Files) -> Option<Rendered> {
    let mut passwd = String::new();
    let mut shadow = String::new();
    if f.comments {
        passwd.push_str("# local accounts\n\n");
        shadow.push_str("# shadow\n\n   \n");
    }
    for (i, e) in f.entries.iter().enumerate() {
        let name = NAMES[e.name as usize % NAMES.len()];
        if e.in_passwd {
            passwd.push_str(&format!("{name}:x:{}:{}:User {i}:/home/{name}:/bin/sh\n", 1000 + i, 1000 + i));
        }
        if e.in_shadow {
            let field = stored_field(&e.kind, PWS[e.pw as usize % PWS.len()], e.salt)?;
            if field.contains(':') || field.contains('\n') || field.contains('"') {
                return None;
            }
            let exp = match e.exp {
                Exp::None => String::new(),
                Exp::Days(d) => d.to_string(),
            };
            shadow.push_str(&format!("{name}:{field}:19000:0:99999:7::{exp}:\n"));
        }
        if f.comments && i == 0 {
            shadow.push_str("#alice:$6$x$y:19000:0:99999:7:::\n");
        }
    }
    if f.malformed_shadow {
        shadow.push_str("daemon:*:19000:0\n");
    }
    Some(Rendered { passwd, shadow })
}

/// Independent reading of the shadow text: first line for `name` -> (hash field, expiry days).
fn shadow_lookup(text: &str, name: &str) -> Option<(String, Option<i64>, bool)> {
    for line in text.split('\n') {
        let t = line.trim();
        if t.is_empty() || t.starts_with('#') {
            continue;
        }
        let fields: Vec<&str> = line.split(':').collect();
        if fields[0] == name {
            let exp_raw = fields.get(7).copied().unwrap_or("");
            let exp = exp_raw.trim().parse::<i64>().ok();
            let exp_unparsable = !exp_raw.trim().is_empty() && exp.is_none();
            return Some((fields.get(1).copied().unwrap_or("").to_string(), exp, exp_unparsable));
        }
    }
    None
}

// ------------------------------------------------------------------------------------------ daemon

struct DaemonState {
    script: Vec<Rep>,
    next: usize,
    /// every complete reply sent in this conversation
    sent: Vec<Rep>,
    requests: Vec<String>,
}

struct FakeDaemon {
    sock: String,
    state: Arc<Mutex<DaemonState>>,
}

fn rep_json(r: &Rep, session: u64) -> Option<Value> {
    let step = |resp: Value| json!({"PamAuthenticateStepResponse": {"response": resp, "session_id": session}});
    Some(match r {
        Rep::Success => step(json!("Success")),
        Rep::Denied => step(json!("Denied")),
        Rep::Unknown => step(json!("Unknown")),
        Rep::Password => step(json!("Password")),
        Rep::DeviceGrant => step(json!({"DeviceAuthorizationGrant": {"data": {
            "device_code": "dc", "user_code": "uc", "verification_uri": "https://idm.example.com/dev",
            "verification_uri_complete": null, "expires_in": 1, "interval": null, "message": null}}})),
        Rep::MfaCode => step(json!({"MFACode": {"msg": "code"}})),
        Rep::MfaPoll => step(json!({"MFAPoll": {"msg": "approve", "polling_interval": 0}})),
        Rep::MfaPollWait => step(json!("MFAPollWait")),
        Rep::SetupPin => step(json!({"SetupPin": {"msg": "set a pin"}})),
        Rep::Pin => step(json!("Pin")),
        Rep::Error => json!({"Error": "accessdenied"}),
        Rep::Ok => json!("Ok"),
        Rep::PamStatus(b) => json!({"PamStatus": b}),
        Rep::SshKeys => json!({"SshKeys": ["ssh-ed25519 AAAA"]}),
        Rep::NssAccount => json!({"NssAccount": null}),
        Rep::ProviderStatus => json!({"ProviderStatus": []}),
        Rep::UnknownVariant => json!({"PamAuthenticateOk": {"session_id": session}}),
        Rep::AlmostSuccess => json!({"PamAuthenticateStepResponse": {"respons": "Success", "session_id": session}}),
        Rep::GarbageFrame | Rep::Partial | Rep::Close | Rep::Silence => return None,
    })
}

fn serve(mut conn: UnixStream, state: &Arc<Mutex<DaemonState>>) {
    let mut buf: Vec<u8> = Vec::new();
    loop {
        // one request frame: u32 BE length + JSON
        while buf.len() < 4 || buf.len() < 4 + u32::from_be_bytes([buf[0], buf[1], buf[2], buf[3]]) as usize {
            let mut tmp = [0u8; 4096];
            match conn.read(&mut tmp) {
                Ok(0) | Err(_) => return,
                Ok(n) => buf.extend_from_slice(&tmp[..n]),
            }
        }
        let len = u32::from_be_bytes([buf[0], buf[1], buf[2], buf[3]]) as usize;
        let req: Value = serde_json::from_slice(&buf[4..4 + len]).unwrap_or(Value::Null);
        buf.drain(..4 + len);
        let kind = match &req {
            Value::String(s) => s.clone(),
            Value::Object(m) => m.keys().next().cloned().unwrap_or_default(),
            _ => "?".into(),
        };
        let session = req
            .get("PamAuthenticateStep")
            .and_then(|v| v.get("session_id"))
            .and_then(|v| v.as_u64())
            .unwrap_or(7);
        let rep = {
            let mut st = state.lock().expect("lock");
            st.requests.push(kind);
            let r = st.script.get(st.next).cloned().unwrap_or(Rep::Denied);
            st.next += 1;
            r
        };
        let frame = |body: &[u8]| {
            let mut f = (body.len() as u32).to_be_bytes().to_vec();
            f.extend_from_slice(body);
            f
        };
        match (&rep, rep_json(&rep, session)) {
            (_, Some(v)) => {
                let f = frame(v.to_string().as_bytes());
                // recorded before the write: the peer may act on the reply before we get here again
                state.lock().expect("lock").sent.push(rep);
                if conn.write_all(&f).is_err() {
                    return;
                }
                let _ = conn.flush();
            }
            (Rep::GarbageFrame, _) => {
                let f = frame(b"{\"PamAuthenticateStepResponse\": Success");
                state.lock().expect("lock").sent.push(rep);
                let _ = conn.write_all(&f);
            }
            (Rep::Partial, _) => {
                let body = json!({"PamAuthenticateStepResponse": {"response": "Success", "session_id": session}}).to_string();
                let f = frame(body.as_bytes());
                let _ = conn.write_all(&f[..f.len() / 2]);
                return;
            }
            (Rep::Close, _) => return,
            (Rep::Silence, _) => {
                // keep the connection, never answer: wait for the peer to give up
                let mut tmp = [0u8; 64];
                loop {
                    match conn.read(&mut tmp) {
                        Ok(0) | Err(_) => return,
                        Ok(_) => {}
                    }
                }
            }
            _ => return,
        }
    }
}

impl FakeDaemon {
    fn start(sock: &str) -> FakeDaemon {
        let _ = std::fs::remove_file(sock);
        let listener = UnixListener::bind(sock).expect("bind unix socket");
        let state = Arc::new(Mutex::new(DaemonState {
            script: vec![],
            next: 0,
            sent: vec![],
            requests: vec![],
        }));
        let s2 = state.clone();
        std::thread::spawn(move || {
            for conn in listener.incoming() {
                let Ok(conn) = conn else { continue };
                let s3 = s2.clone();
                std::thread::spawn(move || serve(conn, &s3));
            }
        });
        FakeDaemon {
            sock: sock.to_string(),
            state,
        }
    }
}

// ------------------------------------------------------------------------------------------ handler

const FAIL_CODES: [PamResultCode; 4] = [
    PamResultCode::PAM_CONV_ERR,
    PamResultCode::PAM_SYSTEM_ERR,
    PamResultCode::PAM_AUTHTOK_ERR,
    PamResultCode::PAM_BUF_ERR,
];
fn fail_code(i: u8) -> PamResultCode {
    match FAIL_CODES[i as usize % FAIL_CODES.len()] {
        PamResultCode::PAM_CONV_ERR => PamResultCode::PAM_CONV_ERR,
        PamResultCode::PAM_SYSTEM_ERR => PamResultCode::PAM_SYSTEM_ERR,
        PamResultCode::PAM_AUTHTOK_ERR => PamResultCode::PAM_AUTHTOK_ERR,
        _ => PamResultCode::PAM_BUF_ERR,
    }
}

struct Scripted<'a> {
    h: &'a Handler,
    account: String,
    true_pw: Option<String>,
    stored: Option<String>,
    pw_i: RefCell<usize>,
    pin_i: RefCell<usize>,
    mfa_i: RefCell<usize>,
    msg_i: RefCell<u8>,
    supplied: RefCell<Vec<String>>,
}

impl Scripted<'_> {
    fn text(&self, s: PwSel) -> String {
        let correct = self.true_pw.clone().unwrap_or_else(|| "nopassword".into());
        match s {
            PwSel::Correct => correct,
            PwSel::Pool(i) => PWS[i as usize % PWS.len()].to_string(),
            PwSel::CorrectTruncated => {
                let mut c: Vec<char> = correct.chars().collect();
                c.pop();
                c.into_iter().collect()
            }
            PwSel::CorrectExtended => format!("{correct}x"),
            PwSel::Empty => String::new(),
            PwSel::StoredField => self.stored.clone().unwrap_or_default(),
        }
    }
    fn answer(&self, a: Option<&Ans>) -> PamResult<Option<String>> {
        match a {
            None | Some(Ans::Nothing) => Ok(None),
            Some(Ans::Fail(c)) => Err(fail_code(*c)),
            Some(Ans::Give(s)) => {
                let t = self.text(*s);
                self.supplied.borrow_mut().push(t.clone());
                Ok(Some(t))
            }
        }
    }
    fn msg(&self) -> PamResult<()> {
        let mut i = self.msg_i.borrow_mut();
        let n = *i;
        *i = i.saturating_add(1);
        match self.h.message_fail_at {
            Some(at) if n >= at => Err(PamResultCode::PAM_CONV_ERR),
            _ => Ok(()),
        }
    }
}

impl PamHandler for Scripted<'_> {
    fn account_id(&self) -> PamResult<String> {
        match self.h.account_fail {
            Some(c) => Err(fail_code(c)),
            None => Ok(self.account.clone()),
        }
    }
    fn service_info(&self) -> PamResult<PamServiceInfo> {
        match self.h.service_fail {
            Some(c) => Err(fail_code(c)),
            None => Ok(PamServiceInfo {
                service: "sshd".into(),
                tty: Some("pts/0".into()),
                rhost: None,
            }),
        }
    }
    fn envlist(&self) -> PamResult<Vec<String>> {
        Ok(vec![])
    }
    fn set_env(&self, _value: &str) -> PamResult<()> {
        Ok(())
    }
    fn authtok(&self) -> PamResult<Option<String>> {
        self.answer(Some(&self.h.authtok))
    }
    fn message(&self, _prompt: &str) -> PamResult<()> {
        self.msg()
    }
    fn message_device_grant(&self, _data: &DeviceAuthorizationResponse) -> PamResult<()> {
        self.msg()
    }
    fn prompt_for_password(&self) -> PamResult<Option<String>> {
        let mut i = self.pw_i.borrow_mut();
        let a = self.h.passwords.get(*i);
        *i += 1;
        self.answer(a)
    }
    fn prompt_for_pin(&self, _msg: Option<&str>) -> PamResult<Option<String>> {
        let mut i = self.pin_i.borrow_mut();
        let a = self.h.pins.get(*i);
        *i += 1;
        self.answer(a)
    }
    fn prompt_for_mfacode(&self) -> PamResult<Option<String>> {
        let mut i = self.mfa_i.borrow_mut();
        let a = self.h.mfa.get(*i);
        *i += 1;
        self.answer(a)
    }
}

// ------------------------------------------------------------------------------------------ check

struct St {
    dir: PathBuf,
    daemon: FakeDaemon,
    stale: String,
    notsock: String,
}

static WORKER: AtomicUsize = AtomicUsize::new(0);
static T_RENDER: AtomicUsize = AtomicUsize::new(0);
static T_FILES: AtomicUsize = AtomicUsize::new(0);
static T_CALL_CONN: AtomicUsize = AtomicUsize::new(0);
static T_CALL_FALL: AtomicUsize = AtomicUsize::new(0);
static T_ORACLE: AtomicUsize = AtomicUsize::new(0);

fn init(root: &std::path::Path) -> St {
    let k = WORKER.fetch_add(1, Ordering::SeqCst);
    let dir = root
        .join("target")
        .join("scratch")
        .join(format!("c43-{}", std::process::id()))
        .join(format!("w{k}"));
    std::fs::create_dir_all(&dir).expect("scratch dir");
    let sock = dir.join("d.sock").to_string_lossy().to_string();
    let daemon = FakeDaemon::start(&sock);
    let stale = dir.join("stale.sock").to_string_lossy().to_string();
    let _ = std::fs::remove_file(&stale);
    drop(UnixListener::bind(&stale).expect("bind stale"));
    let notsock = dir.join("file.sock").to_string_lossy().to_string();
    std::fs::write(&notsock, b"not a socket").expect("write");
    St {
        dir,
        daemon,
        stale,
        notsock,
    }
}

fn check(st: &mut St, c: &Case) -> Outcome {
    let mut log = CaseLog::new();
    let t_render = std::time::Instant::now();
    let Some(r) = render(&c.files) else {
        return Outcome::discard().class("discard:libcrypt-cannot-produce-hash");
    };
    if t_render.elapsed().as_millis() >= 100 {
        log.class("timing:render>=0.1s");
    }
    T_RENDER.fetch_add(t_render.elapsed().as_micros() as usize, Ordering::Relaxed);
    let t_files = std::time::Instant::now();
    let account = match (c.account_of_entry, c.files.entries.len()) {
        (Some(k), n) if n > 0 => NAMES[c.files.entries[k as usize % n].name as usize % NAMES.len()].to_string(),
        _ => NAMES[c.account as usize % NAMES.len()].to_string(),
    };
    // files on disk, read back by the real parsers (as the module does for the system files)
    let ppath = st.dir.join("passwd");
    let spath = st.dir.join("shadow");
    std::fs::write(&ppath, &r.passwd).expect("write passwd");
    let _ = std::fs::remove_file(&spath);
    if !c.files.shadow_unreadable {
        std::fs::write(&spath, &r.shadow).expect("write shadow");
    }
    let users = read_etc_passwd_file(&ppath).unwrap_or_default();
    let shadow = read_etc_shadow_file(&spath).unwrap_or_default();
    if !c.files.shadow_unreadable && !c.files.malformed_shadow && shadow.len() != c.files.entries.iter().filter(|e| e.in_shadow).count() {
        log.class("parser:shadow-entry-count-differs");
    }

    T_FILES.fetch_add(t_files.elapsed().as_micros() as usize, Ordering::Relaxed);
    let looked = if c.files.shadow_unreadable {
        None
    } else {
        shadow_lookup(&r.shadow, &account)
    };
    let first_entry = c
        .files
        .entries
        .iter()
        .find(|e| e.in_shadow && NAMES[e.name as usize % NAMES.len()] == account);
    let true_pw = first_entry.map(|e| PWS[e.pw as usize % PWS.len()].to_string());
    let stored = looked.as_ref().map(|l| l.0.clone());

    let now_secs: i64 = match c.now {
        Now::Abs(s) => s,
        Now::RelExpiry(d) => match looked.as_ref().and_then(|l| l.1) {
            Some(days) => days.saturating_mul(86_400).saturating_add(d),
            None => 1_700_000_000 + d,
        },
    };
    let Ok(now) = OffsetDateTime::from_unix_timestamp(now_secs.clamp(-30_000_000_000, 200_000_000_000)) else {
        return Outcome::discard();
    };
    let now_secs = now.unix_timestamp();

    let (sock_path, reachable) = match &c.daemon {
        Daemon::Reachable(script) => {
            let mut d = st.daemon.state.lock().expect("lock");
            d.script = script.clone();
            d.next = 0;
            d.sent.clear();
            d.requests.clear();
            (Some(st.daemon.sock.clone()), true)
        }
        Daemon::NoPathConfigured => (None, false),
        Daemon::NoSocket => (Some(st.dir.join("absent.sock").to_string_lossy().to_string()), false),
        Daemon::StaleSocket => (Some(st.stale.clone()), false),
        Daemon::NotASocket => (Some(st.notsock.clone()), false),
    };

    let handler = Scripted {
        h: &c.handler,
        account: account.clone(),
        true_pw,
        stored: stored.clone(),
        pw_i: RefCell::new(0),
        pin_i: RefCell::new(0),
        mfa_i: RefCell::new(0),
        msg_i: RefCell::new(0),
        supplied: RefCell::new(vec![]),
    };
    let opts = ModuleOptions {
        debug: false,
        use_first_pass: c.use_first_pass,
        ignore_unknown_user: c.ignore_unknown_user,
    };
    // a PAM module instance keeps its daemon connection per thread; every case is a new instance
    let _ = CLIENT.replace(None);
    let req = RequestOptions::Verif {
        sock_path,
        sock_timeout: 1,
        users,
        shadow,
    };
    let t_call = std::time::Instant::now();
    let result = std::panic::catch_unwind(std::panic::AssertUnwindSafe(|| {
        if c.acct_flow {
            acct_mgmt(&handler, &opts, req, now)
        } else {
            sm_authenticate(&handler, &opts, req, now)
        }
    }));
    let _ = CLIENT.replace(None);
    let call_ms = t_call.elapsed().as_millis();
    if matches!(c.daemon, Daemon::Reachable(_)) {
        T_CALL_CONN.fetch_add(t_call.elapsed().as_micros() as usize, Ordering::Relaxed);
    } else {
        T_CALL_FALL.fetch_add(t_call.elapsed().as_micros() as usize, Ordering::Relaxed);
    }
    let t_oracle = std::time::Instant::now();
    if call_ms >= 900 {
        log.class("timing:module-call>=0.9s");
    } else if call_ms >= 100 {
        log.class("timing:module-call>=0.1s");
    }
    let result = match result {
        Ok(r) => r,
        Err(p) => {
            // inside the real module a panic crosses the C boundary and aborts the login process
            let text = p
                .downcast_ref::<String>()
                .cloned()
                .or_else(|| p.downcast_ref::<&str>().map(|s| s.to_string()))
                .unwrap_or_default();
            let short: String = text.chars().take(80).collect();
            return Outcome::fail(
                format!("PAM module panicked instead of returning a result: {short}"),
                format!("account={account} stored field={stored:?} supplied={:?} daemon={:?}", handler.supplied.borrow(), c.daemon),
            );
        }
    };
    let success = result == PamResultCode::PAM_SUCCESS;
    log.class(format!("result:{result:?}"));
    log.class(if c.acct_flow { "flow:acct_mgmt" } else { "flow:authenticate" });

    // ---- expiry according to the independent reading
    // (days 0 and negative values are documented as ambiguous in shadow(5): no requirement then)
    let expired = match looked.as_ref().and_then(|l| l.1) {
        Some(days) if days > 0 => now_secs >= days.saturating_mul(86_400),
        _ => false,
    };

    if reachable {
        log.class("daemon:reachable");
        let d = st.daemon.state.lock().expect("lock");
        let last = d.sent.last().cloned();
        let early_handler_failure = c.handler.account_fail.is_some() || c.handler.service_fail.is_some();
        if success {
            let want = if c.acct_flow { Rep::PamStatus(Some(true)) } else { Rep::Success };
            if last.as_ref() != Some(&want) {
                log.fail(
                    if c.acct_flow {
                        "acct_mgmt succeeded although the daemon's last reply was not PamStatus(true)"
                    } else {
                        "authenticate succeeded although the daemon's last reply was not the explicit success"
                    },
                    format!("requests={:?} replies sent={:?} script={:?}", d.requests, d.sent, d.script),
                );
            } else {
                log.class("success:daemon-said-so");
                if d.sent.len() >= 2 {
                    log.nontrivial();
                    log.class("success:after-multi-step-conversation");
                }
            }
        } else if !early_handler_failure {
            // classes describing why it was refused
            match last {
                None => log.class("refused:no-reply-delivered"),
                Some(Rep::Success) | Some(Rep::PamStatus(Some(true))) => log.class("refused:although-daemon-approved"),
                Some(Rep::Denied) | Some(Rep::PamStatus(Some(false))) => log.class("refused:daemon-denied"),
                Some(Rep::Unknown) | Some(Rep::PamStatus(None)) => log.class("refused:unknown-user"),
                Some(Rep::Error) => log.class("refused:daemon-error"),
                Some(Rep::GarbageFrame) | Some(Rep::UnknownVariant) | Some(Rep::AlmostSuccess) => {
                    log.class("refused:undecodable-reply")
                }
                Some(Rep::Ok) | Some(Rep::SshKeys) | Some(Rep::NssAccount) | Some(Rep::ProviderStatus) => {
                    log.class("refused:wrong-reply-kind")
                }
                Some(_) => log.class("refused:conversation-aborted"),
            }
            if d.sent.len() >= 2 {
                log.nontrivial();
            }
        }
        if let Daemon::Reachable(script) = &c.daemon {
            if script.iter().any(|r| matches!(r, Rep::Close | Rep::Partial | Rep::Silence)) && d.requests.len() > d.sent.len() {
                log.class("fault:disconnect-or-silence");
            }
        }
    } else {
        log.class("daemon:unreachable");
        let supplied = handler.supplied.borrow().clone();
        // what the independent reading allows. libcrypt is consulted only when the module reports
        // success (it is the authority then); refusals are merely classified, from the shape of the
        // stored field and the generator's knowledge of the true password.
        let supported_field = looked
            .as_ref()
            .is_some_and(|(f, _, _)| f.starts_with("$5$") || f.starts_with("$6$") || f.starts_with("$y$"));
        let why = match &looked {
            None => "no-shadow-entry",
            Some((field, _, _)) => {
                if supported_field {
                    "wrong-password-or-broken-hash"
                } else if field.is_empty() {
                    "empty-field"
                } else if field.starts_with('!') || field.starts_with('*') {
                    "locked-field"
                } else {
                    "unsupported-hash"
                }
            }
        };
        let intact_supported = first_entry.is_some_and(|e| matches!(e.kind, HashKind::Sha512(_) | HashKind::Sha256(_) | HashKind::Yescrypt));
        let true_pw_supplied = first_entry.is_some_and(|e| supplied.iter().any(|p| p == PWS[e.pw as usize % PWS.len()]));
        let hash_ok = if success && !c.acct_flow {
            supported_field
                && looked
                    .as_ref()
                    .is_some_and(|(field, _, _)| supplied.iter().any(|pw| crypt_confirms(pw, field)))
        } else {
            supported_field && intact_supported && true_pw_supplied
        };
        if success {
            if c.acct_flow {
                if looked.is_none() || expired {
                    log.fail(
                        "acct_mgmt fallback succeeded for an unknown or expired account",
                        format!("account={account} looked={looked:?} now={now_secs} shadow={:?}", r.shadow),
                    );
                } else {
                    log.class("success:fallback-acct");
                    log.nontrivial();
                }
            } else if !hash_ok {
                // a stored `$y$` hash that is a strict prefix of what libcrypt computes for a supplied
                // credential: the verifier compared a prefix only (root cause named in the signature)
                let prefix_of_correct = looked.as_ref().is_some_and(|(field, _, _)| {
                    field.starts_with("$y$")
                        && supplied.iter().any(|pw| {
                            crypt3(pw, field).is_some_and(|full| full.len() > field.len() && full.starts_with(field.as_str()))
                        })
                });
                log.fail(
                    if prefix_of_correct {
                        "fallback authenticate succeeded on a truncated yescrypt hash (stored hash is a prefix of the correct one)".to_string()
                    } else {
                        format!("fallback authenticate succeeded: {why}")
                    },
                    format!("account={account} supplied={supplied:?} looked={looked:?} shadow={:?}", r.shadow),
                );
            } else if expired {
                log.fail(
                    "fallback authenticate succeeded for an expired account",
                    format!("account={account} looked={looked:?} now={now_secs}"),
                );
            } else {
                log.class("success:fallback-hash-verified");
                if let Some((f, _, _)) = &looked {
                    log.class(format!("success:fallback-{}", &f[..3.min(f.len())]));
                }
                log.nontrivial();
            }
        } else {
            let early = c.handler.account_fail.is_some();
            if !early {
                if c.acct_flow {
                    if looked.is_some() && expired {
                        log.class("refused:fallback-expired");
                        log.nontrivial();
                    }
                } else {
                    if hash_ok && !expired {
                        // converse of the property: counted, not judged
                        let in_passwd = r.passwd.lines().any(|l| l.split(':').next() == Some(account.as_str()));
                        if in_passwd && !c.files.malformed_shadow {
                            log.class("converse:correct-password-refused");
                        }
                    }
                    if hash_ok && expired {
                        log.class("refused:fallback-expired");
                        log.nontrivial();
                    }
                    if !hash_ok && !supplied.is_empty() {
                        log.class(format!("refused:fallback-{why}"));
                        log.nontrivial();
                    }
                }
            }
        }
        if let Some((_, Some(days), _)) = &looked {
            let d = now_secs - days * 86_400;
            if (-1..=1).contains(&d) {
                log.class("expiry:boundary+-1s");
            }
        }
    }
    T_ORACLE.fetch_add(t_oracle.elapsed().as_micros() as usize, Ordering::Relaxed);
    log.finish()
}

// ------------------------------------------------------------------------------------------ generators

fn arb_kind() -> impl Strategy<Value = HashKind> {
    let supported = prop_oneof![
        3 => prop_oneof![Just(None), Just(Some(1000u32)), Just(Some(5000u32)), Just(Some(4999u32))].prop_map(HashKind::Sha512),
        2 => prop_oneof![Just(None), Just(Some(1000u32)), Just(Some(7000u32))].prop_map(HashKind::Sha256),
        2 => Just(HashKind::Yescrypt),
    ];
    prop_oneof![
        16 => supported.clone(),
        1 => Just(HashKind::Md5),
        1 => Just(HashKind::Bcrypt),
        1 => Just(HashKind::Des),
        2 => supported.clone().prop_map(|k| HashKind::Locked(Box::new(k))),
        1 => Just(HashKind::Bang),
        1 => Just(HashKind::Star),
        1 => Just(HashKind::BangBang),
        1 => Just(HashKind::Empty),
        1 => Just(HashKind::X),
        1 => Just(HashKind::Plain),
        1 => supported.clone().prop_map(|k| HashKind::Truncated(Box::new(k))),
        1 => (supported, 0u8..43).prop_map(|(k, n)| HashKind::Short(Box::new(k), n)),
    ]
}

fn arb_files() -> impl Strategy<Value = Files> {
    let exp = prop_oneof![
        4 => Just(Exp::None),
        4 => prop_oneof![Just(10i64), Just(19_000), Just(19_676), Just(20_500), Just(40_000)].prop_map(Exp::Days),
        1 => prop_oneof![Just(0i64), Just(-1)].prop_map(Exp::Days),
    ];
    let entry = (
        0u8..5,
        arb_kind(),
        0u8..6,
        0u8..5,
        exp,
        proptest::bool::weighted(0.9),
        proptest::bool::weighted(0.93),
    )
        .prop_map(|(name, kind, pw, salt, exp, in_passwd, in_shadow)| Entry {
            name,
            kind,
            pw,
            salt,
            exp,
            in_passwd,
            in_shadow,
        });
    (
        proptest::collection::vec(entry, 0..5),
        any::<bool>(),
        proptest::bool::weighted(0.04),
        proptest::bool::weighted(0.04),
    )
        .prop_map(|(entries, comments, malformed_shadow, shadow_unreadable)| Files {
            entries,
            comments,
            malformed_shadow,
            shadow_unreadable,
        })
}

fn arb_ans() -> impl Strategy<Value = Ans> {
    let sel = prop_oneof![
        8 => Just(PwSel::Correct),
        3 => (0u8..6).prop_map(PwSel::Pool),
        1 => Just(PwSel::CorrectTruncated),
        1 => Just(PwSel::CorrectExtended),
        1 => Just(PwSel::Empty),
        1 => Just(PwSel::StoredField),
    ];
    prop_oneof![
        12 => sel.prop_map(Ans::Give),
        1 => Just(Ans::Nothing),
        1 => (0u8..4).prop_map(Ans::Fail),
    ]
}

fn arb_handler() -> impl Strategy<Value = Handler> {
    (
        proptest::option::weighted(0.03, 0u8..4),
        proptest::option::weighted(0.03, 0u8..4),
        arb_ans(),
        proptest::collection::vec(arb_ans(), 1..4),
        proptest::collection::vec(arb_ans(), 0..5),
        proptest::collection::vec(arb_ans(), 0..3),
        proptest::option::weighted(0.1, 0u8..3),
    )
        .prop_map(|(account_fail, service_fail, authtok, passwords, pins, mfa, message_fail_at)| Handler {
            account_fail,
            service_fail,
            authtok,
            passwords,
            pins,
            mfa,
            message_fail_at,
        })
}

fn arb_rep(acct: bool) -> impl Strategy<Value = Rep> {
    let terminal = if acct {
        prop_oneof![
            6 => Just(Rep::PamStatus(Some(true))),
            3 => Just(Rep::PamStatus(Some(false))),
            2 => Just(Rep::PamStatus(None)),
            1 => Just(Rep::Success),
        ]
        .boxed()
    } else {
        prop_oneof![
            6 => Just(Rep::Success),
            3 => Just(Rep::Denied),
            2 => Just(Rep::Unknown),
            1 => Just(Rep::PamStatus(Some(true))),
        ]
        .boxed()
    };
    prop_oneof![
        120 => terminal,
        48 => Just(Rep::Password),
        12 => Just(Rep::MfaCode),
        12 => Just(Rep::MfaPoll),
        1 => Just(Rep::MfaPollWait),
        8 => Just(Rep::SetupPin),
        12 => Just(Rep::Pin),
        6 => Just(Rep::DeviceGrant),
        12 => Just(Rep::Error),
        8 => Just(Rep::Ok),
        4 => Just(Rep::SshKeys),
        4 => Just(Rep::NssAccount),
        4 => Just(Rep::ProviderStatus),
        8 => Just(Rep::GarbageFrame),
        8 => Just(Rep::UnknownVariant),
        8 => Just(Rep::AlmostSuccess),
        1 => Just(Rep::Partial),
        1 => Just(Rep::Close),
        1 => Just(Rep::Silence),
    ]
}

fn arb_case(acct: bool) -> impl Strategy<Value = Case> {
    let daemon = prop_oneof![
        10 => proptest::collection::vec(arb_rep(acct), 0..7).prop_map(Daemon::Reachable),
        2 => Just(Daemon::NoPathConfigured),
        4 => Just(Daemon::NoSocket),
        2 => Just(Daemon::StaleSocket),
        2 => Just(Daemon::NotASocket),
    ];
    let now = prop_oneof![
        6 => prop_oneof![Just(-86_400i64), Just(-1), Just(0), Just(1), Just(86_400), Just(-86_401), Just(-1_000_000)].prop_map(Now::RelExpiry),
        3 => prop_oneof![Just(1_700_000_000i64), Just(0), Just(863_999), Just(864_000), Just(4_000_000_000)].prop_map(Now::Abs),
    ];
    (
        any::<bool>(),
        proptest::bool::weighted(0.2),
        0u8..5,
        proptest::option::weighted(0.75, 0u8..4),
        arb_handler(),
        daemon,
        arb_files(),
        now,
    )
        .prop_map(move |(use_first_pass, ignore_unknown_user, account, account_of_entry, handler, daemon, files, now)| Case {
            acct_flow: acct,
            use_first_pass,
            ignore_unknown_user,
            account,
            account_of_entry,
            handler,
            daemon,
            files,
            now,
        })
}

fn main() {
    let cx = Check::from_args("C43", "exploration");
    cx.rule(
        "flow (authenticate / acct_mgmt) x module options x scripted PamHandler (authtok, password/pin/mfa prompt answers: correct, other, truncated, extended, empty, the stored field itself, no answer, failing prompt; failing account/service lookups and messages) \
         x daemon (reachable with a script of 0-6 replies drawn from every ClientResponse kind incl. wrong kinds, Error, undecodable and half frames, disconnect, silence; or unreachable: no path, no socket, stale socket, regular file) \
         x passwd/shadow files (0-3 entries over 5 account names incl. prefixes of each other; field: $6$/$5$ (default and explicit rounds)/$y$ made by libcrypt, $1$, $2b$, DES, locked '!'+hash, '!', '*', '!!', empty, 'x', plaintext, truncated hash; expiry none/days/0/-1; missing from passwd or shadow; comments; malformed or unreadable shadow) x clock at expiry-day boundary +-1 s. \
         non-trivial = connected conversation with >=2 delivered replies, or fallback decision on an existing entry with a supplied credential / expiry; distinct by hash",
    );
    cx.assume("the system libcrypt (libxcrypt) crypt_rn is the reference for hash verification; the shadow text is read independently by splitting lines on ':' (no quoting), first line for the account wins");
    cx.assume("a failing PamHandler callback returns a non-success code; expiry day 0 and negative days are ambiguous per shadow(5) and impose no requirement");
    cx.assume("the harness passes the module the output of the real read_etc_passwd_file/read_etc_shadow_file on its scratch files via the verif-hooks RequestOptions::Verif variant, mirroring RequestOptions::Main (unwrap_or_default on unreadable files)");
    let root = cx.root.clone();
    let n_auth = cx.tier.pick(3_000, 150_000);
    let n_acct = cx.tier.pick(1_000, 40_000);
    cx.prop(
        "authenticate",
        PropCfg::new(n_auth).shrink(300),
        || arb_case(false),
        || init(&root),
        |st, c| check(st, c),
    );
    cx.prop(
        "acct_mgmt",
        PropCfg::new(n_acct).shrink(300),
        || arb_case(true),
        || init(&root),
        |st, c| check(st, c),
    );
    let _ = std::fs::remove_dir_all(root.join("target").join("scratch").join(format!("c43-{}", std::process::id())));
    cx.extra(
        "time_spent_ms",
        json!({
            "render": T_RENDER.load(Ordering::Relaxed) / 1000,
            "files": T_FILES.load(Ordering::Relaxed) / 1000,
            "module_call_connected": T_CALL_CONN.load(Ordering::Relaxed) / 1000,
            "module_call_fallback": T_CALL_FALL.load(Ordering::Relaxed) / 1000,
            "oracle": T_ORACLE.load(Ordering::Relaxed) / 1000,
        }),
    );
    cx.require_class("success:daemon-said-so", 200);
    cx.require_class("success:after-multi-step-conversation", 40);
    cx.require_class("success:fallback-hash-verified", 80);
    cx.require_class("success:fallback-$6$", 25);
    cx.require_class("success:fallback-$5$", 20);
    cx.require_class("success:fallback-$y$", 20);
    cx.require_class("success:fallback-acct", 100);
    cx.require_class("refused:fallback-expired", 25);
    cx.require_class("refused:fallback-locked-field", 40);
    cx.require_class("refused:fallback-wrong-password-or-broken-hash", 80);
    cx.require_class("refused:undecodable-reply", 50);
    cx.require_class("refused:wrong-reply-kind", 50);
    cx.finish();
}
