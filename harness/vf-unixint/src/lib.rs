//! Shared fixtures for the unix-integration properties (C44, C45): an offline world consisting of
//! an in-memory cache DB, a soft TPM with a machine key, the real `KanidmProvider` (its HTTP client
//! points at a closed port and is never used) and a scripted provider that answers `unix_user_get`
//! from a generated account record while delegating decisions to the real provider.
use async_trait::async_trait;
use kanidm_client::KanidmClientBuilder;
use kanidm_hsm_crypto::provider::{BoxedDynTpm, SoftTpm, Tpm};
use kanidm_hsm_crypto::structures::StorageKey;
use kanidm_hsm_crypto::AuthValue;
use sparkle_resolver_common::db::{Cache, Db};
use sparkle_resolver_common::idprovider::interface::{
    AuthCredHandler, AuthRequest, AuthResult, GroupTokenState, Id, IdProvider, IdpError, ProviderOrigin, UserToken,
    UserTokenState,
};
use sparkle_resolver_common::idprovider::kanidm::KanidmProvider;
use sparkle_resolver_common::idprovider::system::SystemProvider;
use sparkle_resolver_common::resolver::Resolver;
use sparkle_unix_common::constants::{
    DEFAULT_CACHE_TIMEOUT, DEFAULT_GID_ATTR_MAP, DEFAULT_HOME_ALIAS, DEFAULT_HOME_ATTR, DEFAULT_HOME_PREFIX,
    DEFAULT_SHELL, DEFAULT_UID_ATTR_MAP,
};
use std::sync::Arc;
use sparkle_unix_common::unix_config::KanidmConfig;
use sparkle_unix_common::unix_proto::PamAuthRequest;
use std::sync::Mutex;
use std::time::SystemTime;
use tokio::sync::broadcast;

pub fn runtime() -> tokio::runtime::Runtime {
    tokio::runtime::Builder::new_current_thread()
        .enable_all()
        .build()
        .expect("tokio runtime")
}

pub struct Machine {
    pub db: Db,
    pub hsm: BoxedDynTpm,
    pub machine_key: StorageKey,
}

/// A fresh machine: empty cache DB, soft TPM, new machine key.
pub async fn machine() -> Machine {
    let db = Db::new("").expect("cache db");
    {
        let mut dbtxn = db.write().await;
        dbtxn.migrate().expect("migrate");
        dbtxn.commit().expect("commit");
    }
    let mut hsm = BoxedDynTpm::new(SoftTpm::default());
    let auth_value = AuthValue::ephemeral().expect("auth value");
    let loadable = hsm.root_storage_key_create(&auth_value).expect("machine key create");
    let machine_key = hsm.root_storage_key_load(&auth_value, &loadable).expect("machine key load");
    Machine { db, hsm, machine_key }
}

/// The real Kanidm provider with the given allowed-login list. Its client is never contacted.
pub async fn provider(m: &mut Machine, allow: Vec<String>) -> KanidmProvider {
    let client = KanidmClientBuilder::new()
        .address("http://127.0.0.1:9".to_string())
        .enable_native_ca_roots(false)
        .no_proxy()
        .connect_timeout(1)
        .request_timeout(1)
        .build()
        .expect("client");
    let mut dbtxn = m.db.write().await;
    let p = KanidmProvider::new(
        client,
        &KanidmConfig {
            conn_timeout: 1,
            request_timeout: 1,
            pam_allowed_login_groups: allow,
            map_group: vec![],
            service_account_token: None,
        },
        SystemTime::now(),
        &mut (&mut dbtxn).into(),
        &mut m.hsm,
        &m.machine_key,
    )
    .await
    .expect("provider");
    dbtxn.commit().expect("commit");
    p
}

/// What the scripted directory currently says about the one user it knows.
#[derive(Clone)]
pub enum Directory {
    /// server reachable, account exists with this record
    Record(UserToken),
    /// server reachable, account does not exist
    Absent,
    /// server not reachable: the resolver must use what it has cached
    Unreachable,
}

/// `unix_user_get` is scripted; every decision (`unix_user_authorise`) is the real provider's.
pub struct Scripted {
    pub real: KanidmProvider,
    pub dir: Mutex<Directory>,
}

#[async_trait]
impl IdProvider for Scripted {
    fn origin(&self) -> ProviderOrigin {
        ProviderOrigin::Kanidm
    }
    async fn attempt_online(&self, _tpm: &mut BoxedDynTpm, _now: SystemTime) -> bool {
        true
    }
    async fn is_online(&self) -> bool {
        true
    }
    async fn mark_next_check(&self, _now: SystemTime) {}
    async fn mark_offline(&self) {}
    fn has_map_group(&self, _local: &str) -> Option<&Id> {
        None
    }
    async fn unix_user_get(
        &self,
        id: &Id,
        _token: Option<&UserToken>,
        _tpm: &mut BoxedDynTpm,
        _now: SystemTime,
    ) -> Result<UserTokenState, IdpError> {
        let d = self.dir.lock().expect("lock").clone();
        match d {
            Directory::Record(t) => {
                let hit = match id {
                    Id::Name(n) => *n == t.name || *n == t.spn,
                    Id::Gid(g) => *g == t.gidnumber,
                };
                if hit {
                    Ok(UserTokenState::Update(t))
                } else {
                    Ok(UserTokenState::NotFound)
                }
            }
            Directory::Absent => Ok(UserTokenState::NotFound),
            Directory::Unreachable => Ok(UserTokenState::UseCached),
        }
    }
    async fn unix_user_online_auth_init(
        &self,
        _account_id: &str,
        _token: &UserToken,
        _tpm: &mut BoxedDynTpm,
        _shutdown_rx: &broadcast::Receiver<()>,
    ) -> Result<(AuthRequest, AuthCredHandler), IdpError> {
        Err(IdpError::BadRequest)
    }
    async fn unix_user_online_auth_step(
        &self,
        _account_id: &str,
        _current_token: Option<&UserToken>,
        _cred_handler: &mut AuthCredHandler,
        _pam_next_req: PamAuthRequest,
        _tpm: &mut BoxedDynTpm,
        _shutdown_rx: &broadcast::Receiver<()>,
    ) -> Result<AuthResult, IdpError> {
        Err(IdpError::BadRequest)
    }
    async fn unix_unknown_user_online_auth_init(
        &self,
        _account_id: &str,
        _tpm: &mut BoxedDynTpm,
        _shutdown_rx: &broadcast::Receiver<()>,
    ) -> Result<Option<(AuthRequest, AuthCredHandler)>, IdpError> {
        Ok(None)
    }
    async fn unix_user_can_offline_auth(&self, _token: &UserToken) -> bool {
        false
    }
    async fn unix_user_offline_auth_init(&self, _token: &UserToken) -> Result<(AuthRequest, AuthCredHandler), IdpError> {
        Err(IdpError::BadRequest)
    }
    async fn unix_user_offline_auth_step(
        &self,
        _current_token: Option<&UserToken>,
        _session_token: &UserToken,
        _cred_handler: &mut AuthCredHandler,
        _pam_next_req: PamAuthRequest,
        _tpm: &mut BoxedDynTpm,
    ) -> Result<AuthResult, IdpError> {
        Err(IdpError::BadRequest)
    }
    async fn unix_user_authorise(&self, token: &UserToken) -> Result<Option<bool>, IdpError> {
        self.real.unix_user_authorise(token).await
    }
    async fn unix_group_get(&self, _id: &Id, _tpm: &mut BoxedDynTpm, _now: SystemTime) -> Result<GroupTokenState, IdpError> {
        Ok(GroupTokenState::NotFound)
    }
}

/// Per-worker world for C45: one real provider (expensive to build: it benchmarks the KDF), wrapped
/// by the scripted directory, under one real resolver. Reconfigured per case through hooks.
pub struct World {
    pub rt: tokio::runtime::Runtime,
    pub resolver: Resolver,
    pub scripted: Arc<Scripted>,
    _rx: tokio::sync::mpsc::Receiver<Id>,
}

pub fn world() -> World {
    let rt = runtime();
    let (resolver, scripted, rx) = rt.block_on(async {
        let mut m = machine().await;
        let real = provider(&mut m, vec![]).await;
        let scripted = Arc::new(Scripted {
            real,
            dir: Mutex::new(Directory::Absent),
        });
        let Machine { db, hsm, .. } = m;
        let system = Arc::new(SystemProvider::new().expect("system provider"));
        let (resolver, rx) = Resolver::new(
            db,
            system,
            vec![scripted.clone()],
            hsm,
            DEFAULT_CACHE_TIMEOUT,
            DEFAULT_SHELL.to_string(),
            DEFAULT_HOME_PREFIX.into(),
            DEFAULT_HOME_ATTR,
            DEFAULT_HOME_ALIAS,
            DEFAULT_UID_ATTR_MAP,
            DEFAULT_GID_ATTR_MAP,
        )
        .await
        .expect("resolver");
        (resolver, scripted, rx)
    });
    World {
        rt,
        resolver,
        scripted,
        _rx: rx,
    }
}
