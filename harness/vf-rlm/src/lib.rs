//! The real rlm_kanidm decision logic, compiled from the repository working tree.
#![allow(dead_code, unused_imports, private_interfaces, unexpected_cfgs, clippy::all)]

#[path = "../../../../repo/rlm_kanidm/module/src/error.rs"]
pub mod error;
#[path = "../../../../repo/rlm_kanidm/module/src/logic.rs"]
pub mod logic;

pub use logic::{AuthRequest, AuthResponse, Module};
pub use rlm_kanidm_shared::config::{KanidmRadiusConfig, RadiusGroupConfig};

/// `AuthError` is crate-private in the module; this is its public image.
#[derive(Debug, Clone, PartialEq, Eq)]
pub enum Refusal {
    Reject,
    Fail,
    NotFound,
    Other(String),
}

pub async fn authorise(m: &Module, req: AuthRequest<'_>) -> Result<AuthResponse, Refusal> {
    m.authorise(req).await.map_err(|e| match e {
        logic::AuthError::Reject => Refusal::Reject,
        logic::AuthError::Fail => Refusal::Fail,
        logic::AuthError::NotFound => Refusal::NotFound,
        other => Refusal::Other(format!("{other:?}")),
    })
}
