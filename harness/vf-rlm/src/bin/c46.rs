//! C46 — RADIUS secrets go only to members of required groups.
//!
//! The real `Module::authorise` (rlm_kanidm logic.rs from the working tree) runs against a scripted
//! loopback HTTP server playing the identity server: generated module configurations (required
//! groups by uuid / spn / near-miss, group->VLAN maps, default VLAN) x generated directory content
//! (per user id: a token with an ordered group list, 404, 5xx, 403, malformed or truncated JSON,
//! dropped connection) x requests naming users through SAN / CN / User-Name.
//!
//! Oracle: a response that carries a cleartext secret implies that the server served a well-formed
//! token for the id that was asked, the secret is that token's secret, and one of that token's
//! groups is in the required list by exact uuid or exact spn. VLAN of a successful response == VLAN
//! of the last group (in token order) that has a mapping, else the default VLAN (exact).
use proptest::prelude::*;
use serde::{Deserialize, Serialize};
use serde_json::json;
use std::collections::BTreeMap;
use std::marker::PhantomData;
use vf_core::{CaseLog, Check, Outcome, PropCfg};
use vf_httpstub::{Reply, Request, Stub};
use vf_rlm::{authorise, AuthRequest, KanidmRadiusConfig, Module, RadiusGroupConfig, Refusal};

const NG: u8 = 6;
fn gspn(i: u8) -> String {
    format!("netgrp{}@example.com", i % NG)
}
fn guuid(i: u8) -> String {
    format!("00000000-0000-4000-8000-0000000000{:02x}", 0x10 + (i % NG))
}
fn uid(i: u8) -> String {
    format!("user{}", i % 3)
}

#[derive(Debug, Clone, Copy, Serialize, Deserialize, PartialEq)]
enum Req {
    Uuid(u8),
    Spn(u8),
    /// spn without the domain part: not an SPN, must not match
    ShortName(u8),
    /// spn in upper case
    SpnUpper(u8),
    Junk(u8),
}
impl Req {
    fn text(&self) -> String {
        match self {
            Req::Uuid(i) => guuid(*i),
            Req::Spn(i) => gspn(*i),
            Req::ShortName(i) => format!("netgrp{}", i % NG),
            Req::SpnUpper(i) => gspn(*i).to_uppercase(),
            Req::Junk(k) => format!("unrelated{k}@example.com"),
        }
    }
}

#[derive(Debug, Clone, Serialize, Deserialize, PartialEq)]
enum Dir {
    Token { groups: Vec<u8>, secret: u8 },
    NotFound,
    Status(u16),
    Garbage,
    MissingField,
    Truncated,
    Close,
}

#[derive(Debug, Clone, Serialize, Deserialize, PartialEq)]
struct Case {
    required: Vec<Req>,
    default_vlan: u32,
    /// (group, vlan, reply attribute value); group indices unique
    maps: Vec<(u8, u32, u8)>,
    /// directory content for user0..user2
    users: Vec<Dir>,
    san: Option<u8>,
    cn: Option<u8>,
    user_name: Option<u8>,
}

fn token_json(u: u8, groups: &[u8], secret: u8) -> serde_json::Value {
    json!({
        "name": uid(u),
        "displayname": format!("User {u}"),
        "uuid": format!("00000000-0000-4000-8000-00000000aa{:02x}", u),
        "secret": format!("radius-secret-{u}-{secret}"),
        "groups": groups.iter().map(|g| json!({"spn": gspn(*g), "uuid": guuid(*g)})).collect::<Vec<_>>(),
    })
}

fn serve(users: &[Dir], req: &Request) -> Reply {
    // /v1/account/{id}/_radius/_token
    let parts: Vec<&str> = req.path.split('/').collect();
    if req.method != "GET" || parts.len() != 6 || parts[1] != "v1" || parts[2] != "account" || parts[4] != "_radius" || parts[5] != "_token"
    {
        return Reply::Http(404, b"null".to_vec());
    }
    let Some(u) = (0..3u8).find(|u| uid(*u) == parts[3]) else {
        return Reply::Http(404, b"\"nomatchingentries\"".to_vec());
    };
    match users.get(u as usize) {
        None | Some(Dir::NotFound) => Reply::Http(404, b"\"nomatchingentries\"".to_vec()),
        Some(Dir::Token { groups, secret }) => Reply::Http(200, token_json(u, groups, *secret).to_string().into_bytes()),
        Some(Dir::Status(s)) => Reply::Http(*s, b"\"accessdenied\"".to_vec()),
        Some(Dir::Garbage) => Reply::Http(200, b"{\"name\": \"user0\", \"secret\": ".to_vec()),
        Some(Dir::MissingField) => {
            let mut t = token_json(u, &[0, 1, 2, 3, 4, 5], 9);
            t.as_object_mut().expect("obj").remove("groups");
            Reply::Http(200, t.to_string().into_bytes())
        }
        Some(Dir::Truncated) => {
            let b = token_json(u, &[0, 1, 2, 3, 4, 5], 9).to_string().into_bytes();
            let n = b.len();
            Reply::Truncated(200, b[..n / 2].to_vec(), n)
        }
        Some(Dir::Close) => Reply::Close,
    }
}

struct St {
    rt: tokio::runtime::Runtime,
    stub: Stub,
}

fn init() -> St {
    St {
        rt: tokio::runtime::Builder::new_current_thread()
            .enable_all()
            .build()
            .expect("rt"),
        stub: Stub::start("1.12.0-dev"),
    }
}

fn check(st: &mut St, c: &Case) -> Outcome {
    let mut log = CaseLog::new();
    let users = c.users.clone();
    st.stub.set_handler(move |r| serve(&users, r));
    st.stub.take_log();
    let required: Vec<String> = c.required.iter().map(|r| r.text()).collect();
    let mut seen = Vec::new();
    let maps: Vec<(u8, u32, u8)> = c
        .maps
        .iter()
        .filter(|(g, _, _)| {
            let g = g % NG;
            if seen.contains(&g) {
                false
            } else {
                seen.push(g);
                true
            }
        })
        .cloned()
        .collect();
    let cfg = KanidmRadiusConfig {
        uri: st.stub.url(),
        auth_token: "harness-token".to_string(),
        radius_required_groups: required.clone(),
        radius_default_vlan: c.default_vlan,
        radius_groups: maps
            .iter()
            .map(|(g, vlan, a)| RadiusGroupConfig {
                spn: gspn(*g),
                vlan: *vlan,
                reply_attributes: BTreeMap::from_iter([("Filter-Id".to_string(), format!("f{a}"))]),
            })
            .collect(),
        ..KanidmRadiusConfig::default()
    };
    let request_ids = (c.san.map(uid), c.cn.map(uid), c.user_name.map(uid));
    let result = st.rt.block_on(async {
        let module = match Module::from_config(cfg).await {
            Ok(m) => m,
            Err(e) => return Err(Refusal::Other(format!("from_config: {e}"))),
        };
        let req = AuthRequest {
            tls_san_dn_cn: request_ids.0.clone(),
            tls_cn: request_ids.1.clone(),
            user_name: request_ids.2.clone(),
            attrs: Default::default(),
            phantom: PhantomData,
        };
        authorise(&module, req).await
    });
    let served = st.stub.take_log();
    // Which well-formed token did the server hand out (if any)?
    let served_tokens: Vec<(u8, &Vec<u8>, u8)> = served
        .iter()
        .filter_map(|r| {
            let parts: Vec<&str> = r.path.split('/').collect();
            if r.method == "GET" && parts.len() == 6 && parts[4] == "_radius" {
                (0..3u8).find(|u| uid(*u) == parts[3]).and_then(|u| match c.users.get(u as usize) {
                    Some(Dir::Token { groups, secret }) => Some((u, groups, *secret)),
                    _ => None,
                })
            } else {
                None
            }
        })
        .collect();
    let asked: Vec<u8> = [c.san, c.cn, c.user_name].iter().flatten().map(|u| u % 3).collect();

    let member = |groups: &Vec<u8>| -> (bool, bool) {
        let by_uuid = groups.iter().any(|g| required.contains(&guuid(*g)));
        let by_spn = groups.iter().any(|g| required.contains(&gspn(*g)));
        (by_uuid, by_spn)
    };

    match &result {
        Ok(resp) => {
            log.class("result:released");
            match &resp.control.cleartext_password {
                None => log.class("released-without-secret"),
                Some(secret) => {
                    // the secret must be the secret of a token the server actually served for an id in the request
                    let src = served_tokens
                        .iter()
                        .find(|(u, _, s)| *secret == format!("radius-secret-{u}-{s}") && asked.contains(u));
                    match src {
                        None => log.fail(
                            "secret released that the directory did not serve for the requested user",
                            format!("secret={secret} served={served:?} case={c:?}"),
                        ),
                        Some((u, groups, _)) => {
                            let (by_uuid, by_spn) = member(groups);
                            if !(by_uuid || by_spn) {
                                log.fail(
                                    "secret released to a user outside every required group",
                                    format!("user={} groups={:?} required={required:?}", uid(*u), groups.iter().map(|g| gspn(*g)).collect::<Vec<_>>()),
                                );
                            } else {
                                if by_uuid && !by_spn {
                                    log.class("member:by-uuid-only");
                                }
                                if by_spn && !by_uuid {
                                    log.class("member:by-spn-only");
                                }
                                // VLAN: last group of the token with a mapping, else default
                                let mut want = c.default_vlan;
                                let mut mapped = Vec::new();
                                for g in groups.iter() {
                                    if let Some((_, vlan, _)) = maps.iter().find(|(mg, _, _)| mg % NG == g % NG) {
                                        want = *vlan;
                                        mapped.push(*vlan);
                                    }
                                }
                                if resp.reply.tunnel_private_group_id != want.to_string() {
                                    log.fail(
                                        "VLAN is not that of the last mapped group (or the default)",
                                        format!(
                                            "got={} want={want} token groups={groups:?} maps={maps:?} default={}",
                                            resp.reply.tunnel_private_group_id, c.default_vlan
                                        ),
                                    );
                                }
                                mapped.dedup();
                                match mapped.len() {
                                    0 => log.class("vlan:default"),
                                    1 => log.class("vlan:one-mapped-group"),
                                    _ => {
                                        log.class("vlan:several-mapped-groups");
                                        if mapped.first() != mapped.last() {
                                            log.class("vlan:first!=last");
                                        }
                                    }
                                }
                                if groups.len() >= 2 {
                                    log.nontrivial();
                                }
                            }
                        }
                    }
                }
            }
        }
        Err(r) => {
            log.class(format!("result:{}", match r {
                Refusal::Reject => "Reject",
                Refusal::Fail => "Fail",
                Refusal::NotFound => "NotFound",
                Refusal::Other(_) => "Other",
            }));
            if let Refusal::Other(m) = r {
                if m.starts_with("from_config") {
                    log.class("harness:from_config-failed");
                }
            }
            // classes: why it was refused, according to the model
            if asked.is_empty() {
                log.class("refused:no-user-id");
            } else if let Some((_, groups, _)) = served_tokens.first() {
                let (a, b) = member(groups);
                if !(a || b) {
                    log.class("refused:not-a-member");
                    if !groups.is_empty() && !required.is_empty() {
                        log.nontrivial();
                        // near misses present?
                        if c.required.iter().any(|r| match r {
                            Req::ShortName(i) | Req::SpnUpper(i) => groups.iter().any(|g| g % NG == i % NG),
                            _ => false,
                        }) {
                            log.class("refused:near-miss-entry-only");
                        }
                    }
                } else {
                    log.class("refused:although-member");
                }
            } else {
                log.class("refused:directory-error");
            }
        }
    }
    for u in &c.users {
        log.class(format!(
            "dir:{}",
            match u {
                Dir::Token { .. } => "token",
                Dir::NotFound => "404",
                Dir::Status(_) => "error-status",
                Dir::Garbage => "garbage-json",
                Dir::MissingField => "missing-field",
                Dir::Truncated => "truncated-body",
                Dir::Close => "connection-dropped",
            }
        ));
    }
    if [c.san, c.cn, c.user_name].iter().flatten().count() >= 2 {
        log.class("request:several-identities");
    }
    log.finish()
}

fn arb_case() -> impl Strategy<Value = Case> {
    let req = prop_oneof![
        5 => (0..NG).prop_map(Req::Uuid),
        5 => (0..NG).prop_map(Req::Spn),
        1 => (0..NG).prop_map(Req::ShortName),
        1 => (0..NG).prop_map(Req::SpnUpper),
        2 => (0u8..3).prop_map(Req::Junk),
    ];
    let dir = prop_oneof![
        16 => (proptest::collection::vec(0..NG, 0..7), 0u8..3).prop_map(|(groups, secret)| Dir::Token { groups, secret }),
        1 => Just(Dir::NotFound),
        1 => prop_oneof![Just(500u16), Just(503), Just(403), Just(401), Just(400), Just(201)].prop_map(Dir::Status),
        1 => Just(Dir::Garbage),
        1 => Just(Dir::MissingField),
        1 => Just(Dir::Truncated),
        1 => Just(Dir::Close),
    ];
    (
        prop_oneof![1 => Just(Vec::new()), 9 => proptest::collection::vec(req, 1..5)],
        prop_oneof![Just(1u32), Just(0u32), 2u32..4095],
        proptest::collection::vec((0..NG, 1u32..4095, 0u8..3), 0..7),
        proptest::collection::vec(dir, 3),
        proptest::option::weighted(0.3, 0u8..3),
        proptest::option::weighted(0.3, 0u8..3),
        proptest::option::weighted(0.9, 0u8..3),
    )
        .prop_map(|(required, default_vlan, maps, users, san, cn, user_name)| Case {
            required,
            default_vlan,
            maps,
            users,
            san,
            cn,
            user_name,
        })
}

fn main() {
    // kanidm_client (debug assertions on) exits the process on a version mismatch unless this is set;
    // the stub also sends a matching version header.
    std::env::set_var("KANIDM_DEV_YOLO", "1");
    let cx = Check::from_args("C46", "exploration");
    cx.rule(
        "module config: 0-3 required-group entries (exact uuid / exact spn / near-miss short name / upper-case spn / junk) over 6 groups, default VLAN, 0-4 group->VLAN maps; \
         directory (scripted loopback HTTP server): for each of 3 user ids a token with 0-5 ordered groups or 404/5xx/4xx/2xx-non-200/garbage/missing field/truncated body/dropped connection; \
         request names users via SAN/CN/User-Name (any subset). Real Module::from_config + Module::authorise over real kanidm_client. \
         non-trivial = token with >=2 groups released, or refusal of a non-member with groups against a non-empty required list; distinct by hash",
    );
    cx.assume("secret release is judged one-directionally (released => member by exact uuid or exact spn of the token the server served for a requested id); VLAN is judged exactly; refusals of members are only counted (class refused:although-member)");
    cx.assume("duplicate spn entries in radius_groups are not generated (the property does not say which wins)");
    let n = cx.tier.pick(8_000, 150_000);
    cx.prop("authorise", PropCfg::new(n).shrink(300), arb_case, init, |st, c| check(st, c));
    if cx.class_count("harness:from_config-failed") > 0 {
        cx.inconclusive("Module::from_config failed in the harness");
    }
    cx.require_class("result:released", 800);
    cx.require_class("member:by-uuid-only", 150);
    cx.require_class("member:by-spn-only", 150);
    cx.require_class("refused:not-a-member", 500);
    cx.require_class("vlan:first!=last", 150);
    cx.require_class("vlan:default", 100);
    if cx.class_count("refused:although-member") > 0 {
        cx.inconclusive("members of a required group were refused (converse of the property; not judged as a violation)");
    }
    cx.finish();
}
