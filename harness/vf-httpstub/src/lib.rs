//! A tiny scripted HTTP/1.1 server bound to 127.0.0.1:0. Blocking std::net, one thread per
//! connection, keep-alive. Replies come from a handler closure that the check swaps per case.
use std::io::{Read, Write};
use std::net::{SocketAddr, TcpListener, TcpStream};
use std::sync::{Arc, Mutex};

#[derive(Debug, Clone)]
pub struct Request {
    pub method: String,
    pub path: String,
    pub body: Vec<u8>,
}

#[derive(Debug, Clone)]
pub enum Reply {
    /// status, body (sent as application/json)
    Http(u16, Vec<u8>),
    /// declare `declared` content-length bytes but send only `body`, then close
    Truncated(u16, Vec<u8>, usize),
    /// close the connection without answering
    Close,
    /// send bytes that are not HTTP
    Raw(Vec<u8>),
}

type Handler = Box<dyn FnMut(&Request) -> Reply + Send>;

#[derive(Clone)]
pub struct Stub {
    pub addr: SocketAddr,
    handler: Arc<Mutex<Handler>>,
    log: Arc<Mutex<Vec<Request>>>,
    version: Arc<String>,
}

impl Stub {
    /// `version` is sent as X-KANIDM-VERSION on every HTTP reply.
    pub fn start(version: &str) -> Stub {
        let listener = TcpListener::bind("127.0.0.1:0").expect("bind loopback");
        let addr = listener.local_addr().expect("addr");
        let stub = Stub {
            addr,
            handler: Arc::new(Mutex::new(Box::new(|_r: &Request| Reply::Http(404, b"null".to_vec())))),
            log: Arc::new(Mutex::new(Vec::new())),
            version: Arc::new(version.to_string()),
        };
        let s2 = stub.clone();
        std::thread::spawn(move || {
            for conn in listener.incoming() {
                let Ok(conn) = conn else { continue };
                let s3 = s2.clone();
                std::thread::spawn(move || s3.serve(conn));
            }
        });
        stub
    }

    pub fn url(&self) -> String {
        format!("http://127.0.0.1:{}", self.addr.port())
    }

    pub fn set_handler(&self, h: impl FnMut(&Request) -> Reply + Send + 'static) {
        *self.handler.lock().expect("lock") = Box::new(h);
    }

    pub fn take_log(&self) -> Vec<Request> {
        std::mem::take(&mut *self.log.lock().expect("lock"))
    }

    fn serve(&self, mut conn: TcpStream) {
        let _ = conn.set_nodelay(true);
        let mut buf: Vec<u8> = Vec::new();
        loop {
            // read head
            let head_end = loop {
                if let Some(p) = find(&buf, b"\r\n\r\n") {
                    break p + 4;
                }
                let mut tmp = [0u8; 4096];
                match conn.read(&mut tmp) {
                    Ok(0) | Err(_) => return,
                    Ok(n) => buf.extend_from_slice(&tmp[..n]),
                }
            };
            let head = String::from_utf8_lossy(&buf[..head_end]).to_string();
            let mut lines = head.split("\r\n");
            let reqline = lines.next().unwrap_or("");
            let mut parts = reqline.split(' ');
            let method = parts.next().unwrap_or("").to_string();
            let path = parts.next().unwrap_or("").to_string();
            let mut clen = 0usize;
            for l in lines {
                if let Some((k, v)) = l.split_once(':') {
                    if k.eq_ignore_ascii_case("content-length") {
                        clen = v.trim().parse().unwrap_or(0);
                    }
                }
            }
            while buf.len() < head_end + clen {
                let mut tmp = [0u8; 4096];
                match conn.read(&mut tmp) {
                    Ok(0) | Err(_) => return,
                    Ok(n) => buf.extend_from_slice(&tmp[..n]),
                }
            }
            let body = buf[head_end..head_end + clen].to_vec();
            buf.drain(..head_end + clen);
            let req = Request { method, path, body };
            let reply = (self.handler.lock().expect("lock"))(&req);
            self.log.lock().expect("lock").push(req);
            match reply {
                Reply::Http(status, body) => {
                    let head = format!(
                        "HTTP/1.1 {status} X\r\nContent-Type: application/json\r\nX-KANIDM-VERSION: {}\r\nX-KANIDM-OPID: 00000000-0000-0000-0000-000000000000\r\nContent-Length: {}\r\n\r\n",
                        self.version,
                        body.len()
                    );
                    if conn.write_all(head.as_bytes()).is_err() || conn.write_all(&body).is_err() {
                        return;
                    }
                    let _ = conn.flush();
                }
                Reply::Truncated(status, body, declared) => {
                    let head = format!(
                        "HTTP/1.1 {status} X\r\nContent-Type: application/json\r\nX-KANIDM-VERSION: {}\r\nContent-Length: {}\r\n\r\n",
                        self.version, declared
                    );
                    let _ = conn.write_all(head.as_bytes());
                    let _ = conn.write_all(&body);
                    let _ = conn.flush();
                    return;
                }
                Reply::Close => return,
                Reply::Raw(bytes) => {
                    let _ = conn.write_all(&bytes);
                    let _ = conn.flush();
                    return;
                }
            }
        }
    }
}

fn find(hay: &[u8], needle: &[u8]) -> Option<usize> {
    hay.windows(needle.len()).position(|w| w == needle)
}
