//! Helpers of group 'replx' (see GUIDE.md).
