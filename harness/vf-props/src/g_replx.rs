//! Helpers of the replication group (C11, C08, C09, C19).
use crate::dump::{self, Dump, Status};
use crate::ops::{self, Op, Ref, Step};
use crate::repl::{Cluster, ReplResult, StepResult};
use kanidmd_lib::prelude::*;
use proptest::prelude::*;
use serde::{Deserialize, Serialize};
use std::collections::{BTreeMap, BTreeSet};
use vf_core::{CaseLog, Outcome};

/// A problem of the harness itself (never a property violation): the case is discarded and labelled;
/// `main` turns any such label into an inconclusive run (exit 2).
pub const HARNESS_ERROR: &str = "harness-error";
pub fn harness_error(what: &str, detail: String) -> Outcome {
    eprintln!("harness error: {what}: {detail}");
    Outcome::discard().class(HARNESS_ERROR).class(format!("{HARNESS_ERROR}:{what}"))
}
/// Call before `finish()`.
pub fn fail_on_harness_errors(cx: &vf_core::Check) {
    let n = cx.class_count(HARNESS_ERROR);
    if n > 0 {
        cx.inconclusive(&format!("{n} cases hit a harness error (see the harness-error:* classes)"));
    }
}

// =============================================================================================
// C11 end-to-end: concurrent session writes on real replicas

pub mod sess {
    use super::*;
    use crate::srv::ct;
    use kanidm_lib_crypto::CryptoPolicy;
    use kanidmd_lib::credential::Credential;
    use kanidmd_lib::modify::{Modify, ModifyList};
    use kanidmd_lib::value::{AuthType, Oauth2Session, PartialValue, Session, SessionScope, SessionState, Value};
    use std::sync::OnceLock;
    use time::OffsetDateTime;

    #[derive(Debug, Clone, PartialEq, Eq, Hash, Serialize, Deserialize)]
    pub enum SStep {
        /// issue login session k (0..4) on replica r; exp: 0 never, 1 far, 2 farther, 3 soon (+40 s)
        Add { r: u8, k: u8, exp: u8 },
        Revoke { r: u8, k: u8 },
        /// issue / extend OAuth2 session k (parent = login session `parent`)
        AddO2 { r: u8, k: u8, parent: u8, exp: u8 },
        RevokeO2 { r: u8, k: u8 },
        /// unrelated write to the same entry
        Touch { r: u8, v: u8 },
        /// clock skew: advance only this replica's clock
        Advance { r: u8, secs: u16 },
        Repl { from: u8, to: u8 },
    }

    #[derive(Debug, Clone, PartialEq, Eq, Hash, Serialize, Deserialize)]
    pub struct Case {
        pub replicas: u8,
        pub steps: Vec<SStep>,
    }

    pub fn arb_case() -> BoxedStrategy<Case> {
        (2u8..=3)
            .prop_flat_map(|n| {
                let r = 0..n;
                let step = prop_oneof![
                    6 => (r.clone(), 0u8..4, 0u8..4).prop_map(|(r, k, exp)| SStep::Add { r, k, exp }),
                    5 => (r.clone(), 0u8..4).prop_map(|(r, k)| SStep::Revoke { r, k }),
                    3 => (r.clone(), 0u8..3, 0u8..4, 1u8..3).prop_map(|(r, k, parent, exp)| SStep::AddO2 { r, k, parent, exp }),
                    2 => (r.clone(), 0u8..3).prop_map(|(r, k)| SStep::RevokeO2 { r, k }),
                    2 => (r.clone(), 0u8..4).prop_map(|(r, v)| SStep::Touch { r, v }),
                    3 => (r.clone(), prop_oneof![Just(1u16), Just(7), Just(45), Just(300)]).prop_map(|(r, secs)| SStep::Advance { r, secs }),
                    7 => (r.clone(), r.clone()).prop_map(|(from, to)| SStep::Repl { from, to }),
                ];
                (Just(n), proptest::collection::vec(step, 4..28))
            })
            .prop_map(|(replicas, steps)| Case { replicas, steps })
            .boxed()
    }

    pub fn user_uuid() -> Uuid {
        Ref::P(0).uuid()
    }
    pub fn sid(k: u8) -> Uuid {
        Uuid::from_u128(0xc011_5e55_0000_4000_8000_0000_0000_0000u128 + k as u128)
    }
    pub fn oid(k: u8) -> Uuid {
        Uuid::from_u128(0xc011_0a02_0000_4000_8000_0000_0000_0000u128 + k as u128)
    }

    fn cred() -> Credential {
        static C: OnceLock<Credential> = OnceLock::new();
        C.get_or_init(|| Credential::new_password_only(&CryptoPolicy::danger_test_minimum(), "c11 harness password", OffsetDateTime::UNIX_EPOCH + ct(0)).expect("cred"))
            .clone()
    }

    fn odt(off: u64) -> OffsetDateTime {
        OffsetDateTime::UNIX_EPOCH + ct(off)
    }

    fn state_for(exp: u8, now: u64) -> SessionState {
        match exp {
            0 => SessionState::NeverExpires,
            1 => SessionState::ExpiresAt(odt(500_000)),
            2 => SessionState::ExpiresAt(odt(600_000)),
            _ => SessionState::ExpiresAt(odt(now + 40)),
        }
    }

    /// rank for the independent join: revoked (earliest first) > expires (latest first) > never
    fn join(a: &SessionState, b: &SessionState) -> SessionState {
        use SessionState::*;
        match (a, b) {
            (RevokedAt(x), RevokedAt(y)) => RevokedAt(if x <= y { x.clone() } else { y.clone() }),
            (RevokedAt(x), _) | (_, RevokedAt(x)) => RevokedAt(x.clone()),
            (ExpiresAt(x), ExpiresAt(y)) => ExpiresAt(if x >= y { *x } else { *y }),
            (ExpiresAt(x), _) | (_, ExpiresAt(x)) => ExpiresAt(*x),
            (NeverExpires, NeverExpires) => NeverExpires,
        }
    }

    type Maps = (BTreeMap<Uuid, SessionState>, BTreeMap<Uuid, SessionState>);

    async fn read_maps(cl: &Cluster, i: usize) -> Maps {
        let mut r = cl.nodes[i].qs.read().await.expect("read");
        let e = r.internal_search_all_uuid(user_uuid()).expect("user entry");
        let a = e
            .get_ava_as_session_map(Attribute::UserAuthTokenSession)
            .map(|m| m.iter().map(|(k, v)| (*k, v.state.clone())).collect())
            .unwrap_or_default();
        let b = e
            .get_ava_as_oauth2session_map(Attribute::OAuth2Session)
            .map(|m| m.iter().map(|(k, v)| (*k, v.state.clone())).collect())
            .unwrap_or_default();
        (a, b)
    }

    /// Known finding (see known_findings.d/C11.json).
    /// Change ids (rendered) of the two session attributes of the user entry on replica i.
    async fn attr_cids(cl: &Cluster, i: usize) -> [Option<String>; 2] {
        use kanidmd_lib::verif_hooks::export::State;
        let mut r = cl.nodes[i].qs.read().await.expect("read");
        let e = r.internal_search_all_uuid(user_uuid()).expect("user entry");
        match e.get_changestate().current() {
            State::Live { changes, .. } => [
                changes.get(&Attribute::UserAuthTokenSession).map(|c| format!("{c:?}")),
                changes.get(&Attribute::OAuth2Session).map(|c| format!("{c:?}")),
            ],
            State::Tombstone { .. } => [None, None],
        }
    }

    async fn attr_cid_objs(cl: &Cluster, i: usize) -> [Option<Cid>; 2] {
        use kanidmd_lib::verif_hooks::export::State;
        let mut r = cl.nodes[i].qs.read().await.expect("read");
        let e = r.internal_search_all_uuid(user_uuid()).expect("user entry");
        match e.get_changestate().current() {
            State::Live { changes, .. } => [
                changes.get(&Attribute::UserAuthTokenSession).cloned(),
                changes.get(&Attribute::OAuth2Session).cloned(),
            ],
            State::Tombstone { .. } => [None, None],
        }
    }

    pub const SIG_E2E_STEP: &str = "consumer session state after a replication step is not the join of its own and the supplied state";
    pub const SIG_STRANDED: &str = "merged session value stored under the newer input's change id is never supplied onward (same change id, different content on two replicas)";
    pub const SIG_E2E_DIVERGE: &str = "replicas hold different session states after a full mesh";
    pub const SIG_E2E_LOST: &str = "a session revoked on one replica is not revoked on every replica after a full mesh";
    pub const SIG_E2E_JOIN: &str = "session state after a full mesh is not the join of the states written";

    pub fn run(rt: &tokio::runtime::Runtime, c: &Case) -> Outcome {
        rt.block_on(run_async(c))
    }

    async fn run_async(c: &Case) -> Outcome {
        let n = c.replicas.clamp(2, 3) as usize;
        let mut cl = Cluster::new(n).await;
        let mut log = CaseLog::new();
        // setup on replica 0: group, oauth2 client, the user with a password credential
        {
            let mut w = cl.nodes[0].qs.write(cl.nodes[0].now()).await.expect("write");
            ops::apply_in_txn(&mut w, &Op::CreateGroup { i: 0, name: 1, members: vec![] }).expect("group");
            ops::apply_in_txn(&mut w, &Op::CreateOAuth2 { i: 0, name: 2, group: Ref::G(0) }).expect("oauth2");
            let mut e = crate::pop::person(user_uuid(), "sessuser");
            e.add_ava(Attribute::PrimaryCredential, Value::Cred("primary".to_string(), cred()));
            for k in 0..2u8 {
                e.add_ava(
                    Attribute::UserAuthTokenSession,
                    Value::Session(
                        sid(k),
                        Session {
                            label: format!("s{k}"),
                            state: SessionState::NeverExpires,
                            issued_at: odt(k as u64),
                            issued_by: IdentityId::User(user_uuid()),
                            cred_id: kanidmd_lib::verif_hooks::replx::credential_uuid(&cred()),
                            scope: SessionScope::ReadWrite,
                            type_: AuthType::Password,
                            ext_metadata: Default::default(),
                        },
                    ),
                );
            }
            w.internal_create(vec![e]).expect("user");
            w.commit().expect("commit");
            cl.nodes[0].clock += 1;
        }
        for i in 1..n {
            match cl.replicate(0, i).await {
                ReplResult::Applied => {}
                other => return harness_error("initial replication failed", format!("{other:?}")),
            }
        }
        let cred_id = kanidmd_lib::verif_hooks::replx::credential_uuid(&cred());
        // everything ever observed per session id, joined independently
        let mut seen: Maps = read_maps(&cl, 0).await;
        // which replica revoked k since the last time every replica was in sync (for class labels)
        let mut revoked_by: BTreeMap<Uuid, BTreeSet<usize>> = BTreeMap::new();
        // causal bookkeeping for class labels only: writes[i] = (replica, revoked something);
        // known[r] = indices of the writes replica r has received
        let mut writes: Vec<(usize, bool)> = Vec::new();
        let mut known: Vec<BTreeSet<usize>> = vec![BTreeSet::new(); n];
        let mut concurrent_rev = false;
        let mut transit = false;
        let filt = Filter::new_ignore_hidden(f_eq(Attribute::Uuid, PartialValue::Uuid(user_uuid())));
        for s in &c.steps {
            let touched: Option<usize> = match s {
                SStep::Advance { r, secs } => {
                    cl.nodes[*r as usize % n].clock += *secs as u64;
                    None
                }
                SStep::Repl { from, to } => {
                    let (f, t) = (*from as usize % n, *to as usize % n);
                    if f == t {
                        None
                    } else {
                        // independent prediction of this step: an attribute is supplied iff its change id is
                        // newer than what the consumer's update vector holds for the originating server; the
                        // consumer must then hold the key-wise join of its own and the supplied state.
                        let before_t = read_maps(&cl, t).await;
                        let from_f = read_maps(&cl, f).await;
                        let cid_f = attr_cid_objs(&cl, f).await;
                        let ruv_t = cl.ruv(t).await;
                        let res = cl.replicate(f, t).await;
                        if matches!(res, ReplResult::Applied | ReplResult::NoChanges) {
                            let after_t = read_maps(&cl, t).await;
                            for (a, which) in ["login", "oauth2"].iter().enumerate() {
                                let (bt, ff, at) = if a == 0 { (&before_t.0, &from_f.0, &after_t.0) } else { (&before_t.1, &from_f.1, &after_t.1) };
                                let supplied = match &cid_f[a] {
                                    Some(c) => ruv_t.get(&c.s_uuid).map(|(_, max)| c.ts > *max).unwrap_or(true),
                                    None => false,
                                };
                                if supplied && ff.is_empty() {
                                    // supplier holds the attribute as "purged": plain last-writer-wins, no claim
                                    continue;
                                }
                                let mut want = bt.clone();
                                if supplied {
                                    for (k, st) in ff {
                                        want.entry(*k).and_modify(|x| *x = join(x, st)).or_insert(st.clone());
                                    }
                                    log.class("e2e:session-attribute-supplied");
                                }
                                if *at != want {
                                    log.fail(
                                        SIG_E2E_STEP,
                                        format!("{s:?} ({which}, supplied={supplied}): consumer before {bt:?}, supplier {ff:?}, consumer after {at:?}, expected {want:?}"),
                                    );
                                }
                            }
                        }
                        match res {
                            ReplResult::Applied => {
                                let news: Vec<usize> = known[f].difference(&known[t]).copied().collect();
                                if news.iter().any(|w| writes[*w].0 != f) {
                                    transit = true;
                                }
                                known[t].extend(news);
                                Some(t)
                            }
                            ReplResult::NoChanges => None,
                            other => return harness_error("replication refused in a short history", format!("{s:?} -> {other:?}")),
                        }
                    }
                }
                _ => {
                    let (r, mods) = match s {
                        SStep::Add { r, k, exp } => {
                            let i = *r as usize % n;
                            let now = cl.nodes[i].clock;
                            (
                                i,
                                vec![Modify::Present(
                                    Attribute::UserAuthTokenSession,
                                    Value::Session(
                                        sid(*k),
                                        Session {
                                            label: format!("s{k}"),
                                            state: state_for(*exp, now),
                                            issued_at: odt(*k as u64),
                                            issued_by: IdentityId::User(user_uuid()),
                                            cred_id,
                                            scope: SessionScope::ReadWrite,
                                            type_: AuthType::Password,
                                            ext_metadata: Default::default(),
                                        },
                                    ),
                                )],
                            )
                        }
                        SStep::Revoke { r, k } => (
                            *r as usize % n,
                            vec![Modify::Removed(Attribute::UserAuthTokenSession, PartialValue::Refer(sid(*k)))],
                        ),
                        SStep::AddO2 { r, k, parent, exp } => {
                            let i = *r as usize % n;
                            let now = cl.nodes[i].clock;
                            (
                                i,
                                vec![Modify::Present(
                                    Attribute::OAuth2Session,
                                    Value::Oauth2Session(
                                        oid(*k),
                                        Oauth2Session {
                                            parent: Some(sid(*parent)),
                                            state: state_for(*exp, now),
                                            issued_at: odt(*k as u64),
                                            rs_uuid: Ref::O(0).uuid(),
                                        },
                                    ),
                                )],
                            )
                        }
                        SStep::RevokeO2 { r, k } => (
                            *r as usize % n,
                            vec![Modify::Removed(Attribute::OAuth2Session, PartialValue::Refer(oid(*k)))],
                        ),
                        SStep::Touch { r, v } => (
                            *r as usize % n,
                            vec![
                                Modify::Purged(Attribute::Description),
                                Modify::Present(Attribute::Description, Value::new_utf8s(ops::DESCS[*v as usize % 4])),
                            ],
                        ),
                        _ => unreachable!(),
                    };
                    let before = read_maps(&cl, r).await;
                    // A removal aimed at a session this replica does not hold would only stamp a change id on
                    // an attribute it cannot say anything about (an absent attribute with a newer change id
                    // wins as "purged" under last-writer-wins and drops concurrently issued sessions; that is
                    // outside this property). Real revocations always name a session the replica knows.
                    let noop = match s {
                        SStep::Revoke { k, .. } => !before.0.contains_key(&sid(*k)),
                        SStep::RevokeO2 { k, .. } => !before.1.contains_key(&oid(*k)),
                        _ => false,
                    };
                    if noop {
                        log.class("e2e:skipped-revoke-of-unknown-session");
                        continue;
                    }
                    let now = cl.nodes[r].now();
                    let mut w = cl.nodes[r].qs.write(now).await.expect("write");
                    let res = w.internal_modify(&filt, &ModifyList::new_list(mods)).and_then(|_| w.commit());
                    if res.is_ok() {
                        cl.nodes[r].clock += 1;
                        let after = read_maps(&cl, r).await;
                        let mut revoked_now = false;
                        for (k, st) in after.0.iter().chain(after.1.iter()) {
                            let was = before.0.get(k).or(before.1.get(k));
                            if matches!(st, SessionState::RevokedAt(_)) && !matches!(was, Some(SessionState::RevokedAt(_))) {
                                let e = revoked_by.entry(*k).or_default();
                                e.insert(r);
                                revoked_now = true;
                            }
                        }
                        let w = writes.len();
                        writes.push((r, revoked_now));
                        for (j, (_, rev)) in writes.iter().enumerate() {
                            if j != w && !known[r].contains(&j) && (*rev || revoked_now) {
                                concurrent_rev = true;
                            }
                        }
                        known[r].insert(w);
                        Some(r)
                    } else {
                        None
                    }
                }
            };
            if let Some(i) = touched {
                let m = read_maps(&cl, i).await;
                for (k, st) in m.0 {
                    seen.0.entry(k).and_modify(|x| *x = join(x, &st)).or_insert(st);
                }
                for (k, st) in m.1 {
                    seen.1.entry(k).and_modify(|x| *x = join(x, &st)).or_insert(st);
                }
            }
        }
        // full mesh
        let (quiet, results) = cl.quiesce(8, false).await;
        if results.iter().any(|r| !matches!(r, ReplResult::Applied | ReplResult::NoChanges)) {
            return harness_error("replication refused in a short history", format!("{results:?}"));
        }
        if !quiet {
            log.fail("replication did not quiesce within 8 full-mesh rounds", format!("{} steps", results.len()));
        }
        let mut finals: Vec<Maps> = Vec::new();
        let mut cids: Vec<[Option<String>; 2]> = Vec::new();
        for i in 0..n {
            finals.push(read_maps(&cl, i).await);
            cids.push(attr_cids(&cl, i).await);
        }
        // observations made during the mesh are results of merges, not writes: do not add them to `seen`.
        let any_rev = seen.0.values().chain(seen.1.values()).any(|s| matches!(s, SessionState::RevokedAt(_)));
        // Classification of the known finding: two replicas store the attribute under the SAME change id
        // with DIFFERENT content (a merged value was stored under the newer input's change id, so the
        // supplier's range filter never sends it on). Everything else is a fresh violation and is logged first.
        let mut stranded: Option<String> = None;
        let mut stale: Option<String> = None;
        let own_uuids = super::rh::server_uuids(&cl).await;
        for (a, which) in ["login", "oauth2"].iter().enumerate() {
            let content = |i: usize| if a == 0 { &finals[i].0 } else { &finals[i].1 };
            let want = if a == 0 { &seen.0 } else { &seen.1 };
            let same_cid_diff_content = (0..n).any(|i| (0..n).any(|j| i != j && cids[i][a] == cids[j][a] && content(i) != content(j)));
            // Second known root cause (found by C08, listed for C11 too): a replica whose clock lags stamps
            // its own write LOWER than a change id it had already received. After a full mesh a replica can
            // only still hold its own lower id if that happened (the greater id is never re-sent to it).
            let stale_local = (0..n).any(|i| {
                let Some(ci) = &cids[i][a] else { return false };
                let own = ci.split_once('-').map(|(_, u)| u == own_uuids[i]).unwrap_or(false);
                own && (0..n).any(|j| j != i && cids[j][a].as_ref().map(|cj| cj.split_once('-').map(|x| x.0) > ci.split_once('-').map(|x| x.0)).unwrap_or(false))
            });
            for i in 0..n {
                for (k, w) in want {
                    let g = content(i).get(k);
                    if g == Some(w) {
                        continue;
                    }
                    let msg = format!("replica {i} {which} session {k}: has {g:?}, join of everything written is {w:?}; attribute change ids per replica {:?}", cids.iter().map(|c| c[a].clone()).collect::<Vec<_>>());
                    if same_cid_diff_content {
                        stranded.get_or_insert(msg);
                    } else if stale_local {
                        stale.get_or_insert(msg);
                    } else if matches!(w, SessionState::RevokedAt(_)) && !matches!(g, Some(SessionState::RevokedAt(_))) {
                        log.fail(SIG_E2E_LOST, msg);
                    } else {
                        log.fail(SIG_E2E_JOIN, msg);
                    }
                }
                if i > 0 && content(i) != content(0) {
                    let msg = format!("{which}: replica 0 {:?} @ {:?} / replica {i} {:?} @ {:?}", content(0), cids[0][a], content(i), cids[i][a]);
                    if same_cid_diff_content {
                        stranded.get_or_insert(msg);
                    } else if stale_local {
                        stale.get_or_insert(msg);
                    } else {
                        log.fail(SIG_E2E_DIVERGE, msg);
                    }
                }
            }
        }
        if let Some(msg) = stranded {
            log.class("e2e:known-stranded-merge");
            log.fail(SIG_STRANDED, msg);
        }
        if let Some(msg) = stale {
            log.class("e2e:known-stale-local-write");
            log.fail(super::rh::SIG_STALE_LOCAL, msg);
        }
        log.class(format!("e2e:replicas-{n}"));
        if any_rev {
            log.class("e2e:has-revocation");
        }
        if concurrent_rev {
            log.class("e2e:concurrent-revocation");
            log.nontrivial();
        }
        if transit {
            log.class("e2e:change-relayed-by-third-replica");
        }
        if revoked_by.values().any(|s| s.len() >= 2) {
            log.class("e2e:same-session-revoked-on-two-replicas");
        }
        log.finish()
    }
}

// =============================================================================================
// Shared by C08 / C09 / C19: multi-replica histories, causal bookkeeping, convergence comparison

pub mod rh {
    use super::*;
    use crate::dump::DiffOpts;
    use kanidmd_lib::schema::SchemaTransaction;

    #[derive(Debug, Clone, PartialEq, Eq, Hash, Serialize, Deserialize)]
    pub struct History {
        pub replicas: u8,
        /// true: one global virtual time (before a replica acts its clock is moved up to the newest
        /// clock of the cluster, so no write is ever stamped behind something it has received);
        /// false: independent clocks, skew as generated by the Advance steps
        pub synced: bool,
        pub steps: Vec<Step>,
    }

    /// In synchronised-clock histories: move replica r's clock up to the newest clock of the cluster.
    pub fn sync_clock(cl: &mut Cluster, r: usize) {
        let m = cl.nodes.iter().map(|n| n.clock).max().unwrap_or(0);
        cl.nodes[r].clock = m;
    }
    /// Full-mesh rounds until no step supplies changes (no automatic refresh). With `synced` the
    /// consumer's clock is moved up to the newest clock of the cluster before every step.
    pub async fn mesh(cl: &mut Cluster, max_rounds: usize, synced: bool) -> (bool, Vec<ReplResult>) {
        let n = cl.nodes.len();
        let mut seen = Vec::new();
        for _ in 0..max_rounds {
            let mut changed = false;
            for from in 0..n {
                for to in 0..n {
                    if from == to {
                        continue;
                    }
                    if synced {
                        sync_clock(cl, to);
                    }
                    let r = cl.replicate(from, to).await;
                    if r == ReplResult::Applied {
                        changed = true;
                    }
                    seen.push(r);
                }
            }
            if !changed {
                return (true, seen);
            }
        }
        (false, seen)
    }
    /// Replica whose clock a step uses.
    pub fn acting_replica(s: &Step, n: usize) -> usize {
        match s {
            Step::Do { r, .. } => *r as usize % n,
            Step::Repl { to, .. } | Step::Refresh { to, .. } => *to as usize % n,
        }
    }

    /// Targets (population members) an op writes to.
    pub fn targets(op: &Op) -> Vec<Ref> {
        match op {
            Op::CreatePerson { i, .. } => vec![Ref::P(*i)],
            Op::CreateService { i, .. } => vec![Ref::S(*i)],
            Op::CreateGroup { i, .. } => vec![Ref::G(*i)],
            Op::CreateOAuth2 { i, .. } => vec![Ref::O(*i)],
            Op::CreateDynGroup { i, .. } => vec![Ref::D(*i)],
            Op::Rename { t, .. }
            | Op::SetAttr { t, .. }
            | Op::AddAttr { t, .. }
            | Op::PurgeAttr { t, .. }
            | Op::SetManager { t, .. }
            | Op::EnablePosix { t, .. }
            | Op::DisablePosix { t }
            | Op::Delete { t }
            | Op::Revive { t }
            | Op::BadSingleMulti { t }
            | Op::BadUnknownClass { t }
            | Op::BadRemoveMust { t } => vec![*t],
            Op::AddMember { g, .. } | Op::RemoveMember { g, .. } | Op::SetMembers { g, .. } => vec![*g],
            Op::SetScopeMap { o, .. } => vec![Ref::O(*o)],
            Op::SetDynFilter { d, .. } => vec![Ref::D(*d)],
            _ => vec![],
        }
    }
    /// The name (index into ops::NAMES) an op claims, if any.
    pub fn claimed_name(op: &Op) -> Option<u8> {
        match op {
            Op::CreatePerson { name, .. }
            | Op::CreateService { name, .. }
            | Op::CreateGroup { name, .. }
            | Op::CreateOAuth2 { name, .. }
            | Op::CreateDynGroup { name, .. }
            | Op::CreateAnonGroup { name }
            | Op::Rename { name, .. } => Some(*name % ops::NAMES.len() as u8),
            _ => None,
        }
    }
    pub fn kind(op: &Op) -> &'static str {
        match op {
            Op::CreatePerson { .. } | Op::CreateService { .. } | Op::CreateGroup { .. } | Op::CreateOAuth2 { .. } | Op::CreateDynGroup { .. } | Op::CreateAnonGroup { .. } => "create",
            Op::Rename { .. } => "rename",
            Op::SetAttr { .. } | Op::AddAttr { .. } | Op::PurgeAttr { .. } | Op::SetManager { .. } | Op::SetScopeMap { .. } | Op::SetDynFilter { .. } => "attr",
            Op::AddMember { .. } | Op::RemoveMember { .. } | Op::SetMembers { .. } => "member",
            Op::EnablePosix { .. } | Op::DisablePosix { .. } => "class",
            Op::Delete { .. } => "delete",
            Op::Revive { .. } => "revive",
            _ => "other",
        }
    }

    /// Causal bookkeeping used for class labels and non-triviality only (never for verdicts):
    /// which committed writes each replica has received.
    #[derive(Default)]
    pub struct Causal {
        /// (replica, op) of every committed write
        pub writes: Vec<(usize, Op)>,
        pub known: Vec<BTreeSet<usize>>,
        pub labels: BTreeSet<String>,
    }
    impl Causal {
        pub fn new(n: usize) -> Self {
            Causal {
                writes: Vec::new(),
                known: vec![BTreeSet::new(); n],
                labels: BTreeSet::new(),
            }
        }
        /// a committed write on replica r
        pub fn wrote(&mut self, r: usize, op: &Op) {
            let w = self.writes.len();
            let t: BTreeSet<Ref> = targets(op).into_iter().collect();
            let nm = claimed_name(op);
            for (j, (rj, oj)) in self.writes.iter().enumerate() {
                if *rj == r || self.known[r].contains(&j) {
                    continue;
                }
                // oj is concurrent with op
                let tj: BTreeSet<Ref> = targets(oj).into_iter().collect();
                let same_target = t.intersection(&tj).next().is_some();
                let (a, b) = (kind(oj), kind(op));
                if same_target {
                    self.labels.insert("concurrent:same-entry".into());
                    let pair = if a <= b { format!("concurrent:{a}+{b}") } else { format!("concurrent:{b}+{a}") };
                    self.labels.insert(pair);
                }
                if nm.is_some() && nm == claimed_name(oj) && !same_target {
                    self.labels.insert("concurrent:same-name-different-entry".into());
                }
            }
            self.writes.push((r, op.clone()));
            self.known[r].insert(w);
        }
        /// replica `to` received everything `from` knows
        pub fn replicated(&mut self, from: usize, to: usize) {
            let news: Vec<usize> = self.known[from].difference(&self.known[to]).copied().collect();
            if news.iter().any(|w| self.writes[*w].0 != from) {
                self.labels.insert("relayed-by-third-replica".into());
            }
            self.known[to].extend(news);
        }
        /// replica `to` was overwritten by a refresh from `from`
        pub fn refreshed(&mut self, from: usize, to: usize) {
            if self.known[to].difference(&self.known[from]).next().is_some() {
                self.labels.insert("refresh-discarded-local-writes".into());
            }
            self.known[to] = self.known[from].clone();
            self.labels.insert("refresh".into());
        }
    }

    /// Names of the attributes the schema does NOT replicate (they are derived locally), taken from
    /// the server's own schema for the attribute names that occur in the dumps.
    pub async fn non_replicated(cl: &Cluster, dumps: &[Dump]) -> Vec<String> {
        let r = cl.nodes[0].qs.read().await.expect("read");
        let schema = r.get_schema();
        let mut names: BTreeSet<String> = BTreeSet::new();
        for d in dumps {
            for e in d.values() {
                names.extend(e.attrs.keys().cloned());
                names.extend(e.changes.keys().cloned());
            }
        }
        names.into_iter().filter(|n| !schema.is_replicated(&Attribute::from(n.as_str()))).collect()
    }

    /// Pairwise comparison of every replica with replica 0 (entries, status, replicated attributes,
    /// change state). Returns (replica, discrepancy) pairs.
    pub fn compare(dumps: &[Dump], skip: &[String]) -> Vec<(usize, String)> {
        let skip_refs: Vec<&str> = skip.iter().map(|s| s.as_str()).collect();
        let mut out = Vec::new();
        for (i, d) in dumps.iter().enumerate().skip(1) {
            for l in dump::diff(
                &dumps[0],
                d,
                &DiffOpts {
                    skip_attrs: &skip_refs,
                    ids: false,
                    changestate: true,
                },
            ) {
                out.push((i, l));
            }
        }
        out
    }


    /// Known root cause shared by C08/C09/C19 (see known_findings.d): a write transaction's change id is
    /// max(local clock, own previous id + 1 ns) and ignores ids received by replication, so a replica whose
    /// clock is behind can stamp a write LOWER than the change id already on the attribute. It wins locally
    /// and loses everywhere else.
    pub const SIG_STALE_LOCAL: &str = "a replica keeps its own write stamped with a change id lower than one it had already received (lagging clock; received ids do not advance the local id clock)";

    /// Known root cause found by C11 (see known_findings.d/C11.json), as it shows in whole-entry dumps:
    /// an attribute of a MERGING value type (audit log such as name_history, sessions, key objects)
    /// carries the same change id on two replicas but different content.
    pub const SIG_STRANDED_ATTR: &str = "merged value (audit log incl. name_history, sessions, key objects) stored under the newer input's change id is never supplied onward (same change id, different content on two replicas)";

    async fn merging_attrs(cl: &Cluster, dumps: &[Dump]) -> BTreeSet<String> {
        let r = cl.nodes[0].qs.read().await.expect("read");
        let schema = r.get_schema();
        let mut names: BTreeSet<String> = BTreeSet::new();
        for d in dumps {
            for e in d.values() {
                names.extend(e.attrs.keys().cloned());
            }
        }
        names
            .into_iter()
            .filter(|n| {
                schema
                    .get_attributes()
                    .get(&Attribute::from(n.as_str()))
                    .map(|a| matches!(format!("{:?}", a.syntax).as_str(), "AuditLogString" | "Session" | "Oauth2Session" | "KeyInternal"))
                    .unwrap_or(false)
            })
            .collect()
    }

    /// Known: see known_findings.d (C08/C19).
    pub const SIG_SELF_SOURCE: &str = "conflict entry carries the locally added source_uuid=own-uuid marker on some replicas only (validate_repl marks a schema-invalid merge without a change id)";

    pub async fn server_uuids(cl: &Cluster) -> Vec<String> {
        let mut out = Vec::new();
        for i in 0..cl.nodes.len() {
            let now = cl.nodes[i].now();
            let w = cl.nodes[i].qs.write(now).await.expect("write");
            out.push(kanidmd_lib::verif_hooks::repl::server_uuid(&w).to_string());
            drop(w);
        }
        out
    }

    /// Split the differences found by `compare` into (unexplained, description of the explained ones).
    /// Fingerprint of the known root cause on an (entry, attribute): the two replicas hold different
    /// change ids and the LOWER one was stamped by a replica that still holds it (after a full mesh a
    /// replica can only keep its own lower id if it wrote it over a greater one it had received; a refresh
    /// may have copied that state to further replicas).
    /// Every difference of an entry that shows the fingerprint on some attribute is attributed to it
    /// (e.g. the merged entry is schema-invalid elsewhere and parked as a conflict there).
    pub async fn split_stale_local(cl: &Cluster, dumps: &[Dump], diffs: &[(usize, String)]) -> (Vec<(usize, String)>, Option<String>, Option<String>, Option<String>) {
        let suuids = server_uuids(cl).await;
        let stale_local = |i: usize, line: &str| -> bool {
            let mut it = line.splitn(2, ": ");
            let (Some(u), Some(rest)) = (it.next(), it.next()) else { return false };
            let Ok(u) = u.parse::<Uuid>() else { return false };
            let attr = if let Some(r) = rest.strip_prefix("attr ") {
                r.split(':').next().unwrap_or("")
            } else if let Some(r) = rest.strip_prefix("change cid of ") {
                r.split(':').next().unwrap_or("")
            } else {
                return false;
            };
            let (Some(a), Some(b)) = (dumps[0].get(&u), dumps[i].get(&u)) else { return false };
            let (Some(ca), Some(cb)) = (a.changes.get(attr), b.changes.get(attr)) else { return false };
            if ca == cb {
                return false;
            }
            let lo = if ca < cb { ca } else { cb };
            // the replica that stamped the lower id still holds it (a refresh may have copied it to others)
            (0..dumps.len()).any(|k| lo.ends_with(&suuids[k]) && dumps[k].get(&u).and_then(|e| e.changes.get(attr)) == Some(lo))
        };
        // second known fingerprint: merging attribute, equal change ids, different content
        let merging = merging_attrs(cl, dumps).await;
        let stranded = |i: usize, line: &str| -> bool {
            let mut it = line.splitn(2, ": ");
            let (Some(u), Some(rest)) = (it.next(), it.next()) else { return false };
            let Ok(u) = u.parse::<Uuid>() else { return false };
            let Some(r) = rest.strip_prefix("attr ") else { return false };
            let attr = r.split(':').next().unwrap_or("");
            if !merging.contains(attr) {
                return false;
            }
            let (Some(a), Some(b)) = (dumps[0].get(&u), dumps[i].get(&u)) else { return false };
            a.changes.get(attr).is_some() && a.changes.get(attr) == b.changes.get(attr)
        };
        // third known fingerprint: validate_repl parks a schema-invalid merge as a conflict by adding
        // class recycled/conflict and source_uuid = the entry's OWN uuid locally, without a change id; the
        // marker therefore exists only on replicas that went through that path for this entry.
        let self_source = |i: usize, line: &str| -> bool {
            let mut it = line.splitn(2, ": ");
            let (Some(us), Some(rest)) = (it.next(), it.next()) else { return false };
            let Ok(u) = us.parse::<Uuid>() else { return false };
            if !rest.starts_with("attr source_uuid:") {
                return false;
            }
            let (Some(a), Some(b)) = (dumps[0].get(&u), dumps[i].get(&u)) else { return false };
            if a.status != b.status || a.changes.get("source_uuid") != b.changes.get("source_uuid") {
                return false;
            }
            let own = format!("\"{us}\"");
            let strip = |e: &crate::dump::EntryDump| -> Vec<String> { e.attrs.get("source_uuid").cloned().unwrap_or_default().into_iter().filter(|v| *v != own).collect() };
            strip(a) == strip(b)
        };
        let self_lines: Vec<(usize, String)> = diffs.iter().filter(|(i, l)| self_source(*i, l)).cloned().collect();
        let stranded_lines: Vec<(usize, String)> = diffs.iter().filter(|(i, l)| stranded(*i, l)).cloned().collect();
        let tainted: BTreeSet<String> = diffs
            .iter()
            .filter(|(i, l)| stale_local(*i, l))
            .filter_map(|(_, l)| l.split(": ").next().map(|s| s.to_string()))
            .collect();
        let unexplained: Vec<(usize, String)> = diffs
            .iter()
            .filter(|(_, l)| !tainted.contains(l.split(": ").next().unwrap_or("")))
            .filter(|x| !stranded_lines.contains(x) && !self_lines.contains(x))
            .cloned()
            .collect();
        let msg = if tainted.is_empty() {
            None
        } else {
            Some(format!(
                "{} differences on {} entries showing the fingerprint, e.g. {:?}; server uuids {:?}",
                diffs.iter().filter(|(_, l)| tainted.contains(l.split(": ").next().unwrap_or(""))).count(),
                tainted.len(),
                diffs.iter().filter(|(_, l)| tainted.contains(l.split(": ").next().unwrap_or(""))).take(4).collect::<Vec<_>>(),
                suuids
            ))
        };
        let smsg = if stranded_lines.is_empty() { None } else { Some(format!("{} attribute differences with equal change ids, e.g. {:?}", stranded_lines.len(), stranded_lines.iter().take(2).collect::<Vec<_>>())) };
        let selfmsg = if self_lines.is_empty() { None } else { Some(format!("{:?}", self_lines.iter().take(2).collect::<Vec<_>>())) };
        (unexplained, msg, smsg, selfmsg)
    }

    pub fn is_refusal(r: &ReplResult) -> bool {
        matches!(r, ReplResult::RefreshRequired | ReplResult::Unwilling | ReplResult::DomainMismatch)
    }

    /// `verify()` of replica i (consistency errors rendered), via the read transaction.
    pub async fn verify(cl: &Cluster, i: usize) -> Vec<String> {
        let mut r = cl.nodes[i].qs.read().await.expect("read");
        kanidmd_lib::verif_hooks::replx::verify_read(&mut r)
    }

    /// Population uuids only (ignore built-in entries) helper.
    pub fn is_population(u: &Uuid) -> bool {
        u.as_u128() >> 112 == 0xAAAA
    }

    pub fn status_counts(d: &Dump) -> BTreeMap<Status, usize> {
        let mut m = BTreeMap::new();
        for e in d.values() {
            *m.entry(e.status).or_default() += 1;
        }
        m
    }
}
