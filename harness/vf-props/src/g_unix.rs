//! Helpers of group 'unix' (see GUIDE.md): extra history operations used by C48 (domain level
//! upgrade) on top of the shared op language: memberships in built-in groups, credentials, ssh keys.
use crate::ops::{self, Node, Op, Ref};
use kanidm_lib_crypto::CryptoPolicy;
use kanidmd_lib::credential::Credential;
use kanidmd_lib::modify::{Modify, ModifyList};
use kanidmd_lib::prelude::*;
use kanidmd_lib::value::Value;
use serde::{Deserialize, Serialize};
use time::OffsetDateTime;

/// Built-in groups that user content may be added to.
pub const BUILTIN_GROUPS: [(Uuid, &str); 8] = [
    (UUID_IDM_ADMINS, "idm_admins"),
    (UUID_SYSTEM_ADMINS, "system_admins"),
    (UUID_IDM_PEOPLE_ADMINS, "idm_people_admins"),
    (UUID_IDM_GROUP_ADMINS, "idm_group_admins"),
    (UUID_IDM_RADIUS_SERVERS, "idm_radius_servers"),
    (UUID_IDM_SERVICE_DESK, "idm_service_desk"),
    (UUID_IDM_UNIX_ADMINS, "idm_unix_admins"),
    (UUID_IDM_HIGH_PRIVILEGE, "idm_high_privilege"),
];

pub const SSH_KEYS: [&str; 2] = [
    "ssh-ed25519 AAAAC3NzaC1lZDI1NTE5AAAAIAeGW1P6Pc2rPq0XqbRaDKBcXZUPRklo0L1EyR30CwoP william@amethyst",
    "ecdsa-sha2-nistp256 AAAAE2VjZHNhLXNoYTItbmlzdHAyNTYAAAAIbmlzdHAyNTYAAABBBGyIY7o3BtOzRiJ9vvjj96bRImwmyy5GvFSIUPlK00HitiAWGhiO1jGZKmK7220Oe4rqU3uAwA00a0758UODs+0= william@amethyst",
];

#[derive(Debug, Clone, PartialEq, Eq, Hash, Serialize, Deserialize)]
pub enum XOp {
    Base(Op),
    /// add `m` to built-in group number `b`
    BuiltinMember { b: u8, m: Ref },
    /// set a primary password credential on a person
    SetPassword { t: Ref, pw: u8 },
    /// add an ssh public key
    AddSshKey { t: Ref, k: u8 },
}

fn live(u: Uuid) -> Filter<FilterInvalid> {
    Filter::new_ignore_hidden(f_eq(Attribute::Uuid, PartialValue::Uuid(u)))
}

pub async fn apply(node: &mut Node, op: &XOp) -> Result<(), OperationError> {
    let mods = match op {
        XOp::Base(op) => return ops::apply(node, op).await,
        XOp::BuiltinMember { b, m } => {
            let (g, _) = BUILTIN_GROUPS[*b as usize % BUILTIN_GROUPS.len()];
            (g, vec![Modify::Present(Attribute::Member, Value::Refer(m.uuid()))])
        }
        XOp::SetPassword { t, pw } => {
            let cred = Credential::new_password_only(
                &CryptoPolicy::minimum(),
                ["correct horse battery staple", "Tr0ub4dor&3-xkcd-936", "eicieY7ahchaoCh0eeTa"][*pw as usize % 3],
                OffsetDateTime::UNIX_EPOCH + node.now(),
            )?;
            (
                t.uuid(),
                vec![
                    Modify::Purged(Attribute::PrimaryCredential),
                    Modify::Present(Attribute::PrimaryCredential, Value::new_credential("primary", cred)),
                ],
            )
        }
        XOp::AddSshKey { t, k } => {
            let key = SSH_KEYS[*k as usize % SSH_KEYS.len()];
            (
                t.uuid(),
                vec![Modify::Present(Attribute::SshPublicKey, Value::new_sshkey_str(&format!("k{k}"), key)?)],
            )
        }
    };
    let mut w = node.qs.write(node.now()).await?;
    w.internal_modify(&live(mods.0), &ModifyList::new_list(mods.1))?;
    w.commit()?;
    node.clock += 1;
    Ok(())
}
