//! Helpers of group 'unix' (see GUIDE.md).
