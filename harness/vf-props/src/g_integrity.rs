//! Group 'integrity' (C15 C16 C18 C20 C21 C22 C26): a history runner that reports every op (also
//! rejected ones) to the checker, and independent invariant checkers that recompute each
//! invariant from the stored entries only.
use crate::dump::{self, status_of, DiffOpts, Dump, Status};
pub use crate::inv::E;
use crate::ops::Node;
use kanidmd_lib::prelude::*;
use serde_json::Value as J;
use std::collections::{BTreeMap, BTreeSet};
use std::fmt::Debug;
use std::future::Future;
use std::pin::Pin;
use vf_core::CaseLog;

pub type OpFuture<'n> = Pin<Box<dyn Future<Output = Result<(), OperationError>> + 'n>>;

/// What the checker sees after every op: the op, its result, and all stored entries afterwards.
pub struct After<'a, O> {
    pub step: usize,
    pub op: &'a O,
    pub res: &'a Result<(), OperationError>,
    pub entries: &'a [E],
    /// entries before the op (= after the previous op)
    pub before: &'a [E],
}

impl<O> After<'_, O> {
    pub fn committed(&self) -> bool {
        self.res.is_ok()
    }
}

#[derive(Default, Debug, Clone, Copy)]
pub struct Stats {
    pub committed: usize,
    pub rejected: usize,
}

pub fn dump_of(entries: &[E]) -> Dump {
    entries.iter().map(|e| (e.get_uuid(), dump::dump_entry(e))).collect()
}

pub async fn read_all(node: &Node) -> Vec<E> {
    let mut r = node.qs.read().await.expect("read");
    dump::all_entries(&mut r).expect("all entries")
}

/// Interpret `ops` on `node`. `apply` runs one op as its own transaction(s) (Err = refused, nothing
/// committed). After every op `inv` is called. With `check_rejects`, a refused op must leave the
/// canonical dump (all entries, ids, change state) unchanged.
pub async fn run_hist<O: Debug>(
    node: &mut Node,
    ops: &[O],
    log: &mut CaseLog,
    check_rejects: bool,
    mut apply: impl for<'n> FnMut(&'n mut Node, &'n O) -> OpFuture<'n>,
    mut inv: impl FnMut(&After<'_, O>, &mut CaseLog),
) -> Stats {
    let mut stats = Stats::default();
    let mut before = read_all(node).await;
    for (i, op) in ops.iter().enumerate() {
        let res = apply(node, op).await;
        let entries = read_all(node).await;
        match &res {
            Ok(()) => stats.committed += 1,
            Err(e) => {
                stats.rejected += 1;
                if check_rejects {
                    let d = dump::diff(
                        &dump_of(&before),
                        &dump_of(&entries),
                        &DiffOpts {
                            skip_attrs: &[],
                            ids: true,
                            changestate: true,
                        },
                    );
                    if !d.is_empty() {
                        log.fail(
                            "rejected operation left a trace",
                            format!("step {i} {op:?} -> Err({e:?}) but the database changed: {:?}", &d[..d.len().min(6)]),
                        );
                    }
                }
            }
        }
        inv(
            &After {
                step: i,
                op,
                res: &res,
                entries: &entries,
                before: &before,
            },
            log,
        );
        before = entries;
        if log.failed() {
            break;
        }
    }
    stats
}

/// `apply` for plain `ops::Op` histories.
pub fn apply_base<'n>(node: &'n mut Node, op: &'n crate::ops::Op) -> OpFuture<'n> {
    Box::pin(crate::ops::apply(node, op))
}

// ------------------------------------------------------------------------------------------------
// stored schema (read from the attributetype / classtype ENTRIES, not from the in-memory Schema)

#[derive(Debug, Clone, Default)]
pub struct StoredAttr {
    pub syntax: String,
    pub multivalue: bool,
    pub unique: bool,
}

#[derive(Debug, Clone, Default)]
pub struct StoredClass {
    pub must: BTreeSet<String>,
    pub may: BTreeSet<String>,
    pub supplements: BTreeSet<String>,
    pub excludes: BTreeSet<String>,
}

#[derive(Debug, Clone, Default)]
pub struct StoredSchema {
    pub attrs: BTreeMap<String, StoredAttr>,
    pub classes: BTreeMap<String, StoredClass>,
    /// attributes that exist only for protocol mapping and may never be stored
    pub phantom: BTreeSet<String>,
}

fn strs(e: &E, a: Attribute) -> BTreeSet<String> {
    dump::proto_values(e, a).into_iter().collect()
}

pub fn stored_schema(entries: &[E]) -> StoredSchema {
    let mut s = StoredSchema::default();
    for e in entries.iter().filter(|e| status_of(e) == Status::Live) {
        if e.has_class(&EntryClass::AttributeType) {
            if let Some(name) = dump::proto_values(e, Attribute::AttributeName).into_iter().next() {
                s.attrs.insert(
                    name,
                    StoredAttr {
                        syntax: dump::proto_values(e, Attribute::Syntax).into_iter().next().unwrap_or_default(),
                        multivalue: dump::proto_values(e, Attribute::MultiValue).first().map(|v| v == "true").unwrap_or(false),
                        unique: dump::proto_values(e, Attribute::Unique).first().map(|v| v == "true").unwrap_or(false),
                    },
                );
                if dump::proto_values(e, Attribute::Phantom).first().map(|v| v == "true").unwrap_or(false) {
                    if let Some(n) = dump::proto_values(e, Attribute::AttributeName).into_iter().next() {
                        s.phantom.insert(n);
                    }
                }
            }
        }
        if e.has_class(&EntryClass::ClassType) {
            if let Some(name) = dump::proto_values(e, Attribute::ClassName).into_iter().next() {
                let mut must = strs(e, Attribute::SystemMust);
                must.extend(strs(e, Attribute::Must));
                let mut may = strs(e, Attribute::SystemMay);
                may.extend(strs(e, Attribute::May));
                let mut supplements = strs(e, Attribute::SystemSupplements);
                supplements.extend(strs(e, Attribute::Supplements));
                let mut excludes = strs(e, Attribute::SystemExcludes);
                excludes.extend(strs(e, Attribute::Excludes));
                s.classes.insert(
                    name,
                    StoredClass {
                        must,
                        may,
                        supplements,
                        excludes,
                    },
                );
            }
        }
    }
    s
}

// ------------------------------------------------------------------------------------------------
// C16: no dangling references

/// Syntax names (as the stored schema entries spell them) whose values carry entry references.
pub const REF_SYNTAXES: [&str; 3] = ["REFERENCE_UUID", "OAUTH_SCOPE_MAP", "OAUTH_CLAIM_MAP"];

fn collect_uuids(j: &J, out: &mut BTreeSet<Uuid>) {
    match j {
        J::String(s) => {
            if s.len() == 36 {
                if let Ok(u) = Uuid::parse_str(s) {
                    out.insert(u);
                }
            }
        }
        J::Array(a) => a.iter().for_each(|x| collect_uuids(x, out)),
        J::Object(m) => m.values().for_each(|x| collect_uuids(x, out)),
        _ => {}
    }
}

/// (attribute, referenced uuid) pairs of one entry, from its on-disk encoding, for every attribute
/// the stored schema types as reference-bearing.
pub fn references_of(e: &E, ref_attrs: &BTreeSet<String>) -> Vec<(String, Uuid)> {
    if !ref_attrs.iter().any(|a| e.attribute_pres(Attribute::from(a.as_str()))) {
        return Vec::new();
    }
    let d = dump::dump_entry(e);
    let mut out = Vec::new();
    for (a, vals) in &d.attrs {
        if !ref_attrs.contains(a) {
            continue;
        }
        let mut us = BTreeSet::new();
        for v in vals {
            if let Ok(j) = serde_json::from_str::<J>(v) {
                collect_uuids(&j, &mut us);
            }
        }
        out.extend(us.into_iter().map(|u| (a.clone(), u)));
    }
    out
}

pub fn ref_attrs_of(schema: &StoredSchema) -> BTreeSet<String> {
    schema
        .attrs
        .iter()
        .filter(|(_, a)| REF_SYNTAXES.contains(&a.syntax.as_str()))
        .map(|(n, _)| n.clone())
        .collect()
}

/// Reference-bearing attributes of the schema in force on `node`: every attribute whose syntax is
/// ReferenceUuid / OauthScopeMap / OauthClaimMap. At the current domain level the schema lives in
/// memory only (no attributetype entries are stored), so the attribute table of the loaded schema is
/// read (not the refint plugin's own `get_reference_types` cache); attributetype ENTRIES, where a
/// server stores them (older domain levels), are merged in.
pub async fn ref_attrs_of_node(node: &Node, entries: &[E]) -> BTreeSet<String> {
    use kanidmd_lib::schema::SchemaTransaction;
    use kanidmd_lib::value::SyntaxType;
    let r = node.qs.read().await.expect("read");
    let mut out: BTreeSet<String> = r
        .get_schema()
        .get_attributes()
        .values()
        .filter(|a| matches!(a.syntax, SyntaxType::ReferenceUuid | SyntaxType::OauthScopeMap | SyntaxType::OauthClaimMap))
        .map(|a| a.name.to_string())
        .collect();
    out.extend(ref_attrs_of(&stored_schema(entries)));
    out
}

pub struct RefScan {
    /// (holder, attribute, target, target status or None when absent)
    pub dangling: Vec<(Uuid, String, Uuid, Option<Status>)>,
    /// number of (holder, attr, target) triples held by live entries
    pub live_refs: usize,
    pub ref_attrs: BTreeSet<String>,
}

pub fn ref_scan(entries: &[E]) -> RefScan {
    let schema = stored_schema(entries);
    ref_scan_with(entries, ref_attrs_of(&schema))
}

pub fn ref_scan_with(entries: &[E], ref_attrs: BTreeSet<String>) -> RefScan {
    let status: BTreeMap<Uuid, Status> = entries.iter().map(|e| (e.get_uuid(), status_of(e))).collect();
    let mut dangling = Vec::new();
    let mut live_refs = 0;
    for e in entries.iter().filter(|e| status_of(e) == Status::Live) {
        for (a, t) in references_of(e, &ref_attrs) {
            live_refs += 1;
            match status.get(&t) {
                Some(Status::Live) => {}
                other => dangling.push((e.get_uuid(), a, t, other.copied())),
            }
        }
    }
    RefScan {
        dangling,
        live_refs,
        ref_attrs,
    }
}

/// Live entries of `entries` holding a reference (any reference attribute except the derived
/// memberof/directmemberof) to `target`.
pub fn holders_of(entries: &[E], target: Uuid, ref_attrs: &BTreeSet<String>) -> BTreeSet<Uuid> {
    entries
        .iter()
        .filter(|e| status_of(e) == Status::Live && e.get_uuid() != target)
        .filter(|e| {
            references_of(e, ref_attrs)
                .iter()
                .any(|(a, t)| *t == target && a != "memberof" && a != "directmemberof")
        })
        .map(|e| e.get_uuid())
        .collect()
}

// ------------------------------------------------------------------------------------------------
// C22: spn == name@domain

/// The domain name as stored on the domain_info entry.
pub fn stored_domain_name(entries: &[E]) -> Option<String> {
    entries
        .iter()
        .find(|e| e.get_uuid() == UUID_DOMAIN_INFO)
        .and_then(|e| dump::proto_values(e, Attribute::DomainName).into_iter().next())
}

pub const SIG_SPN: &str = "live account or group whose spn is not name@domain";
/// Known finding: at the current domain level `name` is optional on groups; a group without a name
/// keeps whatever spn value a caller writes (generate_spn returns the existing value verbatim).
pub const SIG_SPN_NAMELESS: &str = "nameless group keeps a caller-chosen spn outside the current domain";

/// Discrepancies of the spn invariant over live accounts and groups: (signature, detail).
pub fn spn_violations(entries: &[E]) -> Vec<(&'static str, String)> {
    let mut out = Vec::new();
    let Some(domain) = stored_domain_name(entries) else {
        return vec![(SIG_SPN, "domain_info entry has no domain_name".into())];
    };
    for e in entries.iter().filter(|e| status_of(e) == Status::Live) {
        if !(e.has_class(&EntryClass::Account) || e.has_class(&EntryClass::Group)) {
            continue;
        }
        let names = dump::proto_values(e, Attribute::Name);
        let spns = dump::proto_values(e, Attribute::Spn);
        if names.is_empty() {
            // The schema of the current domain level makes `name` optional on groups (spn-only
            // entries). The property's formula needs a name; what remains checkable is that there
            // is exactly one spn and that it lives in the current domain.
            if spns.len() != 1 {
                out.push((SIG_SPN, format!("{} (nameless): spn {:?}, expected exactly one value", e.get_uuid(), spns)));
            } else if !spns[0].ends_with(&format!("@{domain}")) {
                out.push((SIG_SPN_NAMELESS, format!("{} (nameless): spn {:?}, current domain {domain:?}", e.get_uuid(), spns)));
            }
            continue;
        }
        if names.len() != 1 {
            out.push((SIG_SPN, format!("{} has {} names", e.get_uuid(), names.len())));
            continue;
        }
        let want = format!("{}@{}", names[0], domain);
        if spns.len() != 1 || spns[0] != want {
            out.push((SIG_SPN, format!("{}: spn {:?}, expected [{want:?}]", e.get_uuid(), spns)));
        }
    }
    out
}

// ------------------------------------------------------------------------------------------------
// C15: every stored live entry satisfies the schema

/// The schema definitions as plain data, from the loaded schema's attribute/class tables. Used
/// only where the server stores no schema entries (domain level >= 1.11); the validation logic
/// below is the harness's own either way.
pub async fn schema_from_memory(node: &Node) -> StoredSchema {
    use kanidmd_lib::schema::SchemaTransaction;
    let r = node.qs.read().await.expect("read");
    let sch = r.get_schema();
    let mut s = StoredSchema::default();
    for (n, a) in sch.get_attributes() {
        s.attrs.insert(
            n.to_string(),
            StoredAttr {
                syntax: a.syntax.to_string(),
                multivalue: a.multivalue,
                unique: a.unique,
            },
        );
        if a.phantom {
            s.phantom.insert(n.to_string());
        }
    }
    for (n, c) in sch.get_classes() {
        let set = |a: &Vec<Attribute>, b: &Vec<Attribute>| a.iter().chain(b.iter()).map(|x| x.to_string()).collect::<BTreeSet<String>>();
        let sset = |a: &Vec<AttrString>, b: &Vec<AttrString>| a.iter().chain(b.iter()).map(|x| x.to_string()).collect::<BTreeSet<String>>();
        s.classes.insert(
            n.to_string(),
            StoredClass {
                must: set(&c.systemmust, &c.must),
                may: set(&c.systemmay, &c.may),
                supplements: sset(&c.systemsupplements, &c.supplements),
                excludes: sset(&c.systemexcludes, &c.excludes),
            },
        );
    }
    s
}

pub const SIG_SCHEMA: &str = "stored live entry violates the schema";

/// Own, syntax-specific validity predicates for the syntaxes the generators produce (others: the
/// syntax tag of the stored value set is compared only).
fn value_ok(syntax: &str, proto: &str) -> bool {
    match syntax {
        "UTF8STRING_INAME" => !proto.is_empty() && proto == proto.to_lowercase() && !proto.contains('@') && Uuid::parse_str(proto).is_err(),
        "UTF8STRING_INSENSITIVE" => proto == proto.to_lowercase(),
        "BOOLEAN" => proto == "true" || proto == "false",
        "UINT32" => proto.parse::<u32>().is_ok(),
        "UUID" | "REFERENCE_UUID" => true,
        "EMAIL_ADDRESS" => proto.contains('@'),
        "SECURITY_PRINCIPAL_NAME" => proto.matches('@').count() >= 1,
        _ => true,
    }
}

/// Schema discrepancies of all live entries (recycled, tombstone and conflict entries are exempt).
pub fn schema_violations(entries: &[E], schema: &StoredSchema) -> Vec<String> {
    let mut out = Vec::new();
    for e in entries.iter().filter(|e| status_of(e) == Status::Live) {
        let u = e.get_uuid();
        let classes: BTreeSet<String> = dump::proto_values(e, Attribute::Class).into_iter().collect();
        if classes.is_empty() {
            out.push(format!("{u}: no class"));
            continue;
        }
        let mut must: BTreeSet<&String> = BTreeSet::new();
        let mut may: BTreeSet<&String> = BTreeSet::new();
        let mut supplements: BTreeSet<&String> = BTreeSet::new();
        let mut unknown = false;
        for c in &classes {
            match schema.classes.get(c) {
                None => {
                    out.push(format!("{u}: class {c} is not defined"));
                    unknown = true;
                }
                Some(def) => {
                    must.extend(def.must.iter());
                    may.extend(def.may.iter());
                    supplements.extend(def.supplements.iter());
                    for x in &def.excludes {
                        if classes.contains(x) {
                            out.push(format!("{u}: class {c} excludes {x}, both present"));
                        }
                    }
                }
            }
        }
        if unknown {
            continue;
        }
        if !supplements.is_empty() && !supplements.iter().any(|s| classes.contains(*s)) {
            out.push(format!("{u}: none of the supplemented classes {supplements:?} present (classes {classes:?})"));
        }
        for m in &must {
            if !e.attribute_pres(Attribute::from(m.as_str())) {
                out.push(format!("{u}: required attribute {m} missing (classes {classes:?})"));
            }
        }
        let extensible = classes.contains("extensibleobject");
        for a in e.get_ava_names() {
            let Some(def) = schema.attrs.get(a) else {
                out.push(format!("{u}: attribute {a} is not defined"));
                continue;
            };
            if extensible {
                if schema.phantom.contains(a) {
                    out.push(format!("{u}: phantom attribute {a} stored"));
                }
            } else if !(must.iter().any(|m| m.as_str() == a) || may.iter().any(|m| m.as_str() == a)) {
                out.push(format!("{u}: attribute {a} not allowed by classes {classes:?}"));
            }
            let Some(vs) = e.get_ava_set(Attribute::from(a)) else { continue };
            // (built-in classtype entries store empty multi-valued systemmay/systemmust/... sets;
            // the property speaks about single-valued attributes only)
            if !def.multivalue && vs.len() != 1 {
                out.push(format!("{u}: single-valued attribute {a} has {} values", vs.len()));
            }
            let tag = vs.syntax().to_string();
            if tag != def.syntax {
                out.push(format!("{u}: attribute {a} holds {tag} values, schema says {}", def.syntax));
            } else {
                for p in vs.to_proto_string_clone_iter() {
                    if !value_ok(&def.syntax, &p) {
                        out.push(format!("{u}: attribute {a} value {p:?} is not a valid {}", def.syntax));
                    }
                }
            }
        }
    }
    out
}

/// Replication resolves equal timestamps by comparing the (random) server uuids. To keep replicated
/// histories replayable, make timestamps of different replicas never collide: replica i only
/// writes at seconds congruent to i modulo the number of replicas. Call before every step.
pub fn untie_clocks(cl: &mut crate::repl::Cluster) {
    let n = cl.nodes.len() as u64;
    for (i, node) in cl.nodes.iter_mut().enumerate() {
        while node.clock % n != i as u64 {
            node.clock += 1;
        }
    }
}
