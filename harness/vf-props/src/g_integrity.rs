//! Helpers of group 'integrity' (see GUIDE.md).
