//! C09 — Deleted entries are never resurrected by replication.
//!
//! Histories weighted to deletes, recycle-bin purges and tombstone reaping at virtual times around
//! RECYCLEBIN_MAX_AGE / CHANGELOG_MAX_AGE (±1 s and far beyond), concurrent edits (value, class,
//! membership, rename) on other replicas, replication delays shorter and longer than the changelog
//! window, no revive operations. Oracles:
//!  (1) per replication step: once a replica holds a deleted uuid as recycled/tombstone (or has
//!      reaped it), no incremental replication or refresh makes that uuid live there again;
//!  (2) per replication step: the context variant returned (supply / nothing / refresh required /
//!      unwilling) equals the prediction of an independent range decision table fed with the
//!      consumer's and the supplier's update-vector ranges — in particular a lagging consumer gets
//!      RefreshRequired, never a change set;
//!  (3) after a full mesh with mandated refreshes, when every pair answers "no changes": no
//!      deleted uuid is live on any replica.
use kanidmd_lib::constants::{CHANGELOG_MAX_AGE, RECYCLEBIN_MAX_AGE};
use kanidmd_lib::verif_hooks::repl as hrepl;
use proptest::prelude::*;
use std::collections::{BTreeMap, BTreeSet};
use std::time::Duration;
use uuid::Uuid;
use vf_core::{CaseLog, Check, Outcome, PropCfg};
use vf_world::dump::{Dump, Status};
use vf_world::g_replx::{self as gx, rh};
use vf_world::ops::{self, Op, Step, Weights};
use vf_world::repl::{self, Cluster, ReplResult, StepResult};
use vf_world::srv;

fn weights() -> Weights {
    let w = CHANGELOG_MAX_AGE.max(RECYCLEBIN_MAX_AGE) as u32;
    let r = RECYCLEBIN_MAX_AGE as u32;
    Weights {
        create: 3,
        rename: 3,
        attr: 5,
        member: 4,
        manager: 1,
        oauth2: 0,
        dyngroup: 0,
        posix: 6,
        delete: 9,
        revive: 0,
        purge: 9,
        reindex: 0,
        advance: 9,
        domain_rename: 0,
        bad: 0,
        missing_refs: false,
        persons: 3,
        services: 1,
        groups: 3,
        time_grid: vec![1, 60, 3600, r - 1, r, r + 1, w - 1, w, w + 1, 2 * w + 5, 86_400, w / 2],
    }
}

fn arb_case(len: std::ops::Range<usize>) -> BoxedStrategy<rh::History> {
    let w = weights();
    prop_oneof![3 => Just(2u8), 2 => Just(3u8)]
        .prop_flat_map(move |n| (ops::arb_steps(&w, n, len.clone(), 5, 1), proptest::bool::weighted(0.7)).prop_map(move |(steps, synced)| rh::History { replicas: n, synced, steps }))
        .boxed()
}


/// Dense scenario generator for the tombstone / recycle-bin races that uniform histories reach rarely:
/// delete u on replica a; a waits around RECYCLEBIN_MAX_AGE and purges (recycled -> tombstone, optionally
/// reaps); replica b, which has not seen the delete, edits u; then b -> a and a -> b. A few random steps
/// before and after.
fn arb_race() -> BoxedStrategy<rh::History> {
    use vf_world::ops::{AttrK, Ref};
    let w = weights();
    let r = RECYCLEBIN_MAX_AGE as u32;
    let c = CHANGELOG_MAX_AGE as u32;
    let target = prop_oneof![(0u8..2).prop_map(Ref::P), (0u8..2).prop_map(Ref::G)];
    let wait = proptest::sample::select(vec![1u32, r - 1, r, r + 1, 2 * r, c + 1]);
    (
        prop_oneof![3 => Just(2u8), 1 => Just(3u8)],
        target,
        0u8..4,           // edit kind
        wait,
        any::<bool>(),    // edit before the wait (else after)
        any::<bool>(),    // also reap tombstones
        proptest::bool::weighted(0.8),
        proptest::collection::vec(ops::arb_op(&w), 0..4),
        proptest::collection::vec(ops::arb_op(&w), 0..4),
        (0u8..3, 0u8..3),
    )
        .prop_map(|(n, u, kind, wait, early, reap, synced, pre, post, (a0, b0))| {
            let a = a0 % n;
            let b = if b0 % n == a { (a + 1) % n } else { b0 % n };
            let mut steps: Vec<Step> = vec![
                Step::Do { r: 0, op: Op::CreatePerson { i: 0, name: 0 } },
                Step::Do { r: 0, op: Op::CreatePerson { i: 1, name: 1 } },
                Step::Do { r: 0, op: Op::CreateGroup { i: 0, name: 4, members: vec![Ref::P(1)] } },
                Step::Do { r: 0, op: Op::CreateGroup { i: 1, name: 5, members: vec![] } },
            ];
            for to in 1..n {
                steps.push(Step::Repl { from: 0, to });
            }
            for (i, op) in pre.into_iter().enumerate() {
                steps.push(Step::Do { r: (i as u8) % n, op });
            }
            for to in 0..n {
                if to != b {
                    steps.push(Step::Repl { from: b, to });
                }
            }
            let edit = match (kind, u) {
                (0, _) => Op::SetAttr { t: u, attr: AttrK::Description, vals: vec![1] },
                (1, _) => Op::EnablePosix { t: u, gid: Some(1) },
                (2, Ref::G(_)) => Op::AddMember { g: u, m: Ref::P(1) },
                (2, _) => Op::SetAttr { t: u, attr: AttrK::Mail, vals: vec![0, 1] },
                _ => Op::Rename { t: u, name: 9 },
            };
            steps.push(Step::Do { r: a, op: Op::Delete { t: u } });
            if early {
                steps.push(Step::Do { r: b, op: edit.clone() });
            }
            steps.push(Step::Do { r: a, op: Op::Advance { secs: wait } });
            steps.push(Step::Do { r: a, op: Op::PurgeRecycled });
            if reap {
                steps.push(Step::Do { r: a, op: Op::PurgeTombstones });
            }
            if !early {
                steps.push(Step::Do { r: b, op: edit });
            }
            steps.push(Step::Repl { from: b, to: a });
            steps.push(Step::Repl { from: a, to: b });
            for (i, op) in post.into_iter().enumerate() {
                steps.push(Step::Do { r: (i as u8 + 1) % n, op });
            }
            rh::History { replicas: n, synced, steps }
        })
        .boxed()
}

/// Relay scenarios on three replicas: the deletion (recycled, or already a tombstone) reaches the third
/// replica only THROUGH an intermediate one (c -> b -> a), never directly, optionally with an edit of
/// the entry on the far replica. Added after a seeded change (a received tombstone was not registered in
/// the consumer's update vector, so it was never relayed) went unnoticed by two-party scenarios.
fn arb_relay() -> BoxedStrategy<rh::History> {
    use vf_world::ops::{AttrK, Ref};
    let r = RECYCLEBIN_MAX_AGE as u32;
    let target = prop_oneof![(0u8..2).prop_map(Ref::P), (0u8..2).prop_map(Ref::G)];
    (
        target,
        proptest::sample::select(vec![0u32, 1, r + 1, 2 * r]),
        any::<bool>(), // far replica edits the entry meanwhile
        any::<bool>(), // intermediate pulls twice
        proptest::bool::weighted(0.85),
        proptest::sample::select(vec![[2u8, 1, 0], [0, 1, 2], [1, 2, 0], [2, 0, 1]]),
    )
        .prop_map(|(u, wait, far_edit, twice, synced, [c, b, a])| {
            let mut steps: Vec<Step> = vec![
                Step::Do { r: 0, op: Op::CreatePerson { i: 0, name: 0 } },
                Step::Do { r: 0, op: Op::CreatePerson { i: 1, name: 1 } },
                Step::Do { r: 0, op: Op::CreateGroup { i: 0, name: 4, members: vec![Ref::P(1)] } },
                Step::Do { r: 0, op: Op::CreateGroup { i: 1, name: 5, members: vec![] } },
                Step::Repl { from: 0, to: 1 },
                Step::Repl { from: 0, to: 2 },
                // every replica has written something, so all three appear in the update vectors
                Step::Do { r: 1, op: Op::SetAttr { t: Ref::P(1), attr: AttrK::Description, vals: vec![0] } },
                Step::Do { r: 2, op: Op::SetAttr { t: Ref::P(1), attr: AttrK::LegalName, vals: vec![1] } },
                Step::Repl { from: 1, to: 0 },
                Step::Repl { from: 2, to: 0 },
                Step::Repl { from: 0, to: 1 },
                Step::Repl { from: 0, to: 2 },
            ];
            steps.push(Step::Do { r: c, op: Op::Delete { t: u } });
            if wait > 0 {
                steps.push(Step::Do { r: c, op: Op::Advance { secs: wait } });
                steps.push(Step::Do { r: c, op: Op::PurgeRecycled });
            }
            if far_edit {
                steps.push(Step::Do { r: a, op: Op::SetAttr { t: u, attr: AttrK::Description, vals: vec![2] } });
            }
            steps.push(Step::Repl { from: c, to: b });
            if twice {
                steps.push(Step::Repl { from: c, to: b });
            }
            steps.push(Step::Repl { from: b, to: a });
            rh::History { replicas: 3, synced, steps }
        })
        .boxed()
}

// ---------------------------------------------------------------------------------------------
// independent range model (decision table written from the property text of C09/C10)

#[derive(Debug, PartialEq, Eq, Clone, Copy)]
enum Predict {
    Supply,
    Nothing,
    Refresh,
    Unwilling,
}

type Ranges = BTreeMap<Uuid, (Duration, Duration)>;

fn predict(consumer: &Ranges, supplier: &Ranges) -> Predict {
    let mut common = 0;
    let mut lag = false;
    let mut adv = false;
    let mut supply = false;
    for (u, (smin, smax)) in supplier {
        match consumer.get(u) {
            None => supply = true,
            Some((cmin, cmax)) => {
                common += 1;
                if cmax < smin {
                    lag = true;
                } else if smax < cmin {
                    adv = true;
                } else if cmax < smax {
                    supply = true;
                }
            }
        }
    }
    if common == 0 {
        return Predict::Unwilling;
    }
    match (lag, adv) {
        (false, false) => {
            if supply {
                Predict::Supply
            } else {
                Predict::Nothing
            }
        }
        (true, false) => Predict::Refresh,
        _ => Predict::Unwilling,
    }
}

async fn supplier_ranges(cl: &Cluster, i: usize) -> Ranges {
    let mut r = cl.nodes[i].qs.read().await.expect("read");
    hrepl::filtered_ruv_range(&mut r)
        .unwrap_or_default()
        .into_iter()
        .map(|(k, v)| (k, (v.ts_min, v.ts_max)))
        .collect()
}

// ---------------------------------------------------------------------------------------------

const SIG_CLASS_LWW: &str = "recycled entry made live again by a concurrent class edit with a later change id (last-writer-wins on the class attribute)";
const SIG_RESURRECT: &str = "a uuid this replica held as deleted became live again through replication";
const SIG_FINAL_LIVE: &str = "a deleted uuid is live on a replica after a full mesh with mandated refreshes";
const SIG_STALE_DELETE: &str = "a delete stamped with a change id lower than the class change id already received is lost on the other replicas (lagging clock; received ids do not advance the local id clock)";
const SIG_AGED_OUT: &str = "a deletion nobody pulled for longer than the changelog window is never offered again and no refresh is demanded (idle server id filtered from the supplier's update vector)";
const SIG_PREDICT: &str = "replication answer differs from the update-vector range model";
const SIG_APPLY: &str = "consumer failed to apply a supplied change set";

fn deleted_status(d: &Dump, u: &Uuid) -> Option<Status> {
    d.get(u).map(|e| e.status)
}

async fn run(c: &rh::History) -> Outcome {
    let n = c.replicas.clamp(2, 3) as usize;
    let mut cl = Cluster::new(n).await;
    let mut ca = rh::Causal::new(n);
    let mut log = CaseLog::new();
    // uuids deleted by a committed Delete; creates per uuid (a second successful create makes the
    // uuid ambiguous: excluded)
    let mut deleted: BTreeSet<Uuid> = BTreeSet::new();
    let mut creates: BTreeMap<Uuid, usize> = BTreeMap::new();
    let mut excluded: BTreeSet<Uuid> = BTreeSet::new();
    // per replica: uuids it has held as not-live (recycled/tombstone) after a delete
    let mut knows_deleted: Vec<BTreeSet<Uuid>> = vec![BTreeSet::new(); n];
    let mut known: Option<(String, String)> = None;
    let mut stale_known: Option<String> = None;
    let mut aged_known: Option<String> = None;
    let mut predicted_refresh = 0;
    let mut predicted_unwilling = 0;
    let mut supplied = 0;

    macro_rules! check_consumer {
        ($to:expr, $before:expr, $supplier:expr, $what:expr) => {{
            let after = cl.dump($to).await;
            for u in deleted.iter().filter(|u| !excluded.contains(*u)) {
                let st = deleted_status(&after, u);
                if st == Some(Status::Live) && knows_deleted[$to].contains(u) {
                    // classify
                    let b: Option<&vf_world::dump::EntryDump> = $before.get(u);
                    let s: Option<&vf_world::dump::EntryDump> = $supplier.get(u);
                    let class_lww = match (b, s) {
                        (Some(b), Some(s)) => {
                            b.status == Status::Recycled
                                && s.status == Status::Live
                                && match (b.changes.get("class"), s.changes.get("class")) {
                                    (Some(cb), Some(cs)) => cs > cb,
                                    _ => false,
                                }
                        }
                        _ => false,
                    };
                    let msg = format!(
                        "{}: uuid {u} was {:?} on replica {} (class cid {:?}) and is Live afterwards; supplier held it as {:?} (class cid {:?})",
                        $what,
                        b.map(|e| e.status),
                        $to,
                        b.and_then(|e| e.changes.get("class")),
                        s.map(|e| e.status),
                        s.and_then(|e| e.changes.get("class"))
                    );
                    if class_lww {
                        if known.is_none() {
                            known = Some((SIG_CLASS_LWW.to_string(), msg));
                        }
                        // the marker is gone on this replica now; forget so that one root cause is reported once
                        knows_deleted[$to].remove(u);
                    } else {
                        log.fail(SIG_RESURRECT, msg);
                    }
                }
                if matches!(st, Some(Status::Recycled) | Some(Status::Tombstone)) {
                    knows_deleted[$to].insert(*u);
                }
            }
        }};
    }

    for (i, s) in c.steps.iter().enumerate() {
        if c.synced {
            rh::sync_clock(&mut cl, rh::acting_replica(s, n));
        }
        match s {
            Step::Do { r, op } => {
                let rep = *r as usize % n;
                let res = ops::apply(&mut cl.nodes[rep], op).await;
                if res.is_ok() && repl::is_write(op) {
                    ca.wrote(rep, op);
                    match op {
                        Op::Delete { t } => {
                            deleted.insert(t.uuid());
                            knows_deleted[rep].insert(t.uuid());
                        }
                        Op::CreatePerson { .. } | Op::CreateService { .. } | Op::CreateGroup { .. } => {
                            for t in rh::targets(op) {
                                let e = creates.entry(t.uuid()).or_default();
                                *e += 1;
                                if *e > 1 || deleted.contains(&t.uuid()) {
                                    excluded.insert(t.uuid());
                                }
                            }
                        }
                        _ => {}
                    }
                }
            }
            Step::Repl { from, to } => {
                let (f, t) = (*from as usize % n, *to as usize % n);
                if f == t {
                    continue;
                }
                let cons: Ranges = cl.ruv(t).await;
                let supp = supplier_ranges(&cl, f).await;
                let want = predict(&cons, &supp);
                let before = cl.dump(t).await;
                let sdump = cl.dump(f).await;
                let got = cl.replicate(f, t).await;
                let ok = match (&got, want) {
                    (ReplResult::Applied, Predict::Supply) => true,
                    (ReplResult::NoChanges, Predict::Nothing) => true,
                    (ReplResult::RefreshRequired, Predict::Refresh) => true,
                    (ReplResult::Unwilling, Predict::Unwilling) => true,
                    (ReplResult::ConsumerError(e), _) => {
                        log.fail(SIG_APPLY, format!("step {i} {s:?}: {e}"));
                        true
                    }
                    (ReplResult::SupplierError(e), _) => {
                        log.fail("supplier failed to provide changes", format!("step {i} {s:?}: {e}"));
                        true
                    }
                    _ => false,
                };
                if !ok {
                    log.fail(
                        SIG_PREDICT,
                        format!("step {i} {s:?}: model says {want:?}, server answered {got:?}; consumer ranges {cons:?}; supplier (trim-filtered) ranges {supp:?}"),
                    );
                }
                match want {
                    Predict::Refresh => predicted_refresh += 1,
                    Predict::Unwilling => predicted_unwilling += 1,
                    Predict::Supply => supplied += 1,
                    Predict::Nothing => {}
                }
                if got == ReplResult::Applied {
                    ca.replicated(f, t);
                    check_consumer!(t, before, sdump, format!("step {i} {s:?}"));
                }
            }
            Step::Refresh { from, to } => {
                let (f, t) = (*from as usize % n, *to as usize % n);
                if f == t {
                    continue;
                }
                let before = cl.dump(t).await;
                let sdump = cl.dump(f).await;
                match cl.refresh(f, t).await {
                    Ok(()) => {
                        ca.refreshed(f, t);
                        // a refresh replaces the consumer's knowledge by the supplier's
                        // deletions only the consumer knew are legitimately dropped together with all its local state
                        let sknows = knows_deleted[f].clone();
                        knows_deleted[t] = knows_deleted[t].intersection(&sknows).copied().collect();
                        check_consumer!(t, before, sdump, format!("step {i} {s:?}"));
                    }
                    Err(e) => {
                        // signature carries the error kind (text up to the first string payload)
                        let d = format!("{e:?}");
                        let kind = d.split('"').next().unwrap_or("").trim_end_matches('(').to_string();
                        log.fail(format!("refresh failed: {kind}"), format!("step {i} {s:?}: {e:?}"))
                    }
                }
            }
        }
        if log.failed() {
            break;
        }
    }

    // full mesh with mandated refreshes (a consumer told to refresh is refreshed from that supplier)
    let mut synced = false;
    if !log.failed() {
        if c.synced {
            for i in 0..n {
                rh::sync_clock(&mut cl, i);
            }
        }
        'mesh: for _round in 0..10 {
            let mut changed = false;
            for f in 0..n {
                for t in 0..n {
                    if f == t {
                        continue;
                    }
                    if c.synced {
                        rh::sync_clock(&mut cl, t);
                    }
                    let before = cl.dump(t).await;
                    let sdump = cl.dump(f).await;
                    match cl.replicate(f, t).await {
                        ReplResult::Applied => {
                            changed = true;
                            check_consumer!(t, before, sdump, format!("final mesh {f}->{t}"));
                        }
                        ReplResult::RefreshRequired => {
                            if cl.refresh(f, t).await.is_ok() {
                                changed = true;
                                knows_deleted[t] = knows_deleted[t].intersection(&knows_deleted[f].clone()).copied().collect();
                                check_consumer!(t, before, sdump, format!("final mesh mandated refresh {f}->{t}"));
                                log.class("mandated-refresh-performed");
                            }
                        }
                        ReplResult::ConsumerError(e) => log.fail(SIG_APPLY, format!("during the final mesh: {e}")),
                        _ => {}
                    }
                    if log.failed() {
                        break 'mesh;
                    }
                }
            }
            if !changed {
                break;
            }
        }
        // one more pass: everything must answer "no changes"
        synced = !log.failed();
        for f in 0..n {
            for t in 0..n {
                if c.synced {
                    rh::sync_clock(&mut cl, t);
                }
                if synced && f != t && cl.replicate(f, t).await != ReplResult::NoChanges {
                    synced = false;
                }
            }
        }
        if synced {
            let mut dumps = Vec::new();
            for i in 0..n {
                dumps.push(cl.dump(i).await);
            }
            for u in deleted.iter().filter(|u| !excluded.contains(*u)) {
                // the deletion must still be known somewhere (it can be dropped, with all other local
                // state, when the only replica that knew it was overwritten by a refresh)
                if !knows_deleted.iter().any(|k| k.contains(u)) {
                    log.class("deletion-dropped-by-refresh-of-its-only-holder");
                    continue;
                }
                let sts: Vec<Option<Status>> = dumps.iter().map(|d| deleted_status(d, u)).collect();
                if sts.contains(&Some(Status::Live)) && known.is_none() {
                    // known root cause shared with C08: the deleting replica stamped the recycle marker with a
                    // change id LOWER than the class change id it had already received (its clock is behind),
                    // so the delete wins locally and loses everywhere else.
                    let mut stale = false;
                    for (j, dj) in dumps.iter().enumerate() {
                        let Some(ej) = dj.get(u) else { continue };
                        if ej.status != Status::Recycled {
                            continue;
                        }
                        let Some(cj) = ej.changes.get("class") else { continue };
                        let own = {
                            let now = cl.nodes[j].now();
                            let w = cl.nodes[j].qs.write(now).await.expect("write");
                            hrepl::server_uuid(&w).to_string()
                        };
                        for di in dumps.iter() {
                            if let Some(ei) = di.get(u) {
                                if ei.status == Status::Live {
                                    if let Some(ci) = ei.changes.get("class") {
                                        if cj < ci && cj.ends_with(&own) {
                                            stale = true;
                                        }
                                    }
                                }
                            }
                        }
                    }
                    let msg = format!("uuid {u}: statuses per replica after the final mesh {sts:?}; class change ids {:?}", dumps.iter().map(|d| d.get(u).and_then(|e| e.changes.get("class").cloned())).collect::<Vec<_>>());
                    // second known root cause: the deletion is NEWER than what the live replicas hold (it would win),
                    // but it is older than the deleting replica's own changelog window: nobody pulled from that
                    // replica for longer than the window, its own server id has been filtered out of the update
                    // vector it presents as a supplier, and the change is never offered again; no refusal either.
                    let mut aged = false;
                    for (j, dj) in dumps.iter().enumerate() {
                        let Some(ej) = dj.get(u) else { continue };
                        if ej.status != Status::Recycled && ej.status != Status::Tombstone {
                            continue;
                        }
                        let cj = if ej.status == Status::Tombstone { Some(&ej.at) } else { ej.changes.get("class") };
                        let Some(cj) = cj else { continue };
                        let newer_than_live = dumps.iter().all(|di| match di.get(u) {
                            Some(ei) if ei.status == Status::Live => ei.changes.get("class").map(|ci| ci < cj).unwrap_or(false),
                            _ => true,
                        });
                        let ts_nanos: u128 = cj.split('-').next().and_then(|t| t.parse().ok()).unwrap_or(u128::MAX);
                        let now_nanos = cl.nodes[j].now().as_nanos();
                        if newer_than_live && ts_nanos + (CHANGELOG_MAX_AGE as u128) * 1_000_000_000 < now_nanos {
                            aged = true;
                        }
                    }
                    // third: the class-edit finding as it ends for ACCOUNTS: the later class edit wins the class
                    // attribute everywhere (same class change id on all replicas); the replica that had deleted the
                    // entry parks the merge as a conflict with validate_repl's local, unstamped marker, the editing
                    // replica keeps it live.
                    let class_edit_conflict = dumps.iter().any(|dj| {
                        dj.get(u).map(|ej| ej.status == Status::Conflict).unwrap_or(false)
                            && dumps.iter().any(|di| match (di.get(u), dj.get(u)) {
                                (Some(ei), Some(ej)) => ei.status == Status::Live && ei.changes.get("class").is_some() && ei.changes.get("class") == ej.changes.get("class"),
                                _ => false,
                            })
                    });
                    if class_edit_conflict {
                        if known.is_none() {
                            known = Some((SIG_CLASS_LWW.to_string(), msg.clone()));
                        }
                    } else if stale {
                        if stale_known.is_none() {
                            stale_known = Some(msg);
                        }
                    } else if aged {
                        if aged_known.is_none() {
                            aged_known = Some(msg);
                        }
                    } else {
                        log.fail(SIG_FINAL_LIVE, msg);
                    }
                }
            }
        }
    }

    log.class(format!("replicas-{n}"));
    log.class(if c.synced { "clocks:synchronised" } else { "clocks:skewed" });
    if synced {
        log.class("final:synced");
    } else {
        log.class("final:not-synced(no final claim)");
    }
    if !deleted.is_empty() {
        log.class("has-delete");
    }
    if !excluded.is_empty() {
        log.class("has-excluded-uuid(recreated or created twice)");
    }
    if predicted_refresh > 0 {
        log.class("model:refresh-required");
    }
    if predicted_unwilling > 0 {
        log.class("model:unwilling");
    }
    if supplied > 0 {
        log.class("model:supply");
    }
    let conc_delete = ca.labels.iter().any(|l| l.starts_with("concurrent:") && l.contains("delete") && l != "concurrent:delete+delete");
    if conc_delete {
        log.class("delete-concurrent-with-edit");
    }
    if ca.labels.contains("concurrent:class+delete") {
        log.class("delete-concurrent-with-class-edit");
    }
    let labels = ops::labels(&c.steps.iter().filter_map(|s| if let Step::Do { op, .. } = s { Some(op.clone()) } else { None }).collect::<Vec<_>>());
    for l in ["purge-recycled", "purge-tombstones"] {
        if labels.contains(l) {
            log.class(l);
        }
    }
    if conc_delete || predicted_refresh > 0 {
        log.nontrivial();
    }
    if let Some(msg) = aged_known {
        log.class("known:unpulled-deletion-aged-out");
        log.fail(SIG_AGED_OUT, msg);
    }
    if let Some(msg) = stale_known {
        log.class("known:delete-stamped-below-received-id");
        log.fail(SIG_STALE_DELETE, msg);
    }
    if let Some((sig, msg)) = known {
        log.class("known:class-edit-revives");
        log.fail(sig, msg);
    }
    log.finish()
}

fn main() {
    let cx = Check::from_args("C09", "exploration");
    cx.rule(
        "random histories on 2-3 replicas: population prefix, then 12-40 (thorough 25-80) steps weighted to delete, purge_recycled, purge_tombstones, per-replica clock advances drawn from {1 s, 1 min, 1 h, 1 d, window/2, RECYCLEBIN_MAX_AGE-1/0/+1, CHANGELOG_MAX_AGE-1/0/+1, 2x window+5}, \
         value/class(posix)/member/rename edits on other replicas, random incremental replication and refresh, no revive; \
         per replication step the answer is compared with an independent range decision table fed with both update-vector ranges, and a uuid the consumer held as deleted must not be live afterwards; \
         after a full mesh with mandated refreshes (only claimed when every pair then answers 'no changes') no deleted uuid is live anywhere. \
         non-trivial = a delete concurrent with an edit of the same uuid on another replica, or a replication attempt for which the model demands a refresh; distinct by hash of the history",
    );
    cx.assume("the update-vector ranges themselves are read from the servers (current range of the consumer, trim-filtered range of the supplier); the decision on them is recomputed independently");
    cx.assume("a uuid that was successfully created twice or re-created after its delete is excluded (a new entry is not a resurrection); deletions known only to a replica that is overwritten by a refresh are dropped with the rest of its local state");
    let n = cx.tier.pick(320, 8_000);
    let len = cx.tier.pick(12..40usize, 25..80usize);
    cx.prop("histories", PropCfg::new(n).shrink(250), || arb_case(len.clone()), srv::runtime, |rt, c| rt.block_on(run(c)));
    let n2 = cx.tier.pick(160, 4_000);
    cx.prop("tombstone-race", PropCfg::new(n2).shrink(250), arb_race, srv::runtime, |rt, c| rt.block_on(run(c)));
    let n3 = cx.tier.pick(100, 2_500);
    cx.prop("tombstone-relay", PropCfg::new(n3).shrink(250), arb_relay, srv::runtime, |rt, c| rt.block_on(run(c)));
    gx::fail_on_harness_errors(&cx);
    cx.require_class("delete-concurrent-with-edit", 30);
    cx.require_class("model:refresh-required", 12);
    cx.require_class("purge-tombstones", 50);
    cx.require_class("final:synced", 60);
    cx.finish();
}
