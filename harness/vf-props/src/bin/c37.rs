//! C37 — Credential reset links are single use.
//!
//! Bounded-exhaustive interleavings of {exchange, commit / cancel of the latest or of an earlier
//! session (each commit carries a real, distinct password change), advance past the link TTL} for
//! one reset link, and random interleavings over two links (same or different accounts), against
//! the real server. Reference model per link: Valid | InProgress(session) | Consumed, plus expiry.
//!
//! Oracle (one-directional, from the property):
//!  * an exchange succeeds only if the link has not been consumed by a commit and has not expired;
//!  * a commit succeeds only for the session of the LATEST successful exchange of a link that is
//!    still in progress (so a superseded, cancelled or already committed session cannot commit);
//!  * hence at most one committed credential change per link — additionally observed on the stored
//!    credential: it only ever changes in a successful commit, to that session's password.
use kanidm_lib_crypto::DbPasswordV1;
use kanidmd_lib::constants::{UUID_IDM_ADMIN, UUID_IDM_ALL_PERSONS};
use kanidmd_lib::idm::credupdatesession::{CredentialUpdateIntentToken, CredentialUpdateSessionToken, InitCredentialUpdateIntentEvent};
use kanidmd_lib::entry::EntrySealedCommitted;
use kanidmd_lib::prelude::*;
use kanidmd_lib::verif_hooks::ident;
use proptest::prelude::*;
use serde::{Deserialize, Serialize};
use std::time::Duration;
use vf_core::{CaseLog, Check, Outcome, PropCfg};
use vf_world::g_auth::{uuid_filter, PersonSpec, World};
use vf_world::{pop, srv};

const OLD_PW: &str = "0riginal Passw0rd before any reset";

#[derive(Debug, Clone, Copy, Serialize, Deserialize, PartialEq, Eq)]
enum Ev {
    /// exchange link `l`
    Exchange(u8),
    /// set a fresh password and commit on the `back`-th most recent session of link `l` (0 = latest)
    Commit(u8, u8),
    Cancel(u8, u8),
    /// advance the clock by this many seconds
    Adv(u32),
    /// advance the clock to one second after the expiry of link `l`
    AdvPastTtl(u8),
}

#[derive(Debug, Clone, Serialize, Deserialize)]
struct Case {
    /// number of links (1 or 2); with two links: on the same account or on two accounts
    links: u8,
    same_account: bool,
    evs: Vec<Ev>,
    /// link lifetime: false = 1800 s (longer than the 900 s update session), true = 300 s (the
    /// minimum; shorter than a session, so a session can outlive its link)
    #[serde(default)]
    short_ttl: bool,
}

struct Thread {
    rt: tokio::runtime::Runtime,
    w: World,
    clock: u64,
    next_person: u32,
}

fn setup() -> Thread {
    let rt = srv::runtime();
    let w = rt.block_on(async {
        let w = World::new().await;
        // password-only credentials must be committable: drop the default MFA requirement (as the
        // repository's own credential update tests do)
        w.write(srv::ct(1), |t| {
            t.qs_write
                .internal_modify(&uuid_filter(UUID_IDM_ALL_PERSONS), &ModifyList::new_purge(Attribute::CredentialTypeMinimum))
        })
        .await
        .expect("setup");
        w
    });
    Thread { rt, w, clock: 100, next_person: 0 }
}

#[derive(Debug, Clone, PartialEq)]
enum LState {
    Valid,
    /// index into sessions of the link
    InProgress(usize),
    Consumed,
}

struct Link {
    person: u32,
    token: CredentialUpdateIntentToken,
    expiry_secs: u64,
    state: LState,
    sessions: Vec<(CredentialUpdateSessionToken, String)>,
    commits: u32,
}

fn stored(e: &EntrySealedCommitted) -> Option<DbPasswordV1> {
    e.get_ava_single_credential(Attribute::PrimaryCredential)
        .and_then(|c| c.password_ref().ok())
        .map(|p| p.to_dbpasswordv1())
}

fn check(th: &mut Thread, case: &Case) -> Outcome {
    let mut log = CaseLog::new();
    let nlinks = case.links.clamp(1, 2) as usize;
    let persons: Vec<u32> = if nlinks == 2 && !case.same_account {
        vec![th.next_person, th.next_person + 1]
    } else {
        vec![th.next_person; nlinks]
    };
    th.next_person += 2;
    th.clock += 10_000;
    let mut now = th.clock;
    let w = &th.w;
    let r: Result<(), String> = th.rt.block_on(async {
        // ---- arrange: fresh persons, one link each
        let mut created = Vec::new();
        for p in &persons {
            if created.contains(p) {
                continue;
            }
            created.push(*p);
            w.create_person(srv::ct(now), &PersonSpec { idx: *p, password: Some(OLD_PW.into()), ..Default::default() })
                .await
                .map_err(|e| format!("create person: {e:?}"))?;
        }
        now += 1;
        let mut links: Vec<Link> = Vec::new();
        for p in &persons {
            let target = pop::person_uuid(*p);
            let ct = srv::ct(now);
            let token = w
                .write(ct, |t| {
                    let ae = t.qs_write.internal_search_uuid(UUID_IDM_ADMIN)?;
                    t.init_credential_update_intent(
                        &InitCredentialUpdateIntentEvent::new(ident::user_readwrite(ae), target, Some(Duration::from_secs(if case.short_ttl { 300 } else { 1800 }))),
                        ct,
                    )
                })
                .await
                .map_err(|e| format!("create link: {e:?}"))?;
            let expiry_secs = token.expiry_time.unix_timestamp() as u64;
            links.push(Link { person: *p, token, expiry_secs, state: LState::Valid, sessions: Vec::new(), commits: 0 });
            now += 1;
        }
        // what the stored credential of each person is expected to verify
        let mut current_pw: Vec<(u32, String)> = created.iter().map(|p| (*p, OLD_PW.to_string())).collect();
        let read_stored = |p: u32| async move {
            let mut r = w.idms.proxy_read().await.map_err(|e| format!("{e:?}"))?;
            let e = r.qs_read.internal_search_uuid(pop::person_uuid(p)).map_err(|e| format!("{e:?}"))?;
            Ok::<_, String>((stored(&e), e))
        };
        let mut pw_counter = 0u32;
        let mut exchanges_ok = 0;
        let mut superseded_commit_tried = false;
        let mut exchange_after_consume_tried = false;
        let mut exchange_after_expiry_tried = false;
        let mut commit_ok_total = 0;
        for (i, ev) in case.evs.iter().enumerate() {
            now += 1;
            let ct = srv::ct(now);
            let abs = ct.as_secs();
            // snapshot of every person's stored credential before the event
            let mut before = Vec::new();
            for p in &created {
                before.push(read_stored(*p).await?.0);
            }
            let mut committed: Option<(usize, String)> = None;
            match ev {
                Ev::Adv(s) => {
                    now += *s as u64;
                }
                Ev::AdvPastTtl(l) => {
                    let l = *l as usize % nlinks;
                    let t = links[l].expiry_secs + 1 - srv::T0_SECS;
                    if t > now {
                        now = t;
                    }
                }
                Ev::Exchange(l) => {
                    let l = *l as usize % nlinks;
                    let expired = abs >= links[l].expiry_secs;
                    let tok = links[l].token.clone();
                    let res = w.write(ct, |t| t.exchange_intent_credential_update(tok.into(), ct)).await;
                    if links[l].state == LState::Consumed {
                        exchange_after_consume_tried = true;
                    }
                    if expired {
                        exchange_after_expiry_tried = true;
                    }
                    match res {
                        Ok((st, _)) => {
                            if links[l].state == LState::Consumed {
                                log.fail(
                                    "reset link exchanged again after its change was committed",
                                    format!("event {i} {ev:?}: link {l} was consumed by a commit, exchange succeeded"),
                                );
                            } else if expired {
                                log.fail(
                                    "reset link exchanged after it expired",
                                    format!("event {i} {ev:?}: now {abs} s, link expired at {} s", links[l].expiry_secs),
                                );
                            }
                            exchanges_ok += 1;
                            links[l].sessions.push((st, String::new()));
                            let idx = links[l].sessions.len() - 1;
                            links[l].state = LState::InProgress(idx);
                        }
                        Err(_) => {
                            log.class("exchange-refused");
                        }
                    }
                }
                Ev::Commit(l, back) | Ev::Cancel(l, back) => {
                    let l = *l as usize % nlinks;
                    let n = links[l].sessions.len();
                    if n == 0 {
                        continue;
                    }
                    let sidx = n - 1 - (*back as usize % n);
                    let st = CredentialUpdateSessionToken { token_enc: links[l].sessions[sidx].0.token_enc.clone() };
                    let is_current = links[l].state == LState::InProgress(sidx);
                    if matches!(ev, Ev::Commit(..)) {
                        if !is_current {
                            superseded_commit_tried = true;
                        }
                        pw_counter += 1;
                        let pw = format!("Zq7#mVp2$Lr9@Kt4 {pw_counter} wX3&bN8 l{l} s{sidx}");
                        let set = {
                            let cu = w.idms.cred_update_transaction().await.map_err(|e| format!("{e:?}"))?;
                            cu.credential_primary_set_password(&st, ct, &pw).map(|_| ())
                        };
                        if set.is_ok() {
                            links[l].sessions[sidx].1 = pw.clone();
                        }
                        let res = w.write(ct, |t| t.commit_credential_update(&st, ct)).await;
                        if res.is_ok() {
                            commit_ok_total += 1;
                            if !is_current {
                                let sig = match links[l].state {
                                    LState::Consumed => "second commit through a reset link whose change was already committed",
                                    LState::InProgress(_) => "commit by a session that a later exchange of the same link superseded",
                                    LState::Valid => "commit by a session that was cancelled (link back to valid)",
                                };
                                log.fail(sig, format!("event {i} {ev:?}: link {l} state {:?}, session {sidx} committed", links[l].state));
                            }
                            links[l].commits += 1;
                            if links[l].commits > 1 {
                                log.fail(
                                    "more than one committed credential change through one reset link",
                                    format!("event {i} {ev:?}: link {l} now has {} commits", links[l].commits),
                                );
                            }
                            links[l].state = LState::Consumed;
                            committed = Some((l, links[l].sessions[sidx].1.clone()));
                        } else {
                            log.class("commit-refused");
                        }
                    } else {
                        let res = w.write(ct, |t| t.cancel_credential_update(&st, ct)).await;
                        if res.is_ok() {
                            if is_current {
                                links[l].state = LState::Valid;
                            }
                            log.class("cancel-ok");
                        }
                    }
                }
            }
            // ---- the stored credentials only move in a successful commit, and to that password
            for (k, p) in created.iter().enumerate() {
                let (after, entry) = read_stored(*p).await?;
                let changed = after != before[k];
                let expect_change = committed.as_ref().map(|(l, _)| links[*l].person == *p).unwrap_or(false);
                if changed && !expect_change {
                    log.fail(
                        "stored credential changed without a successful commit",
                        format!("event {i} {ev:?}: person {p}"),
                    );
                }
                if let Some((l, pw)) = &committed {
                    if links[*l].person == *p && !pw.is_empty() {
                        if let Some(slot) = current_pw.iter_mut().find(|(q, _)| q == p) {
                            slot.1 = pw.clone();
                        }
                    }
                }
                let want = current_pw.iter().find(|(q, _)| q == p).map(|(_, s)| s.clone()).unwrap_or_default();
                let ok = entry
                    .get_ava_single_credential(Attribute::PrimaryCredential)
                    .and_then(|c| c.password_ref().ok())
                    .and_then(|pw| pw.verify(&want).ok())
                    .unwrap_or(false);
                if !ok {
                    log.fail(
                        "stored credential is not the password of the last successful commit",
                        format!("event {i} {ev:?}: person {p} should verify {want:?}"),
                    );
                }
            }
            if log.failed() {
                break;
            }
        }
        if exchanges_ok >= 2 {
            log.class("link-exchanged-more-than-once");
        }
        if commit_ok_total > 0 {
            log.class("commit-ok");
        }
        if superseded_commit_tried {
            log.class("commit-tried-on-stale-session");
        }
        if exchange_after_consume_tried {
            log.class("exchange-tried-after-commit");
        }
        if exchange_after_expiry_tried {
            log.class("exchange-tried-after-expiry");
        }
        if exchanges_ok >= 1 && (commit_ok_total > 0 || superseded_commit_tried) {
            log.nontrivial();
        }
        Ok(())
    });
    th.clock = th.clock.max(now) + 10;
    if let Err(e) = r {
        return Outcome::discard().class(format!("harness-error:{}", e.chars().take(60).collect::<String>()));
    }
    log.finish()
}

const ALPHA1: [Ev; 7] = [
    Ev::Exchange(0),
    Ev::Commit(0, 0),
    Ev::Commit(0, 1),
    Ev::Cancel(0, 0),
    Ev::Cancel(0, 1),
    Ev::AdvPastTtl(0),
    Ev::Adv(400),
];

fn enum_case(len: usize, mut i: u64) -> Case {
    let short_ttl = i % 2 == 1;
    i /= 2;
    let mut evs = Vec::with_capacity(len);
    for _ in 0..len {
        evs.push(ALPHA1[(i % 7) as usize]);
        i /= 7;
    }
    Case { links: 1, same_account: true, evs, short_ttl }
}

fn arb_case() -> impl Strategy<Value = Case> {
    let ev = prop_oneof![
        5 => (0u8..2).prop_map(Ev::Exchange),
        5 => (0u8..2, 0u8..3).prop_map(|(l, b)| Ev::Commit(l, b)),
        3 => (0u8..2, 0u8..3).prop_map(|(l, b)| Ev::Cancel(l, b)),
        1 => (0u8..2).prop_map(Ev::AdvPastTtl),
        2 => prop_oneof![Just(1u32), Just(299), Just(301), Just(899), Just(901), Just(1799), 0u32..4000].prop_map(Ev::Adv),
    ];
    (any::<bool>(), any::<bool>(), proptest::collection::vec(ev, 4..12)).prop_map(|(same_account, short_ttl, evs)| Case { links: 2, same_account, evs, short_ttl })
}

fn main() {
    let cx = Check::from_args("C37", "exploration");
    cx.rule(
        "bounded-exhaustive: every sequence of length <=4 (quick) / <=5 (thorough), each with a 1800 s and a 300 s link over {exchange, commit latest / previous session (each with a real distinct password change), cancel latest / previous session, advance past the link TTL, +400 s} for one reset link; \
         random sequences of 4..12 events over two links on one or two accounts with clock steps around the session and link TTLs. One server per worker, fresh accounts per case. \
         oracle = per-link reference model (valid / in progress(session) / consumed + expiry), one-directional: exchange ok => not consumed and not expired; commit ok => session of the latest exchange, still in progress; \
         the stored credential changes only in a successful commit and then verifies that session's password. non-trivial = >=1 exchange and (a successful commit or a commit attempt on a stale session); distinct by construction / hash",
    );
    cx.assume("a session exchanged before the link expired may still commit after the link's expiry (the property restricts exchange, not commit, after expiry)");
    let maxlen = cx.tier.pick(4usize, 5usize);
    for len in 1..=maxlen {
        cx.enumerate(&format!("one-link-len{len}"), 2 * 7u64.pow(len as u32), |i| enum_case(len, i), setup, |th, c| check(th, c));
    }
    let n = cx.tier.pick(700, 30_000);
    cx.prop("two-links", PropCfg::new(n).shrink(200), arb_case, setup, |th, c| check(th, c));
    cx.require_class("commit-ok", 200);
    cx.require_class("commit-tried-on-stale-session", 100);
    cx.require_class("exchange-tried-after-commit", 60);
    cx.require_class("exchange-tried-after-expiry", 50);
    cx.require_class("link-exchanged-more-than-once", 100);
    cx.finish();
}
