//! C49 — Accounts outside their validity window cannot authenticate anywhere.
//!
//! One fresh real `IdmServer` per case. A person (primary password, POSIX password, RADIUS
//! secret, application password) and a service account (API tokens) get tokens issued while they
//! are unrestricted, then a generated validity window; afterwards every reachable authentication /
//! credential-release path is asked at generated instants (window edges ± 1 s, inside, outside),
//! as the user and as the documented service identities.
//!
//! Oracle (one-directional, from the property text): a path answering success / secret / token /
//! `valid=true` at an instant strictly before `valid_from` or strictly after `expire` is a
//! violation. Exact edge instants are not judged. In-window successes are counted per path and
//! floors are required so the check cannot pass vacuously.
use kanidmd_lib::constants::*;
use kanidmd_lib::idm::application::GenerateApplicationPasswordEvent;
use kanidmd_lib::idm::credupdatesession::InitCredentialUpdateEvent;
use kanidmd_lib::idm::event::{
    LdapApplicationAuthEvent, LdapAuthEvent, LdapTokenAuthEvent, RadiusAuthTokenEvent, RegenerateRadiusSecretEvent, UnixUserAuthEvent,
    UnixUserTokenEvent,
};
use kanidmd_lib::idm::server::IdmServerTransaction;
use kanidmd_lib::modify::Modify;
use kanidmd_lib::prelude::*;
use kanidmd_lib::value::Value;
use kanidmd_lib::verif_hooks::ident;
use proptest::prelude::*;
use serde::{Deserialize, Serialize};
use vf_core::{CaseLog, Check, Outcome, PropCfg};
use vf_world::g_session::{self as gs, Login, Mech, World};
use vf_world::pop;
use vf_world::srv::{self, ct};

const SETUP: u64 = 100;
/// window edges are drawn from this grid (seconds after the world epoch)
const GRID: [u64; 5] = [2000, 2001, 2600, 3000, 3600];

#[derive(Debug, Clone, Copy, PartialEq, Eq, Serialize, Deserialize)]
enum At {
    /// absolute second (after SETUP)
    Abs(u16),
    VfM1,
    Vf,
    VfP1,
    ExM1,
    Ex,
    ExP1,
    Mid,
}

#[derive(Debug, Clone, Copy, PartialEq, Eq, Serialize, Deserialize)]
enum Asker {
    Internal,
    SelfUser,
    RadiusServer,
    Anonymous,
    Admin,
}

#[derive(Debug, Clone, Copy, PartialEq, Eq, Serialize, Deserialize)]
enum Tok {
    Uat,
    ApiFull,
    ApiCompact,
}

#[derive(Debug, Clone, Copy, PartialEq, Eq, Serialize, Deserialize)]
enum Path {
    Login { privileged: bool },
    Reauth,
    AuthUnix,
    LdapBind,
    LdapTokenBind { tok: Tok },
    LdapApp,
    Radius { asker: Asker },
    UnixToken { asker: Asker },
    UseToken { tok: Tok },
    CredUpdate,
}

#[derive(Debug, Clone, Serialize, Deserialize)]
struct Q {
    path: Path,
    at: At,
}

#[derive(Debug, Clone, Serialize, Deserialize)]
struct Case {
    vf: Option<u8>,
    ex: Option<u8>,
    totp: bool,
    queries: Vec<Q>,
}

fn grid(i: u8) -> u64 {
    GRID[i as usize % GRID.len()]
}

fn resolve(c: &Case, at: At) -> u64 {
    let vf = c.vf.map(grid);
    let ex = c.ex.map(grid);
    let fallback = |d: u64| 2300 + d;
    match at {
        At::Abs(s) => 150 + (s as u64 % 5000),
        At::VfM1 => vf.map(|v| v - 1).unwrap_or(fallback(0)),
        At::Vf => vf.unwrap_or(fallback(1)),
        At::VfP1 => vf.map(|v| v + 1).unwrap_or(fallback(2)),
        At::ExM1 => ex.map(|v| v - 1).unwrap_or(fallback(3)),
        At::Ex => ex.unwrap_or(fallback(4)),
        At::ExP1 => ex.map(|v| v + 1).unwrap_or(fallback(5)),
        At::Mid => match (vf, ex) {
            (Some(a), Some(b)) => (a + b) / 2,
            (Some(a), None) => a + 500,
            (None, Some(b)) => b.saturating_sub(500).max(150),
            (None, None) => fallback(6),
        },
    }
}

#[derive(Debug, Clone, Copy, PartialEq, Eq)]
enum Pos {
    Inside,
    Edge,
    Outside,
}

/// Independent window model straight from the property text.
fn position(c: &Case, t: u64) -> Pos {
    let vf = c.vf.map(grid);
    let ex = c.ex.map(grid);
    let before = vf.map(|v| t < v).unwrap_or(false);
    let after = ex.map(|e| t > e).unwrap_or(false);
    if before || after {
        Pos::Outside
    } else if vf == Some(t) || ex == Some(t) {
        Pos::Edge
    } else {
        Pos::Inside
    }
}

fn arb_at() -> impl Strategy<Value = At> {
    prop_oneof![
        2 => any::<u16>().prop_map(At::Abs),
        2 => Just(At::VfM1),
        1 => Just(At::Vf),
        2 => Just(At::VfP1),
        2 => Just(At::ExM1),
        1 => Just(At::Ex),
        2 => Just(At::ExP1),
        3 => Just(At::Mid),
    ]
}

fn arb_asker() -> impl Strategy<Value = Asker> {
    prop_oneof![
        1 => Just(Asker::Internal),
        2 => Just(Asker::SelfUser),
        4 => Just(Asker::RadiusServer),
        1 => Just(Asker::Anonymous),
        1 => Just(Asker::Admin),
    ]
}

fn arb_tok() -> impl Strategy<Value = Tok> {
    prop_oneof![Just(Tok::Uat), Just(Tok::ApiFull), Just(Tok::ApiCompact)]
}

fn arb_path() -> impl Strategy<Value = Path> {
    prop_oneof![
        2 => any::<bool>().prop_map(|privileged| Path::Login { privileged }),
        2 => Just(Path::Reauth),
        2 => Just(Path::AuthUnix),
        2 => Just(Path::LdapBind),
        2 => arb_tok().prop_map(|tok| Path::LdapTokenBind { tok }),
        2 => Just(Path::LdapApp),
        4 => arb_asker().prop_map(|asker| Path::Radius { asker }),
        2 => arb_asker().prop_map(|asker| Path::UnixToken { asker }),
        3 => arb_tok().prop_map(|tok| Path::UseToken { tok }),
        1 => Just(Path::CredUpdate),
    ]
}

fn arb_case(nq: std::ops::Range<usize>) -> impl Strategy<Value = Case> {
    (
        prop::option::weighted(0.8, 0u8..5),
        prop::option::weighted(0.8, 0u8..5),
        any::<bool>(),
        prop::collection::vec((arb_path(), arb_at()).prop_map(|(path, at)| Q { path, at }), nq),
    )
        .prop_map(|(vf, ex, totp, queries)| Case { vf, ex, totp, queries })
}

struct Fixture {
    w: World,
    person: Uuid,
    svc: Uuid,
    radius_svc: Uuid,
    mech: Mech,
    uat: String,
    /// UAT of a privileged (read-write) login, used to initiate a credential update as the user
    uat_rw: String,
    api_full: String,
    api_compact: String,
    app_pw: String,
}

const PERSON: &str = "vperson";
const APP: &str = "vapp";

async fn setup(c: &Case) -> Result<Fixture, String> {
    let mut w = World::new().await;
    let person = pop::person_uuid(0);
    let svc = pop::service_uuid(0);
    let radius_svc = pop::service_uuid(1);
    let grp = pop::group_uuid(0);
    let app = pop::service_uuid(2);
    let mech = if c.totp { Mech::PasswordTotp } else { Mech::Password };
    let e = |x: OperationError| format!("{x:?}");
    w.create_person(SETUP, person, PERSON, Some(mech), gs::PW).await.map_err(e)?;
    w.enable_posix(SETUP + 1, person, 70001, gs::UNIX_PW).await.map_err(e)?;
    w.create_service(SETUP + 2, svc, "vsvc").await.map_err(e)?;
    w.create_service(SETUP + 3, radius_svc, "vradius").await.map_err(e)?;
    w.add_member(SETUP + 4, UUID_IDM_RADIUS_SERVERS, radius_svc).await.map_err(e)?;
    // RADIUS secret of the person
    w.write(SETUP + 5, |t| {
        t.regenerate_radius_secret(&RegenerateRadiusSecretEvent {
            ident: ident::internal(),
            target: person,
        })
    })
    .await
    .map_err(e)?;
    // allow LDAP binds with the POSIX password
    w.modify(SETUP + 6, UUID_DOMAIN_INFO, vec![Modify::Purged(Attribute::LdapAllowUnixPwBind), Modify::Present(Attribute::LdapAllowUnixPwBind, Value::Bool(true))])
        .await
        .map_err(e)?;
    // application + linked group + application password
    w.write(SETUP + 7, |t| {
        let g = pop::group(grp, "vappgroup", &[person]);
        let mut a = pop::service(app, APP);
        a.add_ava(Attribute::Class, EntryClass::Application.to_value());
        a.add_ava(Attribute::LinkedGroup, Value::Refer(grp));
        t.qs_write.internal_create(vec![g, a])
    })
    .await
    .map_err(e)?;
    let (app_pw, _) = w
        .write(SETUP + 8, |t| t.generate_application_password(&GenerateApplicationPasswordEvent::new_internal(person, app, "l".to_string())))
        .await
        .map_err(e)?;
    // tokens issued while the accounts are unrestricted
    let uat = match w.login(PERSON, mech, gs::PW, false, SETUP + 10).await {
        Login::Success(t) => t,
        o => return Err(format!("setup login failed: {o:?}")),
    };
    let uat_rw = match w.login(PERSON, mech, gs::PW, true, SETUP + 9).await {
        Login::Success(t) => t,
        o => return Err(format!("setup privileged login failed: {o:?}")),
    };
    w.process_delayed(SETUP + 11).await;
    let api_full = w.api_token(SETUP + 12, svc, "full", None, false, false).await.map_err(e)?;
    let api_compact = w.api_token(SETUP + 13, svc, "compact", None, true, true).await.map_err(e)?;
    // now the window, on both accounts
    w.set_window(SETUP + 14, person, c.vf.map(grid), c.ex.map(grid)).await.map_err(e)?;
    w.set_window(SETUP + 15, svc, c.vf.map(grid), c.ex.map(grid)).await.map_err(e)?;
    Ok(Fixture {
        w,
        person,
        svc,
        radius_svc,
        mech,
        uat,
        uat_rw,
        api_full,
        api_compact,
        app_pw,
    })
}

async fn asker_ident(f: &Fixture, a: Asker) -> Result<Identity, OperationError> {
    match a {
        Asker::Internal => Ok(ident::internal()),
        Asker::SelfUser => f.w.ident_of(f.person).await,
        Asker::RadiusServer => f.w.ident_of(f.radius_svc).await,
        Asker::Anonymous => f.w.ident_of(UUID_ANONYMOUS).await,
        Asker::Admin => f.w.ident_of(UUID_ADMIN).await,
    }
}

/// Returns (path label, success?, detail). `success` = the path released what it protects.
async fn ask(f: &Fixture, q: &Q, t: u64) -> (String, bool, String) {
    let now = ct(t);
    match q.path {
        Path::Login { privileged } => {
            let r = f.w.login(PERSON, f.mech, gs::PW, privileged, t).await;
            ("interactive-login".into(), matches!(r, Login::Success(_)), format!("{r:?}").chars().take(60).collect())
        }
        Path::Reauth => {
            // as the front end does: identity from the session token at the same instant, then reauth
            match f.w.token_ident(&f.uat, t).await {
                Ok(id) => {
                    let r = f.w.reauth(id, gs::PW, true, t).await;
                    ("reauth".into(), matches!(r, Login::Success(_)), format!("{r:?}").chars().take(60).collect())
                }
                Err(e) => ("reauth".into(), false, format!("ident: {e:?}")),
            }
        }
        Path::AuthUnix => {
            let mut a = f.w.idms.auth().await.expect("auth txn");
            let ev = UnixUserAuthEvent {
                ident: ident::internal(),
                target: f.person,
                cleartext: gs::UNIX_PW.to_string(),
            };
            let r = a.auth_unix(&ev, now).await;
            ("auth-unix".into(), matches!(r, Ok(Some(_))), format!("{:?}", r.map(|o| o.map(|t| t.valid))))
        }
        Path::LdapBind => {
            let mut a = f.w.idms.auth().await.expect("auth txn");
            let ev = LdapAuthEvent::from_parts(f.person, gs::UNIX_PW.to_string()).expect("lae");
            let r = a.auth_ldap(&ev, now).await;
            let ok = matches!(r, Ok(Some(_)));
            ("ldap-unix-bind".into(), ok, format!("{:?}", r.map(|o| o.is_some())))
        }
        Path::LdapTokenBind { tok } => {
            let token = token_of(f, tok);
            let mut a = f.w.idms.auth().await.expect("auth txn");
            let ev = LdapTokenAuthEvent::from_parts(gs::parse_jws(token).expect("jws")).expect("ev");
            let r = a.token_auth_ldap(&ev, now).await;
            drop(a);
            // The bind answer itself is the authentication result an LDAP client sees (many
            // applications use "bind succeeded" as their password check), so a successful bind is
            // success. The bound session is additionally validated as every LDAP operation does.
            match r {
                Ok(Some(b)) => {
                    let mut rd = f.w.idms.proxy_read().await.expect("read");
                    let v = rd.validate_ldap_session(&b.effective_session, Source::Internal, now);
                    (format!("ldap-token-bind:{tok:?}"), true, format!("bind accepted, bound session {:?}", v.map(|_| ())))
                }
                o => (format!("ldap-token-bind:{tok:?}"), false, format!("{:?}", o.map(|_| ()))),
            }
        }
        Path::LdapApp => {
            let mut a = f.w.idms.auth().await.expect("auth txn");
            let ev = LdapApplicationAuthEvent::new(APP, f.person, f.app_pw.clone()).expect("ev");
            let r = a.application_auth_ldap(&ev, now).await;
            ("ldap-application-bind".into(), matches!(r, Ok(Some(_))), format!("{:?}", r.map(|o| o.is_some())))
        }
        Path::Radius { asker } => {
            let label = format!("radius-token:{asker:?}");
            let id = match asker_ident(f, asker).await {
                Ok(i) => i,
                Err(e) => return (label, false, format!("ident {e:?}")),
            };
            let mut rd = f.w.idms.proxy_read().await.expect("read");
            let r = rd.get_radiusauthtoken(&RadiusAuthTokenEvent { ident: id, target: f.person }, now);
            let ok = matches!(&r, Ok(t) if !t.secret.is_empty());
            (label, ok, format!("{:?}", r.map(|_| "secret released")))
        }
        Path::UnixToken { asker } => {
            let label = format!("unix-user-token:{asker:?}");
            let id = match asker_ident(f, asker).await {
                Ok(i) => i,
                Err(e) => return (label, false, format!("ident {e:?}")),
            };
            let mut rd = f.w.idms.proxy_read().await.expect("read");
            let r = rd.get_unixusertoken(&UnixUserTokenEvent { ident: id, target: f.person }, now);
            let ok = matches!(&r, Ok(t) if t.valid);
            (label, ok, format!("{:?}", r.map(|t| t.valid)))
        }
        Path::UseToken { tok } => {
            let r = f.w.token_ident(token_of(f, tok), t).await;
            (format!("bearer-token:{tok:?}"), r.is_ok(), format!("{:?}", r.map(|_| ())))
        }
        Path::CredUpdate => match f.w.token_ident(&f.uat_rw, t).await {
            Ok(id) => {
                let target = f.person;
                let r = f.w.write(t, move |w| w.init_credential_update(&InitCredentialUpdateEvent::new(id, target), ct(t)).map(|_| ())).await;
                ("credential-update-init".into(), r.is_ok(), format!("{r:?}"))
            }
            Err(e) => ("credential-update-init".into(), false, format!("ident: {e:?}")),
        },
    }
}

fn token_of(f: &Fixture, t: Tok) -> &str {
    match t {
        Tok::Uat => &f.uat,
        Tok::ApiFull => &f.api_full,
        Tok::ApiCompact => &f.api_compact,
    }
}

fn run(rt: &tokio::runtime::Runtime, c: &Case) -> Outcome {
    let mut log = CaseLog::new();
    rt.block_on(async {
        let f = match setup(c).await {
            Ok(f) => f,
            Err(e) => {
                log.fail("harness: fixture setup failed", e);
                return;
            }
        };
        let _ = (&f.svc, &f.w.audit);
        let mut qs: Vec<(u64, &Q)> = c.queries.iter().map(|q| (resolve(c, q.at), q)).collect();
        // write transactions (credential-update) want a non-decreasing clock
        qs.sort_by_key(|(t, _)| *t);
        let (mut n_out, mut n_in) = (0, 0);
        for (t, q) in qs {
            let pos = position(c, t);
            let (label, ok, detail) = ask(&f, q, t).await;
            match pos {
                Pos::Outside => {
                    n_out += 1;
                    log.class(format!("outside:{label}"));
                    if ok {
                        let side = if c.vf.map(grid).map(|v| t < v).unwrap_or(false) { "before valid_from" } else { "after expire" };
                        log.fail(
                            format!("{label} succeeded outside the validity window"),
                            format!(
                                "t={t} ({side}) window=[{:?},{:?}] query={q:?} -> {detail}",
                                c.vf.map(grid),
                                c.ex.map(grid)
                            ),
                        );
                    }
                }
                Pos::Edge => log.class("edge-instant (not judged)"),
                Pos::Inside => {
                    n_in += 1;
                    if ok {
                        log.class(format!("in-window-success:{label}"));
                    } else {
                        log.class(format!("in-window-refused:{label}"));
                    }
                }
            }
        }
        if n_out > 0 && n_in > 0 {
            log.nontrivial();
        }
        match (c.vf, c.ex) {
            (None, None) => log.class("window:open"),
            (Some(_), None) => log.class("window:from-only"),
            (None, Some(_)) => log.class("window:expire-only"),
            (Some(a), Some(b)) if grid(a) > grid(b) => log.class("window:empty"),
            _ => log.class("window:bounded"),
        }
    });
    log.finish()
}

// ------------------------------------------------------------------------------------------------
// The shipped anonymous account: a token issued while it was unrestricted must stop working once
// the account is given a window that excludes "now" (the documented way to switch anonymous off),
// and new anonymous logins must be refused. (Added after a seeded change that exempted anonymous
// sessions from the window check went unnoticed.)

#[derive(Debug, Clone, Serialize, Deserialize)]
struct AnonCase {
    vf: Option<u8>,
    ex: Option<u8>,
    ats: Vec<At>,
}

fn run_anon(rt: &tokio::runtime::Runtime, a: &AnonCase) -> Outcome {
    let mut log = CaseLog::new();
    let c = Case {
        vf: a.vf,
        ex: a.ex,
        totp: false,
        queries: vec![],
    };
    rt.block_on(async {
        let mut w = World::new().await;
        let tok = match w.login("anonymous", Mech::Anonymous, "", false, SETUP + 10).await {
            Login::Success(t) => t,
            o => {
                log.fail("harness: anonymous login failed on the unrestricted account", format!("{o:?}"));
                return;
            }
        };
        w.process_delayed(SETUP + 11).await;
        if let Err(e) = w.set_window(SETUP + 20, UUID_ANONYMOUS, c.vf.map(grid), c.ex.map(grid)).await {
            log.fail("harness: cannot set the window on anonymous", format!("{e:?}"));
            return;
        }
        let (mut n_in, mut n_out) = (0, 0);
        for at in &a.ats {
            let t = resolve(&c, *at);
            // the anonymous token itself lives for a bounded time; stay inside it
            let pos = position(&c, t);
            let used = w.token_ident(&tok, t).await;
            let fresh = w.login("anonymous", Mech::Anonymous, "", false, t).await;
            let fresh_ok = matches!(fresh, Login::Success(_));
            match pos {
                Pos::Outside => {
                    n_out += 1;
                    log.class("outside:anonymous");
                    if used.is_ok() {
                        log.fail(
                            "bearer-token:anonymous-uat succeeded outside the validity window",
                            format!("t={t} window=[{:?},{:?}] token issued at {} still converts to an identity", c.vf.map(grid), c.ex.map(grid), SETUP + 10),
                        );
                    }
                    if fresh_ok {
                        log.fail(
                            "interactive-login:anonymous succeeded outside the validity window",
                            format!("t={t} window=[{:?},{:?}]", c.vf.map(grid), c.ex.map(grid)),
                        );
                    }
                }
                Pos::Edge => log.class("edge-instant (not judged)"),
                Pos::Inside => {
                    n_in += 1;
                    if used.is_ok() {
                        log.class("in-window-success:bearer-token:anonymous-uat");
                    } else {
                        log.class("in-window-refused:bearer-token:anonymous-uat");
                    }
                    if fresh_ok {
                        log.class("in-window-success:interactive-login:anonymous");
                    }
                }
            }
        }
        if n_in > 0 && n_out > 0 {
            log.nontrivial();
        }
    });
    log.finish()
}

fn main() {
    let cx = Check::from_args("C49", "exploration");
    cx.rule(
        "one fresh in-memory IdmServer per case: person (password or password+TOTP, POSIX password, RADIUS secret, application password) and service account (full + compact API token) \
         get a UAT / API tokens while unrestricted, then a generated window (valid_from, expire each absent or from a 5-point grid incl. adjacent seconds and inverted windows); \
         1-16 (quick) / 1-29 (thorough) queries over 10 paths x askers {internal, self, idm_radius_servers member, anonymous, admin} at instants {edge-1, edge, edge+1, middle, arbitrary}. \
         non-trivial = the case asked at least one instant strictly outside and one strictly inside the window; distinct by hash of the case",
    );
    cx.assume("exact edge instants (t == valid_from or t == expire) are not judged: the property does not say which side they belong to");
    cx.assume("all steps of one interactive login / reauth happen at the same instant; an LDAP token bind counts as success when the bind itself is answered with success (what an LDAP client sees)");
    cx.assume("OAuth2 authorise/refresh/introspect paths are not driven by this check");
    let n = cx.tier.pick(500, 12_000);
    let nq = cx.tier.pick(1..17usize, 1..30usize);
    cx.prop("window-x-paths", PropCfg::new(n).shrink(200), || arb_case(nq.clone()), srv::runtime, |rt, c| run(rt, c));
    let na = cx.tier.pick(150, 3_000);
    cx.prop(
        "anonymous-token",
        PropCfg::new(na).shrink(100),
        || {
            (prop::option::weighted(0.8, 0u8..5), prop::option::weighted(0.8, 0u8..5), prop::collection::vec(arb_at(), 2..8))
                .prop_map(|(vf, ex, ats)| AnonCase { vf, ex, ats })
        },
        srv::runtime,
        |rt, c| run_anon(rt, c),
    );
    cx.require_class("in-window-success:interactive-login:anonymous", 10);
    cx.require_class("outside:anonymous", 30);
    for (l, floor) in [
        ("in-window-success:interactive-login", 20),
        ("in-window-success:reauth", 15),
        ("in-window-success:auth-unix", 15),
        ("in-window-success:ldap-unix-bind", 15),
        ("in-window-success:ldap-application-bind", 15),
        ("in-window-success:radius-token:RadiusServer", 20),
        ("in-window-success:radius-token:SelfUser", 8),
        ("in-window-success:unix-user-token:Internal", 3),
        ("in-window-success:bearer-token:Uat", 8),
        ("in-window-success:bearer-token:ApiFull", 8),
        ("in-window-success:bearer-token:ApiCompact", 8),
        ("in-window-success:ldap-token-bind:Uat", 5),
        ("in-window-success:credential-update-init", 5),
        ("outside:radius-token:RadiusServer", 30),
    ] {
        cx.require_class(l, floor);
    }
    cx.finish();
}
