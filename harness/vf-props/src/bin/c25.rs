//! C25 — Default roles cannot act on high-privilege accounts.
//!
//! Configuration enumeration on a fresh server with the shipped access controls:
//!   HP      = everything reachable from `idm_high_privilege` over stored member/dynmember edges
//!             (own BFS over the database, not the memberof attribute);
//!   R       = built-in groups outside HP (the only role groups a non-HP user can hold);
//!   actor   = a person / a service account / the anonymous account, member of exactly S ⊆ R
//!             (ALL subsets; R has 6 static + 2 dynamic groups here) and optionally of a user-made
//!             non-HP group `mgr` that is the entry manager of the *control* objects;
//!   targets = HP person / HP service account / HP group / user-made groups nested into HP (all
//!             managed by nobody or by an HP group), each paired with a non-HP control of the kind;
//!   actions = modify present/remove/purge/set of every credential, session, validity, naming,
//!             contact, delegation and class attribute (`member` for groups) and the IDM-level
//!             operations (credential update / reset-intent initiation, unix password, radius secret
//!             regeneration, service-account password and api token generation).
//! Oracle: no action by a non-HP actor is applied to an HP target. The same action on the control is
//! recorded; it must succeed for a healthy number of (S, action) pairs (non-vacuity), and every
//! action is first shown to be applicable to the HP target at all (it succeeds as the internal
//! identity in a rolled-back transaction), so "denied" is never an artefact of an ill-formed request.
use kanidm_lib_crypto::CryptoPolicy;
use kanidmd_lib::credential::Credential;
use kanidmd_lib::idm::credupdatesession::{InitCredentialUpdateEvent, InitCredentialUpdateIntentEvent};
use kanidmd_lib::idm::event::{GeneratePasswordEvent, RegenerateRadiusSecretEvent, UnixPasswordChangeEvent};
use kanidmd_lib::idm::server::IdmServerProxyWriteTransaction;
use kanidmd_lib::idm::serviceaccount::GenerateApiTokenEvent;
use kanidmd_lib::prelude::*;
use kanidmd_lib::value::{PartialValue, Value};
use kanidmd_lib::verif_hooks::ident;
use serde::{Deserialize, Serialize};
use std::collections::{BTreeMap, BTreeSet};
use std::sync::atomic::{AtomicU64, Ordering};
use vf_core::{CaseLog, Check, Outcome};
use vf_world::g_access::{self as ga, WriteOutcome};
use vf_world::pop::{self, Kind};
use vf_world::srv::{self, ct};
use vf_world::{dump, fil::MEntry};

const SSH_KEY: &str = "ssh-ed25519 AAAAC3NzaC1lZDI1NTE5AAAAIAeGW1P6Pc2rPq0XqbRaDKBcXZUPRklo0L1EyR30CwoP w@a";

#[derive(Debug, Clone, Copy, PartialEq, Eq, Hash, PartialOrd, Ord, Serialize, Deserialize)]
enum Actor {
    Person,
    Service,
    Anonymous,
}

#[derive(Debug, Clone, PartialEq, Eq, Serialize, Deserialize)]
struct Case {
    actor: Actor,
    /// names of the static built-in non-HP role groups the actor is a member of
    roles: Vec<String>,
    /// member of the user-made non-HP group that manages the control objects
    in_mgr: bool,
    /// memberships are held through a user-made intermediate group instead of directly
    #[serde(default)]
    nested: bool,
    /// name of the high-privilege target
    hp: String,
    /// name of the non-HP control object ("self" = the actor)
    control: String,
}

// ---- population -------------------------------------------------------------------------------

fn u(kind: Kind, i: u32) -> Uuid {
    pop::uuid_of(kind, 100 + i)
}
const ACTOR_P: (Kind, u32) = (Kind::Person, 0);
const ACTOR_S: (Kind, u32) = (Kind::Service, 0);

struct Names;
impl Names {
    const MGR: &'static str = "mgr";
}

fn create_population(w: &mut QueryServerWriteTransaction<'_>) -> Result<(), OperationError> {
    let hp_direct = u(Kind::Person, 1);
    let hp_nested = u(Kind::Person, 2);
    let hp_ug = u(Kind::Person, 3);
    let ctl_person = u(Kind::Person, 4);
    let hp_sa = u(Kind::Service, 1);
    let hp_sa_nomgr = u(Kind::Service, 2);
    let ctl_sa = u(Kind::Service, 3);
    let ctl_sa_nomgr = u(Kind::Service, 4);
    let mgr = u(Kind::Group, 0);
    let ug_hp = u(Kind::Group, 1);
    let ug_hp_inner = u(Kind::Group, 2);
    let ctl_group = u(Kind::Group, 3);
    let ctl_group_nomgr = u(Kind::Group, 4);

    let posix = |mut e: pop::NewEntry, gid: u32| {
        e.add_ava(Attribute::Class, EntryClass::PosixAccount.to_value());
        e.add_ava(Attribute::GidNumber, Value::Uint32(gid));
        e
    };
    let managed = |mut e: pop::NewEntry, by: Uuid| {
        e.add_ava(Attribute::EntryManagedBy, Value::Refer(by));
        e
    };
    // contact data so that "remove" requests have something to remove
    let person = |uuid: Uuid, n: &str| {
        let mut e = pop::person(uuid, n);
        e.add_ava(Attribute::Mail, Value::new_email_address_primary_s(&format!("old-{n}@example.com")).expect("mail"));
        e.add_ava(Attribute::LegalName, Value::new_utf8s("Legal Name"));
        e
    };
    let ents = vec![
        person(u(ACTOR_P.0, ACTOR_P.1), "actor_p"),
        pop::service(u(ACTOR_S.0, ACTOR_S.1), "actor_s"),
        posix(person(hp_direct, "hp_person_direct"), 70101),
        person(hp_nested, "hp_person_nested"),
        posix(person(hp_ug, "hp_person_ug"), 70103),
        posix(person(ctl_person, "ctl_person"), 70104),
        posix(managed(pop::service(hp_sa, "hp_sa"), UUID_IDM_ADMINS), 70201),
        pop::service(hp_sa_nomgr, "hp_sa_nomgr"),
        posix(managed(pop::service(ctl_sa, "ctl_sa"), mgr), 70203),
        pop::service(ctl_sa_nomgr, "ctl_sa_nomgr"),
        pop::group(mgr, Names::MGR, &[]),
        pop::group(u(Kind::Group, 5), "ug_via_p", &[u(ACTOR_P.0, ACTOR_P.1)]),
        pop::group(u(Kind::Group, 6), "ug_via_s", &[u(ACTOR_S.0, ACTOR_S.1)]),
        managed(pop::group(ug_hp, "ug_hp", &[ug_hp_inner]), UUID_IDM_ADMINS),
        pop::group(ug_hp_inner, "ug_hp_inner", &[hp_ug]),
        managed(pop::group(ctl_group, "ctl_group", &[ctl_person]), mgr),
        pop::group(ctl_group_nomgr, "ctl_group_nomgr", &[ctl_person]),
    ];
    w.internal_create(ents)?;
    let add = |w: &mut QueryServerWriteTransaction<'_>, g: Uuid, m: Uuid| {
        w.internal_modify(
            &ga::uuid_filter_all(g),
            &ModifyList::new_list(vec![Modify::Present(Attribute::Member, Value::Refer(m))]),
        )
    };
    add(w, UUID_IDM_HIGH_PRIVILEGE, hp_direct)?;
    add(w, UUID_IDM_PEOPLE_ADMINS, hp_nested)?;
    add(w, UUID_IDM_SERVICE_DESK, ug_hp)?;
    add(w, UUID_IDM_SERVICE_ACCOUNT_ADMINS, hp_sa)?;
    add(w, UUID_IDM_ADMINS, hp_sa_nomgr)?;
    Ok(())
}

/// (hp target name, control name) pairs of the quick tier.
const PAIRS: &[(&str, &str)] = &[
    ("hp_person_direct", "ctl_person"),
    ("hp_person_nested", "self"),
    ("hp_person_ug", "ctl_person"),
    ("hp_sa", "ctl_sa"),
    ("hp_sa_nomgr", "ctl_sa_nomgr"),
    ("admin", "ctl_sa"),
    ("idm_admin", "self"),
    ("idm_high_privilege", "ctl_group"),
    ("idm_admins", "ctl_group_nomgr"),
    ("idm_people_admins", "ctl_group"),
    ("system_admins", "ctl_group"),
    ("ug_hp", "ctl_group"),
    ("ug_hp_inner", "ctl_group_nomgr"),
];

// ---- facts read from the database ---------------------------------------------------------------

#[derive(Debug, Clone)]
struct Facts {
    hp: BTreeSet<Uuid>,
    /// static (assignable) built-in role groups outside HP: name -> uuid
    roles_static: BTreeMap<String, Uuid>,
    /// dynamic built-in role groups outside HP
    roles_dyn: BTreeMap<String, Uuid>,
    by_name: BTreeMap<String, Uuid>,
    kind: BTreeMap<Uuid, TKind>,
    /// HP objects whose entry manager is not itself HP (excluded by the property's precondition)
    delegated: BTreeSet<Uuid>,
}

#[derive(Debug, Clone, Copy, PartialEq, Eq)]
enum TKind {
    Person,
    Service,
    Group,
    Other,
}

fn facts_of(all: &[MEntry]) -> Facts {
    let mut hp = ga::member_closure(all, UUID_IDM_HIGH_PRIVILEGE);
    hp.insert(UUID_IDM_HIGH_PRIVILEGE);
    let mut roles_static = BTreeMap::new();
    let mut roles_dyn = BTreeMap::new();
    let mut by_name = BTreeMap::new();
    let mut kind = BTreeMap::new();
    let mut delegated = BTreeSet::new();
    for m in all.iter().filter(|m| ga::is_live(m)) {
        by_name.insert(ga::name_of(m), m.uuid);
        let k = if ga::has_class(m, "group") {
            TKind::Group
        } else if ga::has_class(m, "person") {
            TKind::Person
        } else if ga::has_class(m, "service_account") {
            TKind::Service
        } else {
            TKind::Other
        };
        kind.insert(m.uuid, k);
        if k == TKind::Group && ga::has_class(m, "builtin") && !hp.contains(&m.uuid) {
            if ga::has_class(m, "dyngroup") {
                roles_dyn.insert(ga::name_of(m), m.uuid);
            } else {
                roles_static.insert(ga::name_of(m), m.uuid);
            }
        }
        if hp.contains(&m.uuid) {
            if let Some(mgrs) = m.get("entry_managed_by") {
                if mgrs.iter().filter_map(|s| Uuid::parse_str(s).ok()).any(|g| !hp.contains(&g)) {
                    delegated.insert(m.uuid);
                }
            }
        }
    }
    Facts {
        hp,
        roles_static,
        roles_dyn,
        by_name,
        kind,
        delegated,
    }
}

// ---- actions -----------------------------------------------------------------------------------

#[derive(Debug, Clone, Copy, PartialEq, Eq, Hash, PartialOrd, Ord)]
enum MKind {
    Present,
    Remove,
    Purge,
    Set,
}

#[derive(Debug, Clone, PartialEq, Eq, Hash, PartialOrd, Ord)]
enum Act {
    Mod(Attribute, MKind),
    /// add the posix class and a gid in one request
    PosixExtend,
    /// remove the posix class together with its attributes
    PosixRemove,
    CredUpdate,
    CredIntent,
    UnixPassword,
    RadiusRegen,
    SaGenPassword,
    SaApiToken,
}

fn account_attrs() -> Vec<Attribute> {
    vec![
        // credentials
        Attribute::PrimaryCredential,
        Attribute::PassKeys,
        Attribute::AttestedPasskeys,
        Attribute::UnixPassword,
        Attribute::RadiusSecret,
        Attribute::SshPublicKey,
        Attribute::CredentialUpdateIntentToken,
        Attribute::IdVerificationEcKey,
        // sessions
        Attribute::UserAuthTokenSession,
        Attribute::ApiTokenSession,
        Attribute::OAuth2Session,
        Attribute::OAuth2ConsentScopeMap,
        // validity
        Attribute::AccountExpire,
        Attribute::AccountValidFrom,
        // naming / contact / details
        Attribute::Name,
        Attribute::DisplayName,
        Attribute::LegalName,
        Attribute::Mail,
        Attribute::Description,
        Attribute::GidNumber,
        Attribute::LoginShell,
        // delegation and structure
        Attribute::EntryManagedBy,
        Attribute::Class,
    ]
}

fn group_attrs() -> Vec<Attribute> {
    vec![
        Attribute::Member,
        Attribute::Name,
        Attribute::Description,
        Attribute::Mail,
        Attribute::GidNumber,
        Attribute::EntryManagedBy,
        Attribute::Class,
    ]
}

struct Vals {
    cred: Credential,
}

fn present_value(v: &Vals, attr: &Attribute, kind: TKind, actor: Uuid) -> Option<Value> {
    Some(match attr {
        Attribute::PrimaryCredential => Value::new_credential("primary", v.cred.clone()),
        Attribute::UnixPassword => Value::new_credential("unix", v.cred.clone()),
        Attribute::RadiusSecret => Value::new_secret_str("radius-secret-0123456789"),
        Attribute::SshPublicKey => Value::new_sshkey_str("k1", SSH_KEY).ok()?,
        Attribute::AccountExpire => Value::new_datetime_epoch(ct(5)),
        Attribute::AccountValidFrom => Value::new_datetime_epoch(ct(5_000_000)),
        Attribute::Name => Value::new_iname("zz_renamed"),
        Attribute::DisplayName => Value::new_utf8s("Zz Renamed"),
        Attribute::LegalName => Value::new_utf8s("Zz Legal"),
        Attribute::Mail => Value::new_email_address_s("evil@example.org")?,
        Attribute::Description => Value::new_utf8s("changed"),
        Attribute::GidNumber => Value::Uint32(79999),
        Attribute::LoginShell => Value::new_iutf8("/bin/zsh"),
        Attribute::EntryManagedBy => Value::Refer(actor),
        Attribute::Member => Value::Refer(actor),
        Attribute::Class => match kind {
            TKind::Group => EntryClass::PosixGroup.to_value(),
            _ => EntryClass::PosixAccount.to_value(),
        },
        _ => return None,
    })
}

fn remove_value(attr: &Attribute, kind: TKind, facts: &Facts, target: Uuid) -> Option<PartialValue> {
    Some(match attr {
        Attribute::Mail => {
            let n = facts.by_name.iter().find(|(_, u)| **u == target).map(|(n, _)| n.clone())?;
            PartialValue::EmailAddress(format!("old-{n}@example.com"))
        }
        Attribute::LegalName => PartialValue::new_utf8s("Legal Name"),
        Attribute::UserAuthTokenSession | Attribute::ApiTokenSession | Attribute::OAuth2Session => {
            PartialValue::Refer(pop::uuid_of(Kind::Other, 1))
        }
        Attribute::SshPublicKey => PartialValue::new_sshkey_tag_s("k1"),
        Attribute::PrimaryCredential => PartialValue::new_credential_tag("primary"),
        Attribute::Member => PartialValue::Refer(*facts.by_name.get("ctl_person")?),
        Attribute::EntryManagedBy => PartialValue::Refer(UUID_IDM_ADMINS),
        Attribute::Class => match kind {
            TKind::Group => EntryClass::PosixGroup.into(),
            _ => EntryClass::PosixAccount.into(),
        },
        _ => return None,
    })
}

fn actions_for(kind: TKind) -> Vec<Act> {
    let mut out = Vec::new();
    let attrs = if kind == TKind::Group { group_attrs() } else { account_attrs() };
    for a in attrs {
        for k in [MKind::Present, MKind::Remove, MKind::Purge, MKind::Set] {
            out.push(Act::Mod(a.clone(), k));
        }
    }
    out.extend([Act::PosixExtend, Act::PosixRemove]);
    if kind != TKind::Group {
        out.extend([Act::CredUpdate, Act::CredIntent, Act::UnixPassword, Act::RadiusRegen]);
        if kind == TKind::Service {
            out.extend([Act::SaGenPassword, Act::SaApiToken]);
        }
    }
    out
}

fn act_label(a: &Act) -> String {
    match a {
        Act::Mod(at, k) => format!("{}:{:?}", at.as_str(), k).to_lowercase(),
        other => format!("idm:{other:?}").to_lowercase(),
    }
}

/// Run one action as `id` against `target`. None = the action is not defined for this target.
fn run_action(
    w: &mut IdmServerProxyWriteTransaction<'_>,
    vals: &Vals,
    facts: &Facts,
    id: &Identity,
    actor: Uuid,
    target: Uuid,
    kind: TKind,
    act: &Act,
) -> Option<Result<(), OperationError>> {
    Some(match act {
        Act::Mod(attr, k) => {
            let m = match k {
                MKind::Present => Modify::Present(attr.clone(), present_value(vals, attr, kind, actor)?),
                MKind::Set => {
                    if *attr == Attribute::Class {
                        // a set of `class` is judged by its difference to the stored classes; covered by present/remove
                        return None;
                    }
                    let v = present_value(vals, attr, kind, actor)?;
                    let vs = kanidmd_lib::valueset::from_value_iter(std::iter::once(v)).ok()?;
                    Modify::Set(attr.clone(), vs)
                }
                MKind::Remove => Modify::Removed(attr.clone(), remove_value(attr, kind, facts, target)?),
                MKind::Purge => Modify::Purged(attr.clone()),
            };
            ga::modify_as(&mut w.qs_write, id, target, vec![m])
        }
        Act::PosixExtend => {
            let cls = if kind == TKind::Group { EntryClass::PosixGroup } else { EntryClass::PosixAccount };
            let gid = kanidmd_lib::valueset::from_value_iter(std::iter::once(Value::Uint32(79998))).ok()?;
            ga::modify_as(
                &mut w.qs_write,
                id,
                target,
                vec![Modify::Present(Attribute::Class, cls.to_value()), Modify::Set(Attribute::GidNumber, gid)],
            )
        }
        Act::PosixRemove => {
            let cls = if kind == TKind::Group { EntryClass::PosixGroup } else { EntryClass::PosixAccount };
            let mut m = vec![Modify::Removed(Attribute::Class, cls.into()), Modify::Purged(Attribute::GidNumber)];
            if kind != TKind::Group {
                m.extend([
                    Modify::Purged(Attribute::UnixPassword),
                    Modify::Purged(Attribute::LoginShell),
                    Modify::Purged(Attribute::SshPublicKey),
                ]);
            }
            ga::modify_as(&mut w.qs_write, id, target, m)
        }
        Act::CredUpdate => w
            .init_credential_update(&InitCredentialUpdateEvent::new(id.clone(), target), ct(200))
            .map(|_| ()),
        Act::CredIntent => w
            .init_credential_update_intent(
                &InitCredentialUpdateIntentEvent::new(id.clone(), target, Some(Duration::from_secs(3600))),
                ct(200),
            )
            .map(|_| ()),
        Act::UnixPassword => match UnixPasswordChangeEvent::from_parts(id.clone(), target, "c25-Unix-Passw0rd-long-enough".to_string()) {
            Ok(ev) => w.set_unix_account_password(&ev),
            Err(e) => Err(e),
        },
        Act::RadiusRegen => match RegenerateRadiusSecretEvent::from_parts(id.clone(), target) {
            Ok(ev) => w.regenerate_radius_secret(&ev).map(|_| ()),
            Err(e) => Err(e),
        },
        Act::SaGenPassword => match GeneratePasswordEvent::from_parts(id.clone(), target) {
            Ok(ev) => w.generate_service_account_password(&ev).map(|_| ()),
            Err(e) => Err(e),
        },
        Act::SaApiToken => w
            .service_account_generate_api_token(
                &GenerateApiTokenEvent {
                    ident: id.clone(),
                    target,
                    label: "c25".to_string(),
                    expiry: None,
                    read_write: true,
                    compact: false,
                },
                ct(200),
            )
            .map(|_| ()),
    })
}

// ---- world -------------------------------------------------------------------------------------

struct World {
    rt: tokio::runtime::Runtime,
    idms: IdmServer,
    _delayed: IdmServerDelayed,
    _audit: IdmServerAudit,
    facts: Facts,
    vals: Vals,
    /// (target, action) pairs that are applicable at all (succeed as the internal identity)
    feasible: BTreeSet<(Uuid, Act)>,
    /// current committed configuration of the actors: (actor, roles, in_mgr)
    config: Option<(Actor, Vec<String>, bool, bool)>,
}

fn read_facts(rt: &tokio::runtime::Runtime, idms: &IdmServer) -> Facts {
    rt.block_on(async {
        let mut r = idms.proxy_read().await.expect("read");
        let ents = dump::all_entries(&mut r.qs_read).expect("entries");
        facts_of(&ga::mentries(&ents))
    })
}

fn new_world() -> World {
    let rt = srv::runtime();
    let (idms, delayed, audit) = rt.block_on(async {
        let qs = srv::new_qs().await;
        let mut w = qs.write(ct(1)).await.expect("write");
        create_population(&mut w).expect("population");
        w.commit().expect("commit");
        srv::new_idms(qs).await
    });
    let facts = read_facts(&rt, &idms);
    let cred = Credential::new_password_only(
        &CryptoPolicy::danger_test_minimum(),
        "c25-Primary-Passw0rd-long-enough",
        time::OffsetDateTime::UNIX_EPOCH + ct(1),
    )
    .expect("cred");
    let vals = Vals { cred };
    // feasibility of every (target, action) as the internal identity, each in a rolled-back txn
    let mut feasible = BTreeSet::new();
    let internal = ident::internal();
    let targets: Vec<Uuid> = facts.kind.iter().filter(|(_, k)| **k != TKind::Other).map(|(u, _)| *u).collect();
    rt.block_on(async {
        for t in targets {
            let kind = facts.kind[&t];
            for act in actions_for(kind) {
                let mut w = idms.proxy_write(ct(150)).await.expect("write");
                if let Some(Ok(())) = run_action(&mut w, &vals, &facts, &internal, u(ACTOR_P.0, ACTOR_P.1), t, kind, &act) {
                    feasible.insert((t, act));
                }
            }
        }
    });
    World {
        rt,
        idms,
        _delayed: delayed,
        _audit: audit,
        facts,
        vals,
        feasible,
        config: None,
    }
}

fn actor_uuid(a: Actor) -> Uuid {
    match a {
        Actor::Person => u(ACTOR_P.0, ACTOR_P.1),
        Actor::Service => u(ACTOR_S.0, ACTOR_S.1),
        Actor::Anonymous => UUID_ANONYMOUS,
    }
}

/// Commit the actor's memberships: exactly `roles` among the static role groups, and `mgr`.
fn configure(w: &mut World, c: &Case) -> Result<(), String> {
    let want = (c.actor, c.roles.clone(), c.in_mgr, c.nested);
    if w.config.as_ref() == Some(&want) {
        return Ok(());
    }
    let facts = w.facts.clone();
    let idms = &w.idms;
    let r: Result<(), String> = w.rt.block_on(async {
        let mut wt = idms.proxy_write(ct(100)).await.map_err(|e| format!("{e:?}"))?;
        let mut groups: Vec<(Uuid, &str)> = facts.roles_static.iter().map(|(n, u)| (*u, n.as_str())).collect();
        groups.push((*facts.by_name.get(Names::MGR).ok_or("no mgr")?, Names::MGR));
        for a in [Actor::Person, Actor::Service] {
            let au = actor_uuid(a);
            let via = u(Kind::Group, if a == Actor::Person { 5 } else { 6 });
            for (g, name) in &groups {
                let member = a == c.actor && if *name == Names::MGR { c.in_mgr } else { c.roles.iter().any(|r| r == name) };
                for (who, on) in [(au, member && !c.nested), (via, member && c.nested)] {
                    let m = if on {
                        Modify::Present(Attribute::Member, Value::Refer(who))
                    } else {
                        Modify::Removed(Attribute::Member, PartialValue::Refer(who))
                    };
                    wt.qs_write
                        .internal_modify(&ga::uuid_filter_all(*g), &ModifyList::new_list(vec![m]))
                        .map_err(|e| format!("membership {name}: {e:?}"))?;
                }
            }
        }
        wt.commit().map_err(|e| format!("{e:?}"))
    });
    r?;
    w.config = Some(want);
    Ok(())
}

fn attr_group(a: &Act) -> &'static str {
    match a {
        Act::Mod(at, _) => match at {
            Attribute::PrimaryCredential
            | Attribute::PassKeys
            | Attribute::AttestedPasskeys
            | Attribute::UnixPassword
            | Attribute::RadiusSecret
            | Attribute::SshPublicKey
            | Attribute::CredentialUpdateIntentToken
            | Attribute::IdVerificationEcKey => "credential",
            Attribute::UserAuthTokenSession | Attribute::ApiTokenSession | Attribute::OAuth2Session | Attribute::OAuth2ConsentScopeMap => "session",
            Attribute::AccountExpire | Attribute::AccountValidFrom => "validity",
            Attribute::Member => "member",
            Attribute::EntryManagedBy | Attribute::Class => "delegation/class",
            _ => "details",
        },
        Act::PosixExtend | Act::PosixRemove => "delegation/class",
        _ => "idm-operation",
    }
}

static HP_TRIED: AtomicU64 = AtomicU64::new(0);
static CTL_TRIED: AtomicU64 = AtomicU64::new(0);
static CTL_APPLIED: AtomicU64 = AtomicU64::new(0);

fn run_case(w: &mut World, c: &Case) -> Outcome {
    let mut log = CaseLog::new();
    if c.actor == Actor::Anonymous && (!c.roles.is_empty() || c.in_mgr || c.nested) {
        return Outcome::discard();
    }
    if let Err(e) = configure(w, c) {
        panic!("harness: cannot configure the actor: {e}");
    }
    let facts = &w.facts;
    let actor = actor_uuid(c.actor);
    let Some(&hp_t) = facts.by_name.get(&c.hp) else {
        return Outcome::discard();
    };
    let ctl_t = if c.control == "self" {
        actor
    } else {
        match facts.by_name.get(&c.control) {
            Some(u) => *u,
            None => return Outcome::discard(),
        }
    };
    let hp_kind = facts.kind[&hp_t];
    let idms = &w.idms;
    let vals = &w.vals;
    let feasible = &w.feasible;
    w.rt.block_on(async {
        // the actor as the server sees it now
        let (id, all) = {
            let mut r = idms.proxy_read().await.expect("read");
            let id = ga::ident_of(&mut r.qs_read, actor, true).expect("actor identity");
            let ents = dump::all_entries(&mut r.qs_read).expect("entries");
            (id, ga::mentries(&ents))
        };
        // preconditions of the property, re-established from the stored data of *this* state
        let mut hp = ga::member_closure(&all, UUID_IDM_HIGH_PRIVILEGE);
        hp.insert(UUID_IDM_HIGH_PRIVILEGE);
        if hp.contains(&actor) {
            panic!("harness: the actor became high-privilege through {:?}", c.roles);
        }
        let actor_groups = ga::groups_of(&all, actor);
        if actor_groups.iter().any(|g| hp.contains(g)) {
            panic!("harness: the actor is in an HP group");
        }
        if !hp.contains(&hp_t) {
            panic!("harness: target {} is not high-privilege", c.hp);
        }
        if hp.contains(&ctl_t) {
            panic!("harness: control {} is high-privilege", c.control);
        }
        if facts.delegated.contains(&hp_t) {
            // excluded by the property ("no high-privilege account or group delegated to a non-HP entry manager")
            log.class("excluded:hp-target-delegated-to-non-hp-manager");
            return;
        }
        let acts = actions_for(hp_kind);
        // HP target: every applicable action in one transaction (none may be applied)
        let mut hp_tested = 0;
        {
            let mut wt = idms.proxy_write(ct(200)).await.expect("write");
            for act in &acts {
                if !feasible.contains(&(hp_t, act.clone())) {
                    log.class("hp-action-not-applicable-even-internally(skipped)");
                    continue;
                }
                let Some(r) = run_action(&mut wt, vals, facts, &id, actor, hp_t, hp_kind, act) else {
                    continue;
                };
                hp_tested += 1;
                HP_TRIED.fetch_add(1, Ordering::Relaxed);
                match ga::classify(&r) {
                    WriteOutcome::Applied => {
                        log.fail(
                            format!("non-HP actor changed HP target: {} on {:?}", attr_group(act), hp_kind),
                            format!(
                                "actor {:?} roles {:?} (+dynamic {:?}) in_mgr={} nested={} applied {} to HP target {} ({hp_t})",
                                c.actor,
                                c.roles,
                                facts.roles_dyn.keys().collect::<Vec<_>>(),
                                c.in_mgr,
                                c.nested,
                                act_label(act),
                                c.hp
                            ),
                        );
                        return;
                    }
                    WriteOutcome::Denied => log.class("hp:denied-by-write-access"),
                    WriteOutcome::NotVisible => log.class("hp:denied-target-not-visible"),
                    WriteOutcome::Other => {
                        let e = format!("{:?}", r.as_ref().err());
                        let e: String = e.chars().take_while(|c| c.is_alphanumeric() || *c == '(').collect();
                        log.class(format!("hp:other-error:{}:{e}", act_label(act)))
                    }
                }
            }
        }
        // control: the same actions, each in its own rolled-back transaction
        let ctl_kind = facts.kind[&ctl_t];
        let mut ctl_ok = 0;
        for act in &acts {
            if ctl_kind != hp_kind {
                break;
            }
            let mut wt = idms.proxy_write(ct(200)).await.expect("write");
            let Some(r) = run_action(&mut wt, vals, facts, &id, actor, ctl_t, ctl_kind, act) else {
                continue;
            };
            CTL_TRIED.fetch_add(1, Ordering::Relaxed);
            match ga::classify(&r) {
                WriteOutcome::Applied => {
                    ctl_ok += 1;
                    CTL_APPLIED.fetch_add(1, Ordering::Relaxed);
                    log.class(format!("control-applied:{}", attr_group(act)));
                    if feasible.contains(&(hp_t, act.clone())) {
                        log.class("control-applied-and-hp-denied(same S, same action)");
                    }
                }
                WriteOutcome::Denied => log.class("control:denied"),
                WriteOutcome::NotVisible => log.class("control:not-visible"),
                WriteOutcome::Other => log.class("control:other-error"),
            }
        }
        if hp_tested > 0 && ctl_ok > 0 {
            log.nontrivial();
        }
        log.class(format!("hp-kind:{hp_kind:?}"));
        log.class(format!("actor:{:?}", c.actor));
        log.class(format!("roles:{}", c.roles.len()));
    });
    log.finish()
}

fn main() {
    let cx = Check::from_args("C25", "exploration");
    // facts of the shipped configuration, computed once to size the enumeration
    let probe = new_world();
    let facts = probe.facts.clone();
    let feasible_hp = probe.feasible.iter().filter(|(t, _)| facts.hp.contains(t)).count();
    let mut na: BTreeSet<String> = BTreeSet::new();
    for (h, _) in PAIRS {
        if let Some(t) = facts.by_name.get(*h) {
            for a in actions_for(facts.kind[t]) {
                if !probe.feasible.contains(&(*t, a.clone())) {
                    na.insert(format!("{h}:{}", act_label(&a)));
                }
            }
        }
    }
    drop(probe);
    let roles: Vec<String> = facts.roles_static.keys().cloned().collect();
    cx.rule(
        "exhaustive configuration enumeration on a fresh server with the shipped access controls: actor (person | service account | anonymous) x EVERY subset S of the \
         built-in role groups outside the high-privilege closure (closure = own BFS over stored member/dynmember edges from idm_high_privilege) x membership of a user-made \
         manager group x (HP target, non-HP control) pairs; per case every present/remove/purge/set request on every credential/session/validity/naming/contact/delegation/class \
         attribute (member for groups) and the IDM operations (credential update + reset-intent initiation, unix password, radius regenerate, service-account password / api token). \
         An action counts only if it is applicable to the HP target at all (succeeds as the internal identity in a rolled-back txn). \
         non-trivial = at least one applicable action was tried on the HP target AND at least one action of the same list was applied to the control by the same actor; distinct by case",
    );
    cx.assume(
        "violation = the operation returns Ok for a non-HP actor on an HP target; an error other than AccessDenied/NoMatchingEntries on an HP target is only counted (class hp:other-error:*), \
         because plugins behind the access decision may still refuse the change. Deleting HP objects is not in the property text and is not tested. HP targets whose stored entry manager \
         is not itself HP are excluded as the property says (none exist in the shipped data; counted if they appear).",
    );
    cx.extra("role_groups_static", serde_json::json!(roles));
    cx.extra("role_groups_dynamic", serde_json::json!(facts.roles_dyn.keys().collect::<Vec<_>>()));
    cx.extra("hp_closure_size", serde_json::json!(facts.hp.len()));
    cx.extra("applicable_hp_target_actions", serde_json::json!(feasible_hp));
    cx.extra("not_applicable_on_hp_targets", serde_json::json!(na));
    cx.extra("hp_delegated_to_non_hp", serde_json::json!(facts.delegated.len()));

    // pairs: fixed list + every other HP object of the database
    let mut pairs: Vec<(String, String)> = PAIRS.iter().map(|(a, b)| (a.to_string(), b.to_string())).collect();
    {
        let name_of: BTreeMap<Uuid, String> = facts.by_name.iter().map(|(n, u)| (*u, n.clone())).collect();
        for t in &facts.hp {
            let Some(n) = name_of.get(t) else { continue };
            if pairs.iter().any(|(h, _)| h == n) {
                continue;
            }
            let ctl = match facts.kind.get(t) {
                Some(TKind::Group) => "ctl_group",
                Some(TKind::Person) => "ctl_person",
                Some(TKind::Service) => "ctl_sa",
                _ => continue,
            };
            pairs.push((n.clone(), ctl.to_string()));
        }
    }
    let nroles = roles.len() as u32;
    if nroles > 12 {
        cx.inconclusive("more than 12 static role groups outside HP: the subset enumeration would not be exhaustive");
    }
    let subsets = 1u64 << nroles;
    // index layout: actor-config (actor x subset x in_mgr) outermost, pair innermost
    let per_actor = subsets * 2;
    let configs = per_actor * 2 + 1; // person, service, + anonymous (as shipped)
    let variants: u64 = cx.tier.pick(1, 2); // thorough: also memberships held through an intermediate user-made group
    let total = configs * pairs.len() as u64 * variants;
    let make = |i: u64| -> Case {
        let p = (i % pairs.len() as u64) as usize;
        let cfg = i / pairs.len() as u64;
        let nested = cfg >= configs;
        let cfg = cfg % configs;
        let (actor, rest) = if cfg < per_actor {
            (Actor::Person, cfg)
        } else if cfg < 2 * per_actor {
            (Actor::Service, cfg - per_actor)
        } else {
            (Actor::Anonymous, 0)
        };
        let in_mgr = rest % 2 == 1;
        let bits = rest / 2;
        let rs: Vec<String> = if actor == Actor::Anonymous {
            vec![]
        } else {
            roles.iter().enumerate().filter(|(k, _)| bits >> k & 1 == 1).map(|(_, n)| n.clone()).collect()
        };
        Case {
            actor,
            roles: rs,
            in_mgr: in_mgr && actor != Actor::Anonymous,
            nested: nested && actor != Actor::Anonymous,
            hp: pairs[p].0.clone(),
            control: pairs[p].1.clone(),
        }
    };
    cx.enumerate("role-subsets-x-hp-targets", total, make, new_world, run_case);
    cx.extra("hp_target_actions_attempted_all_denied", serde_json::json!(HP_TRIED.load(Ordering::Relaxed)));
    cx.extra("control_actions_attempted", serde_json::json!(CTL_TRIED.load(Ordering::Relaxed)));
    cx.extra("control_actions_applied", serde_json::json!(CTL_APPLIED.load(Ordering::Relaxed)));
    cx.require_class("control-applied-and-hp-denied(same S, same action)", 200);
    cx.require_class("hp:denied-by-write-access", 1000);
    cx.require_class("control-applied:member", 20);
    cx.require_class("control-applied:credential", 20);
    cx.finish();
}
