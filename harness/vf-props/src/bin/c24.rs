//! C24 — Writes need matching grants; protected objects stay protected.
//!
//! Generated worlds (as C23) with 2-6 generated create / modify / delete (+search) access control
//! profiles ON TOP of the shipped ones; generated write requests (modify lists incl. class edits and
//! protected classes, creates, deletes, revives) made as users of every scope (read-write,
//! read-only, synchronise scope, synchronisation identity) against live, recycled, tombstoned and
//! built-in / system-protected targets. Every request runs in its own write transaction that is
//! rolled back.
//! Oracle (one direction, as the property): a request that SUCCEEDS must be covered by the
//! independent grant model (g_access: stored ACP entries interpreted by the harness evaluator) and
//! must not break any of the unconditional rules; a request that FAILS must leave the database as
//! it was (canonical dump inside the same transaction).
use kanidmd_lib::event::ReviveRecycledEvent;
use kanidmd_lib::prelude::*;
use kanidmd_lib::value::{PartialValue, Value};
use kanidmd_lib::verif_hooks::access as haccess;
use proptest::prelude::*;
use serde::{Deserialize, Serialize};
use std::collections::{BTreeMap, BTreeSet};
use vf_core::{CaseLog, Check, Outcome, PropCfg};
use vf_world::dump::{self, DiffOpts};
use vf_world::fil::{self, MEntry, F};
use vf_world::g_access::world::{self, alphabet, arb_ent, no_empty_groups, norm_ent, proto_of, uuid_of, Ent, Pop};
use vf_world::g_access::{self as ga, Acp, Who};
use vf_world::ops;
use vf_world::pop::{self, Kind};
use vf_world::srv::{self, ct};

const W_ATTRS: [&str; 9] = [
    "description",
    "displayname",
    "legalname",
    "mail",
    "member",
    "entry_managed_by",
    "gidnumber",
    "class",
    "name",
];
const W_CLASSES: [&str; 12] = [
    "person",
    "account",
    "group",
    "posixaccount",
    "posixgroup",
    "service_account",
    "object",
    "recycled",
    "system",
    "dyngroup",
    "sync_object",
    "tombstone",
];
/// classes that no user may add or remove (property text / server/access/protected.rs doc comments)
const PROTECTED: [&str; 8] = [
    "system",
    "domain_info",
    "system_info",
    "system_config",
    "dyngroup",
    "sync_object",
    "tombstone",
    "recycled",
];
/// built-in targets (uuid in the system range)
const BUILTIN: [Uuid; 5] = [UUID_IDM_ADMINS, UUID_ADMIN, UUID_ANONYMOUS, UUID_IDM_ALL_PERSONS, UUID_DOMAIN_INFO];

#[derive(Debug, Clone, PartialEq, Eq, Serialize, Deserialize)]
enum RecvSpec {
    Groups(Vec<Ent>),
    Manager,
}

#[derive(Debug, Clone, PartialEq, Eq, Serialize, Deserialize)]
struct WAcp {
    recv: RecvSpec,
    target: F,
    search: bool,
    /// modify: (present attrs, removed attrs, present classes, removed classes)
    modify: Option<(Vec<u8>, Vec<u8>, Vec<u8>, Vec<u8>)>,
    /// create: (attrs, classes)
    create: Option<(Vec<u8>, Vec<u8>)>,
    delete: bool,
    enabled: bool,
}

#[derive(Debug, Clone, PartialEq, Eq, Serialize, Deserialize)]
enum Tgt {
    E(Ent),
    Builtin(u8),
}

#[derive(Debug, Clone, PartialEq, Eq, Serialize, Deserialize)]
enum Md {
    Present(u8, u8),
    Removed(u8, u8),
    Purged(u8),
    Set(u8, Vec<u8>),
}

#[derive(Debug, Clone, PartialEq, Eq, Serialize, Deserialize)]
enum WOp {
    /// `raw`: the executed filter does not mask recycled / tombstoned entries (as internal callers that impersonate a user do)
    Modify { target: Tgt, mods: Vec<Md>, raw: bool },
    Create { kind: u8, name: u8, desc: Option<u8>, member: Option<Ent>, extra_class: Option<u8>, builtin_uuid: bool },
    Delete { target: Tgt, raw: bool },
    Revive { target: Tgt },
}

#[derive(Debug, Clone, Copy, PartialEq, Eq, Serialize, Deserialize)]
enum Scope {
    ReadWrite,
    ReadOnly,
    Synchronise,
    SyncIdentity,
}

#[derive(Debug, Clone, PartialEq, Eq, Serialize, Deserialize)]
struct WReq {
    who: Ent,
    scope: Scope,
    op: WOp,
    /// steer caller and target towards what generated profile #k covers (generation aid only)
    guided: Option<u8>,
}

#[derive(Debug, Clone, PartialEq, Eq, Serialize, Deserialize)]
struct Case {
    #[serde(flatten)]
    pop: Pop,
    acps: Vec<WAcp>,
    reqs: Vec<WReq>,
}

// ---- generators ---------------------------------------------------------------------------------

fn arb_target() -> BoxedStrategy<F> {
    let al = alphabet();
    prop_oneof![
        2 => fil::arb_leaf(&al),
        2 => fil::arb_filter(&al, 2, 3),
        3 => Just(F::Pres("class".into())),
        3 => Just(F::Eq("class".into(), "person".into())),
        3 => Just(F::Eq("class".into(), "group".into())),
        2 => Just(F::Eq("class".into(), "account".into())),
        1 => Just(F::Eq("class".into(), "recycled".into())),
        1 => Just(F::SelfUuid),
        1 => Just(F::And(vec![F::Eq("class".into(), "account".into()), F::Not(Box::new(F::SelfUuid))])),
    ]
    .boxed()
}

fn arb_idx(n: usize, len: std::ops::Range<usize>) -> impl Strategy<Value = Vec<u8>> {
    proptest::collection::vec(0u8..n as u8, len)
}

fn arb_acp() -> impl Strategy<Value = WAcp> {
    (
        prop_oneof![
            5 => proptest::collection::vec(prop_oneof![(0u8..5).prop_map(Ent::G), (0u8..5).prop_map(Ent::G), (0u8..5).prop_map(Ent::P)], 1..3).prop_map(RecvSpec::Groups),
            2 => Just(RecvSpec::Manager),
        ],
        arb_target(),
        proptest::bool::weighted(0.7),
        proptest::option::weighted(
            0.8,
            (
                arb_idx(W_ATTRS.len(), 1..7),
                arb_idx(W_ATTRS.len(), 1..7),
                arb_idx(W_CLASSES.len(), 0..8),
                arb_idx(W_CLASSES.len(), 0..8),
            ),
        ),
        proptest::option::weighted(0.4, (arb_idx(W_ATTRS.len() + 1, 3..10), arb_idx(W_CLASSES.len(), 2..6))),
        proptest::bool::weighted(0.4),
        proptest::bool::weighted(0.92),
    )
        .prop_map(|(recv, target, search, modify, create, delete, enabled)| WAcp {
            recv,
            target,
            search,
            modify,
            create,
            delete,
            enabled,
        })
}

fn arb_tgt() -> impl Strategy<Value = Tgt> {
    prop_oneof![9 => arb_ent().prop_map(Tgt::E), 1 => (0u8..BUILTIN.len() as u8).prop_map(Tgt::Builtin)]
}

fn arb_md() -> impl Strategy<Value = Md> {
    let a = 0u8..W_ATTRS.len() as u8;
    prop_oneof![
        4 => (a.clone(), 0u8..12).prop_map(|(a, v)| Md::Present(a, v)),
        3 => (a.clone(), 0u8..12).prop_map(|(a, v)| Md::Removed(a, v)),
        3 => a.clone().prop_map(Md::Purged),
        2 => (a, proptest::collection::vec(0u8..12, 1..3)).prop_map(|(a, v)| Md::Set(a, v)),
        // class edits with protected classes (W_ATTRS[7] = class, W_CLASSES[7..] = protected)
        1 => (7u8..12).prop_map(|v| Md::Present(7, v)),
        // 'system' is the one protected class that needs no companion attribute to be schema-valid
        2 => Just(Md::Present(7, 8)),
        1 => (7u8..12).prop_map(|v| Md::Removed(7, v)),
    ]
}

fn arb_op() -> impl Strategy<Value = WOp> {
    prop_oneof![
        8 => (arb_tgt(), proptest::collection::vec(arb_md(), 1..4), proptest::bool::weighted(0.15)).prop_map(|(target, mods, raw)| WOp::Modify { target, mods, raw }),
        3 => (0u8..3, 0u8..4, proptest::option::of(0u8..4), proptest::option::of(arb_ent()), proptest::option::weighted(0.3, 0u8..W_CLASSES.len() as u8), proptest::bool::weighted(0.1))
            .prop_map(|(kind, name, desc, member, extra_class, builtin_uuid)| WOp::Create { kind, name, desc, member, extra_class, builtin_uuid }),
        3 => (arb_tgt(), proptest::bool::weighted(0.15)).prop_map(|(target, raw)| WOp::Delete { target, raw }),
        2 => arb_tgt().prop_map(|target| WOp::Revive { target }),
    ]
}

fn arb_req() -> impl Strategy<Value = WReq> {
    (
        prop_oneof![4 => (0u8..5).prop_map(Ent::P), 1 => (0u8..2).prop_map(Ent::S)],
        prop_oneof![12 => Just(Scope::ReadWrite), 2 => Just(Scope::ReadOnly), 1 => Just(Scope::Synchronise), 1 => Just(Scope::SyncIdentity)],
        arb_op(),
        proptest::option::weighted(0.7, 0u8..6),
    )
        .prop_map(|(who, scope, op, guided)| WReq { who, scope, op, guided })
}

fn arb_case(nreq: std::ops::Range<usize>) -> impl Strategy<Value = Case> {
    (world::arb_pop(), proptest::collection::vec(arb_acp(), 2..=6), proptest::collection::vec(arb_req(), nreq)).prop_map(|(pop, acps, reqs)| Case { pop, acps, reqs })
}

fn normalise(c: &Case) -> Case {
    let mut n = c.clone();
    let p = &c.pop;
    n.pop = world::norm_pop(p);
    for a in n.acps.iter_mut() {
        a.target = no_empty_groups(&a.target);
        if let RecvSpec::Groups(gs) = &mut a.recv {
            let mut v: Vec<Ent> = gs.iter().map(|g| norm_ent(*g, p)).filter(|g| world::live_spec(*g, p)).collect();
            v.sort();
            v.dedup();
            if v.is_empty() {
                a.recv = RecvSpec::Manager;
            } else {
                *gs = v;
            }
        }
    }
    n
}

// ---- world --------------------------------------------------------------------------------------

fn names(idx: &[u8], pool: &[&str]) -> BTreeSet<String> {
    idx.iter().map(|i| pool[*i as usize % pool.len()].to_string()).collect()
}

async fn build(c: &Case) -> Result<QueryServer, String> {
    let err = |s: &str, e: OperationError| format!("{s}: {e:?}");
    world::build_population(&c.pop, |w| {
        let mut acps = Vec::new();
        for (i, a) in c.acps.iter().enumerate() {
            let mut e: pop::NewEntry = kanidmd_lib::entry::Entry::new();
            e.add_ava(Attribute::Class, EntryClass::Object.to_value());
            e.add_ava(Attribute::Class, EntryClass::AccessControlProfile.to_value());
            e.add_ava(Attribute::Class, EntryClass::AccessControlTargetScope.to_value());
            e.add_ava(Attribute::Name, Value::new_iname(&format!("gen_acp_{i}")));
            e.add_ava(Attribute::Uuid, Value::Uuid(pop::uuid_of(Kind::Other, 500 + i as u32)));
            if !a.enabled {
                e.add_ava(Attribute::AcpEnable, Value::Bool(false));
            }
            match &a.recv {
                RecvSpec::Groups(gs) => {
                    e.add_ava(Attribute::Class, EntryClass::AccessControlReceiverGroup.to_value());
                    for g in gs {
                        e.add_ava(Attribute::AcpReceiverGroup, Value::Refer(uuid_of(*g)));
                    }
                }
                RecvSpec::Manager => e.add_ava(Attribute::Class, EntryClass::AccessControlReceiverEntryManager.to_value()),
            }
            let Some(pf) = proto_of(&a.target) else {
                return Err("target not expressible as proto filter".to_string());
            };
            e.add_ava(Attribute::AcpTargetScope, Value::JsonFilt(pf));
            let mut any = false;
            if a.search {
                any = true;
                e.add_ava(Attribute::Class, EntryClass::AccessControlSearch.to_value());
                for at in ["class", "uuid", "name", "member", "description"] {
                    e.add_ava(Attribute::AcpSearchAttr, Value::new_iutf8(at));
                }
            }
            if let Some((pa, ra, pc, rc)) = &a.modify {
                any = true;
                e.add_ava(Attribute::Class, EntryClass::AccessControlModify.to_value());
                for x in names(pa, &W_ATTRS) {
                    e.add_ava(Attribute::AcpModifyPresentAttr, Value::new_iutf8(&x));
                }
                for x in names(ra, &W_ATTRS) {
                    e.add_ava(Attribute::AcpModifyRemovedAttr, Value::new_iutf8(&x));
                }
                for x in names(pc, &W_CLASSES) {
                    e.add_ava(Attribute::AcpModifyPresentClass, Value::new_iutf8(&x));
                }
                for x in names(rc, &W_CLASSES) {
                    e.add_ava(Attribute::AcpModifyRemoveClass, Value::new_iutf8(&x));
                }
            }
            if let Some((ca, cc)) = &a.create {
                any = true;
                e.add_ava(Attribute::Class, EntryClass::AccessControlCreate.to_value());
                for i in ca {
                    let x = if *i as usize >= W_ATTRS.len() { "uuid" } else { W_ATTRS[*i as usize] };
                    e.add_ava(Attribute::AcpCreateAttr, Value::new_iutf8(x));
                }
                for x in names(cc, &W_CLASSES) {
                    e.add_ava(Attribute::AcpCreateClass, Value::new_iutf8(&x));
                }
            }
            if a.delete {
                any = true;
                e.add_ava(Attribute::Class, EntryClass::AccessControlDelete.to_value());
            }
            if !any {
                e.add_ava(Attribute::Class, EntryClass::AccessControlDelete.to_value());
            }
            acps.push(e);
        }
        w.internal_create(acps).map_err(|e| err("create acps", e))?;
        Ok(())
    })
    .await
}

fn value_of(attr: &str, v: u8, p: &Pop) -> Option<Value> {
    Some(match attr {
        "description" | "displayname" | "legalname" => Value::new_utf8s(ops::DESCS[v as usize % ops::DESCS.len()]),
        "mail" => Value::new_email_address_s(&format!("m{}@example.org", v % 4))?,
        "member" | "entry_managed_by" => {
            let e = if v % 2 == 0 { Ent::P(v / 2) } else { Ent::G(v / 2) };
            Value::Refer(uuid_of(norm_ent(e, p)))
        }
        "gidnumber" => Value::Uint32(71000 + (v % 4) as u32),
        "class" => Value::new_iutf8(W_CLASSES[v as usize % W_CLASSES.len()]),
        "name" => Value::new_iname(&format!("renamed_{}", v % 3)),
        _ => return None,
    })
}

fn pvalue_of(attr: &str, v: u8, p: &Pop) -> Option<PartialValue> {
    Some(match attr {
        "description" | "displayname" | "legalname" => PartialValue::new_utf8s(ops::DESCS[v as usize % ops::DESCS.len()]),
        "mail" => PartialValue::EmailAddress(format!("m{}@example.org", v % 4)),
        "member" | "entry_managed_by" => {
            let e = if v % 2 == 0 { Ent::P(v / 2) } else { Ent::G(v / 2) };
            PartialValue::Refer(uuid_of(norm_ent(e, p)))
        }
        "gidnumber" => PartialValue::Uint32(71000 + (v % 4) as u32),
        "class" => PartialValue::new_iutf8(W_CLASSES[v as usize % W_CLASSES.len()]),
        "name" => PartialValue::new_iname(&format!("renamed_{}", v % 3)),
        _ => return None,
    })
}

/// What a modify list adds / removes (attributes and classes), given the stored entry.
#[derive(Debug, Default)]
struct Touch {
    pres: BTreeSet<String>,
    rem: BTreeSet<String>,
    pres_cls: BTreeSet<String>,
    rem_cls: BTreeSet<String>,
    purges_class: bool,
}

fn touch_of(mods: &[Md], stored: &MEntry) -> Touch {
    let mut t = Touch::default();
    for m in mods {
        match m {
            Md::Present(a, v) => {
                let an = W_ATTRS[*a as usize % W_ATTRS.len()];
                t.pres.insert(an.into());
                if an == "class" {
                    t.pres_cls.insert(W_CLASSES[*v as usize % W_CLASSES.len()].into());
                }
            }
            Md::Removed(a, v) => {
                let an = W_ATTRS[*a as usize % W_ATTRS.len()];
                t.rem.insert(an.into());
                if an == "class" {
                    t.rem_cls.insert(W_CLASSES[*v as usize % W_CLASSES.len()].into());
                }
            }
            Md::Purged(a) => {
                let an = W_ATTRS[*a as usize % W_ATTRS.len()];
                t.rem.insert(an.into());
                if an == "class" {
                    t.purges_class = true;
                }
            }
            Md::Set(a, vs) => {
                let an = W_ATTRS[*a as usize % W_ATTRS.len()];
                t.pres.insert(an.into());
                t.rem.insert(an.into());
                if an == "class" {
                    let new: BTreeSet<String> = vs.iter().map(|v| W_CLASSES[*v as usize % W_CLASSES.len()].to_string()).collect();
                    let cur = stored.get("class").cloned().unwrap_or_default();
                    t.pres_cls.extend(new.difference(&cur).cloned());
                    t.rem_cls.extend(cur.difference(&new).cloned());
                }
            }
        }
    }
    t
}

fn steer_mods(mods: &[Md], g: &Acp) -> Vec<Md> {
    let idx = |set: &BTreeSet<String>, pool: &[&str], k: u8| -> Option<u8> {
        // keep the generated choice when it is granted already
        if set.contains(pool[k as usize % pool.len()]) {
            return Some(k % pool.len() as u8);
        }
        let v: Vec<u8> = set.iter().filter_map(|s| pool.iter().position(|p| p == s)).map(|i| i as u8).collect();
        if v.is_empty() {
            None
        } else {
            Some(v[k as usize % v.len()])
        }
    };
    mods.iter()
        .map(|m| match m {
            Md::Present(a, v) => {
                let a2 = idx(&g.mod_pres_attrs, &W_ATTRS, *a).unwrap_or(*a);
                let v2 = if W_ATTRS[a2 as usize % W_ATTRS.len()] == "class" { idx(&g.mod_pres_classes, &W_CLASSES, *v).unwrap_or(*v) } else { *v };
                Md::Present(a2, v2)
            }
            Md::Removed(a, v) => {
                let a2 = idx(&g.mod_rem_attrs, &W_ATTRS, *a).unwrap_or(*a);
                let v2 = if W_ATTRS[a2 as usize % W_ATTRS.len()] == "class" { idx(&g.mod_rem_classes, &W_CLASSES, *v).unwrap_or(*v) } else { *v };
                Md::Removed(a2, v2)
            }
            Md::Purged(a) => Md::Purged(idx(&g.mod_rem_attrs, &W_ATTRS, *a).unwrap_or(*a)),
            Md::Set(a, vs) => {
                let both: BTreeSet<String> = g.mod_pres_attrs.intersection(&g.mod_rem_attrs).cloned().collect();
                Md::Set(idx(&both, &W_ATTRS, *a).unwrap_or(*a), vs.clone())
            }
        })
        .collect()
}

/// The part of a requested change that really happened on the target entry.
fn effective(t: &Touch, before: &MEntry, after: &MEntry) -> Touch {
    let empty = BTreeSet::new();
    let gained = |a: &str| after.get(a).unwrap_or(&empty).difference(before.get(a).unwrap_or(&empty)).next().is_some();
    let lost = |a: &str| before.get(a).unwrap_or(&empty).difference(after.get(a).unwrap_or(&empty)).next().is_some();
    let bc = before.get("class").cloned().unwrap_or_default();
    let ac = after.get("class").cloned().unwrap_or_default();
    Touch {
        pres: t.pres.iter().filter(|a| gained(a)).cloned().collect(),
        rem: t.rem.iter().filter(|a| lost(a)).cloned().collect(),
        pres_cls: t.pres_cls.iter().filter(|c| ac.contains(*c) && !bc.contains(*c)).cloned().collect(),
        rem_cls: t.rem_cls.iter().filter(|c| bc.contains(*c) && !ac.contains(*c)).cloned().collect(),
        purges_class: t.purges_class,
    }
}

struct Grants {
    pres: BTreeSet<String>,
    rem: BTreeSet<String>,
    pres_cls: BTreeSet<String>,
    rem_cls: BTreeSet<String>,
    delete: bool,
}

fn grants_of(acps: &[Acp], who: &Who, e: &MEntry) -> Grants {
    let mut g = Grants {
        pres: BTreeSet::new(),
        rem: BTreeSet::new(),
        pres_cls: BTreeSet::new(),
        rem_cls: BTreeSet::new(),
        delete: false,
    };
    for a in acps.iter().filter(|a| a.applies(who, e)) {
        if a.modify {
            g.pres.extend(a.mod_pres_attrs.iter().cloned());
            g.rem.extend(a.mod_rem_attrs.iter().cloned());
            g.pres_cls.extend(a.mod_pres_classes.iter().cloned());
            g.rem_cls.extend(a.mod_rem_classes.iter().cloned());
        }
        if a.delete {
            g.delete = true;
        }
    }
    g
}

fn missing(t: &Touch, g: &Grants) -> usize {
    t.pres.difference(&g.pres).count() + t.rem.difference(&g.rem).count() + t.pres_cls.difference(&g.pres_cls).count() + t.rem_cls.difference(&g.rem_cls).count()
}

fn is_protected(m: &MEntry) -> bool {
    PROTECTED.iter().any(|c| ga::has_class(m, c))
}

fn run_case(rt: &tokio::runtime::Runtime, c: &Case) -> Outcome {
    let c = &normalise(c);
    let mut log = CaseLog::new();
    rt.block_on(async {
        let qs = match build(c).await {
            Ok(q) => q,
            Err(e) => {
                log.class(format!("world-rejected:{}", e.chars().take(80).collect::<String>()));
                return;
            }
        };
        let p = &c.pop;
        let (all, base, acps) = {
            let mut r = qs.read().await.expect("read");
            let stored = dump::all_entries(&mut r).expect("entries");
            let all: Vec<MEntry> = ga::mentries(&stored);
            let base = dump::dump_all(&mut r).expect("dump");
            let acps = ga::acps_of(&all);
            (all, base, acps)
        };
        let by: BTreeMap<Uuid, &MEntry> = all.iter().map(|m| (m.uuid, m)).collect();
        let gen: Vec<&Acp> = acps.iter().filter(|a| a.name.starts_with("gen_acp_")).collect();
        let accounts = world::live_accounts(p);
        if accounts.is_empty() {
            log.class("world:no-live-account");
            return;
        }
        let mut n_ok = 0;
        let mut n_near = 0;
        let opts = DiffOpts {
            skip_attrs: &[],
            ids: true,
            changestate: true,
        };
        for (ri, q) in c.reqs.iter().enumerate() {
            // ---- choose caller and target (generation aid: steer towards a generated profile) ----
            let mut caller = {
                let e = norm_ent(q.who, p);
                if world::live_spec(e, p) && !matches!(e, Ent::G(_)) {
                    e
                } else {
                    accounts[ri % accounts.len()]
                }
            };
            let guide: Option<&Acp> = q.guided.and_then(|k| gen.get(k as usize % gen.len().max(1)).copied());
            if let Some(g) = guide {
                if let ga::Recv::Groups(gs) = &g.receiver {
                    if let Some(a) = accounts.iter().find(|a| {
                        let w = ga::who_of(&all, uuid_of(**a));
                        gs.iter().any(|x| w.groups.contains(x))
                    }) {
                        caller = *a;
                    }
                }
            }
            let cu = uuid_of(caller);
            let who = ga::who_of(&all, cu);
            let steer = |t: &Tgt, want_recycled: bool| -> Uuid {
                let given = match t {
                    Tgt::E(e) => uuid_of(norm_ent(*e, p)),
                    Tgt::Builtin(i) => BUILTIN[*i as usize % BUILTIN.len()],
                };
                if matches!(t, Tgt::Builtin(_)) {
                    return given;
                }
                if let Some(g) = guide {
                    let mut cands: Vec<Uuid> = all
                        .iter()
                        .filter(|m| m.uuid >= DYNAMIC_RANGE_MINIMUM_UUID && !ga::has_class(m, "access_control_profile"))
                        .filter(|m| ga::has_class(m, "recycled") == want_recycled && !ga::has_class(m, "tombstone"))
                        .filter(|m| g.applies(&who, m))
                        .map(|m| m.uuid)
                        .collect();
                    cands.sort();
                    if !cands.is_empty() && ri % 4 != 3 {
                        return cands[ri % cands.len()];
                    }
                }
                given
            };
            let ident = {
                let mut r = qs.read().await.expect("read");
                let rw = ga::ident_of(&mut r, cu, true).expect("caller identity");
                match q.scope {
                    Scope::ReadWrite => rw,
                    Scope::ReadOnly => rw.project_with_scope(AccessScope::ReadOnly),
                    Scope::Synchronise => rw.project_with_scope(AccessScope::Synchronise),
                    Scope::SyncIdentity => haccess::sync_identity(cu, if ri % 2 == 0 { AccessScope::Synchronise } else { AccessScope::ReadWrite }),
                }
            };
            let may_write = q.scope == Scope::ReadWrite;
            let mut w = qs.write(ct(9_000_000)).await.expect("write");
            let ctx = |extra: String| -> String { format!("request #{ri} caller {caller:?} scope {:?} op {:?} | {extra}", q.scope, q.op) };
            let scope_sig = |what: &str| -> String {
                match q.scope {
                    Scope::ReadOnly => format!("read-only identity performed a {what}"),
                    Scope::Synchronise => format!("identity with synchronise scope performed a {what}"),
                    Scope::SyncIdentity => format!("synchronisation identity performed a {what}"),
                    Scope::ReadWrite => unreachable!(),
                }
            };
            // ---- run + judge ---------------------------------------------------------------------
            let result: Result<(), OperationError> = match &q.op {
                WOp::Modify { target, mods, raw } => {
                    let t = steer(target, false);
                    let Some(stored) = by.get(&t) else { continue };
                    // generation aid: two thirds of the steered requests also draw their attributes / classes from what the guiding profile grants
                    let steered: Vec<Md> = match guide {
                        Some(g) if g.modify && ri % 3 != 2 => steer_mods(mods, g),
                        _ => mods.clone(),
                    };
                    let mods = &steered;
                    let mut ml = Vec::new();
                    for m in mods {
                        let x = match m {
                            Md::Present(a, v) => value_of(W_ATTRS[*a as usize % W_ATTRS.len()], *v, p).map(|val| Modify::Present(Attribute::from(W_ATTRS[*a as usize % W_ATTRS.len()]), val)),
                            Md::Removed(a, v) => pvalue_of(W_ATTRS[*a as usize % W_ATTRS.len()], *v, p).map(|val| Modify::Removed(Attribute::from(W_ATTRS[*a as usize % W_ATTRS.len()]), val)),
                            Md::Purged(a) => Some(Modify::Purged(Attribute::from(W_ATTRS[*a as usize % W_ATTRS.len()]))),
                            Md::Set(a, vs) => {
                                let an = W_ATTRS[*a as usize % W_ATTRS.len()];
                                let vals: Vec<Value> = vs.iter().filter_map(|v| value_of(an, *v, p)).collect();
                                kanidmd_lib::valueset::from_value_iter(vals.into_iter()).ok().map(|s| Modify::Set(Attribute::from(an), s))
                            }
                        };
                        if let Some(x) = x {
                            ml.push(x);
                        }
                    }
                    let mlist = ModifyList::new_list(ml);
                    let r = match ModifyEvent::from_internal_parts(ident.clone(), &mlist, &ga::uuid_filter_all(t), &w) {
                        Ok(mut me) => {
                            if *raw {
                                me.filter = me.filter_orig.clone();
                            }
                            w.modify(&me)
                        }
                        Err(e) => Err(e),
                    };
                    if r.is_ok() {
                        log.class("modify:ok");
                        if !may_write {
                            log.fail(scope_sig("modify"), ctx(String::new()));
                            return;
                        }
                        // judge what the request actually added / removed (a no-op item, e.g. removing a value that is
                        // not there, adds or removes nothing)
                        let requested = touch_of(mods, stored);
                        let Some(after) = ga::mentry_any(&mut w, t) else {
                            log.fail("modified entry vanished", ctx(format!("{t}")));
                            return;
                        };
                        let touch = effective(&requested, stored, &after);
                        if touch.pres != requested.pres || touch.rem != requested.rem || touch.pres_cls != requested.pres_cls || touch.rem_cls != requested.rem_cls {
                            log.class("modify:ok-with-no-op-items");
                        }
                        let g = grants_of(&acps, &who, stored);
                        if ga::has_class(stored, "tombstone") {
                            log.fail("a tombstone was modified", ctx(format!("target {t}")));
                            return;
                        }
                        if touch.purges_class {
                            log.fail("the class attribute was purged", ctx(format!("target {t}")));
                            return;
                        }
                        if let Some(c) = touch.pres_cls.iter().find(|c| PROTECTED.contains(&c.as_str())) {
                            log.fail("a protected class was added by a modify", ctx(format!("class {c} on {t}")));
                            return;
                        }
                        if let Some(c) = touch.rem_cls.iter().find(|c| PROTECTED.contains(&c.as_str())) {
                            log.fail("a protected class was removed by a modify", ctx(format!("class {c} on {t}")));
                            return;
                        }
                        let miss = missing(&touch, &g);
                        if miss > 0 {
                            log.fail(
                                "modify succeeded without a matching grant for everything it adds or removes",
                                ctx(format!(
                                    "target {} ({t}): adds {:?} removes {:?} +classes {:?} -classes {:?}; granted pres {:?} rem {:?} +cls {:?} -cls {:?}",
                                    ga::name_of(stored),
                                    touch.pres,
                                    touch.rem,
                                    touch.pres_cls,
                                    touch.rem_cls,
                                    g.pres,
                                    g.rem,
                                    g.pres_cls,
                                    g.rem_cls
                                )),
                            );
                            return;
                        }
                        if is_protected(stored) {
                            log.class("modify:ok-on-protected-entry(within its allowed attributes)");
                        }
                    } else if may_write && matches!(r, Err(OperationError::AccessDenied)) {
                        let touch = touch_of(mods, stored);
                        let g = grants_of(&acps, &who, stored);
                        let hard = touch.purges_class
                            || ga::has_class(stored, "tombstone")
                            || touch.pres_cls.iter().chain(touch.rem_cls.iter()).any(|c| PROTECTED.contains(&c.as_str()));
                        match (hard, missing(&touch, &g)) {
                            (true, 0) => log.class("modify:denied-only-by-an-unconditional-rule"),
                            (true, _) => log.class("modify:denied(unconditional rule and missing grants)"),
                            (false, 1) => {
                                n_near += 1;
                                log.class("modify:denied-by-exactly-one-missing-grant")
                            }
                            (false, 0) => log.class("diag:modify-denied-although-model-grants"),
                            (false, _) => log.class("modify:denied(several missing grants)"),
                        }
                    }
                    r
                }
                WOp::Create { kind, name, desc, member, extra_class, builtin_uuid } => {
                    let nm = format!("created_{}", name % 4);
                    let nu = if *builtin_uuid { Uuid::from_u128(0x0000_0000_0000_0000_0000_0000_00ff_0000 + *name as u128) } else { pop::uuid_of(Kind::Other, 700 + *name as u32 % 4) };
                    let mut e = match kind % 3 {
                        0 => pop::group(nu, &nm, &[]),
                        1 => pop::person(nu, &nm),
                        _ => pop::service(nu, &nm),
                    };
                    if let Some(d) = desc {
                        e.add_ava(Attribute::Description, Value::new_utf8s(ops::DESCS[*d as usize % ops::DESCS.len()]));
                    }
                    if let (0, Some(m)) = (kind % 3, member) {
                        e.add_ava(Attribute::Member, Value::Refer(uuid_of(norm_ent(*m, p))));
                    }
                    if let Some(x) = extra_class {
                        e.add_ava(Attribute::Class, Value::new_iutf8(W_CLASSES[*x as usize % W_CLASSES.len()]));
                    }
                    let me = ga::mentry_of_new(&e);
                    let r = w.create(&CreateEvent::new_impersonate_identity(ident.clone(), vec![e])).map(|_| ());
                    if r.is_ok() {
                        log.class("create:ok");
                        if !may_write {
                            log.fail(scope_sig("create"), ctx(String::new()));
                            return;
                        }
                        if is_protected(&me) {
                            log.fail("an entry with a protected class was created", ctx(format!("classes {:?}", me.get("class"))));
                            return;
                        }
                        if nu <= UUID_ANONYMOUS {
                            log.fail("an entry in the built-in uuid range was created", ctx(format!("{nu}")));
                            return;
                        }
                        // permissive reading: union over the applicable create profiles
                        let mut ca = BTreeSet::new();
                        let mut cc = BTreeSet::new();
                        for a in acps.iter().filter(|a| a.create && a.enabled && matches!(a.receiver, ga::Recv::Groups(_)) && a.receiver_matches(&who, &me) && a.target_matches(&who, &me)) {
                            ca.extend(a.create_attrs.iter().cloned());
                            cc.extend(a.create_classes.iter().cloned());
                        }
                        let attrs: BTreeSet<String> = me.attrs.keys().cloned().collect();
                        let classes = me.get("class").cloned().unwrap_or_default();
                        if !attrs.is_subset(&ca) || !classes.is_subset(&cc) {
                            log.fail(
                                "create succeeded without a matching grant for every attribute and class",
                                ctx(format!("attrs {attrs:?} classes {classes:?}; granted attrs {ca:?} classes {cc:?}")),
                            );
                            return;
                        }
                    } else if may_write && matches!(r, Err(OperationError::AccessDenied)) {
                        log.class("create:denied");
                    }
                    r
                }
                WOp::Delete { target, raw } => {
                    let t = steer(target, false);
                    let Some(stored) = by.get(&t) else { continue };
                    let r = match DeleteEvent::from_parts(ident.clone(), &ga::uuid_filter_all(t), &mut w) {
                        Ok(mut de) => {
                            if *raw {
                                de.filter = de.filter_orig.clone();
                            }
                            w.delete(&de)
                        }
                        Err(e) => Err(e),
                    };
                    if r.is_ok() {
                        log.class("delete:ok");
                        if !may_write {
                            log.fail(scope_sig("delete"), ctx(String::new()));
                            return;
                        }
                        if t <= UUID_ANONYMOUS {
                            log.fail("a built-in entry was deleted", ctx(format!("{} ({t})", ga::name_of(stored))));
                            return;
                        }
                        if is_protected(stored) {
                            log.fail("a protected entry was deleted", ctx(format!("{} classes {:?}", ga::name_of(stored), stored.get("class"))));
                            return;
                        }
                        if !grants_of(&acps, &who, stored).delete {
                            log.fail("delete succeeded without a matching delete grant", ctx(format!("{} ({t})", ga::name_of(stored))));
                            return;
                        }
                    } else if may_write && matches!(r, Err(OperationError::AccessDenied)) {
                        if !is_protected(stored) && t > UUID_ANONYMOUS {
                            log.class("delete:denied-for-lack-of-grant");
                            n_near += 1;
                        } else {
                            log.class("delete:denied(protected or built-in)");
                        }
                    }
                    r
                }
                WOp::Revive { target } => {
                    let t = steer(target, true);
                    let Some(stored) = by.get(&t) else { continue };
                    let r = match ReviveRecycledEvent::from_parts(ident.clone(), &ga::uuid_filter_all(t), &w) {
                        Ok(re) => w.revive_recycled(&re),
                        Err(e) => Err(e),
                    };
                    if r.is_ok() {
                        log.class("revive:ok");
                        if !may_write {
                            log.fail(scope_sig("revive"), ctx(String::new()));
                            return;
                        }
                        if ga::has_class(stored, "tombstone") || !ga::has_class(stored, "recycled") {
                            log.fail("revive succeeded on an entry that is not in the recycle bin", ctx(format!("{} classes {:?}", ga::name_of(stored), stored.get("class"))));
                            return;
                        }
                        let g = grants_of(&acps, &who, stored);
                        if !(g.rem.contains("class") && g.rem_cls.contains("recycled")) {
                            log.fail(
                                "revive succeeded without a grant to remove class 'recycled'",
                                ctx(format!("{}: granted rem {:?} -cls {:?}", ga::name_of(stored), g.rem, g.rem_cls)),
                            );
                            return;
                        }
                    } else if may_write && matches!(r, Err(OperationError::AccessDenied)) {
                        log.class("revive:denied");
                    }
                    r
                }
            };
            match &result {
                Ok(()) => {
                    n_ok += 1;
                }
                Err(e) => {
                    if !may_write {
                        log.class(format!("refused:{:?}", q.scope));
                    }
                    match e {
                        OperationError::AccessDenied => log.class("result:access-denied"),
                        OperationError::NoMatchingEntries => log.class("result:target-not-visible"),
                        _ => log.class("result:other-error"),
                    }
                    // a request refused by access control (or for lack of visibility) must not have touched anything,
                    // not even inside its own transaction. (Other errors may leave partial state in the transaction,
                    // which callers abort; nothing is ever committed here.)
                    if !matches!(e, OperationError::AccessDenied | OperationError::NoMatchingEntries) {
                        continue;
                    }
                    let after = dump::dump_all(&mut w).expect("dump");
                    let d = dump::diff(&base, &after, &opts);
                    if !d.is_empty() {
                        log.fail(
                            "a write refused by access control changed data inside its transaction",
                            ctx(format!("{e:?}; {}", d.into_iter().take(5).collect::<Vec<_>>().join(" ; "))),
                        );
                        return;
                    }
                }
            }
            drop(w);
        }
        if n_ok > 0 {
            log.class("world:some-write-succeeded");
        }
        if n_ok > 0 || n_near > 0 {
            log.nontrivial();
        }
    });
    log.finish()
}

fn main() {
    let cx = Check::from_args("C24", "exploration");
    cx.rule(
        "generated worlds (3-5 persons, 1-2 service accounts, 3-5 nested groups, entry managers, shipped role memberships, recycled and tombstoned entries, OAuth2 client) with 2-6 generated \
         modify/create/delete(+search) ACPs (group or entry-manager receiver, generated target scope, random attribute and class sets incl. protected classes, 8% disabled) on top of the shipped ACPs; \
         per world 10-16 write requests: modify (1-3 present/removed/purged/set items on 9 attributes incl. class with protected classes; 15% with an unmasked filter that can reach recycled/tombstoned entries), \
         create (group/person/service, optional protected class, optional built-in uuid), delete, revive; caller scope read-write (75%), read-only, synchronise scope, synchronisation identity; \
         70% of requests are steered (caller in the receiver group / target inside the scope of a generated ACP). Each request runs in its own rolled-back write transaction on the same base state. \
         non-trivial = a write succeeded or was denied with exactly one missing grant; distinct by hash of the case",
    );
    cx.assume(
        "grant model = stored ACP entries (live, not acp_enable=false) whose receiver and target scope match caller and pre-state entry; where several profiles apply their grants are UNITED \
         (attributes and classes separately; for create too, although the server demands a single covering profile) — the more permissive reading. 'set' counts as adding and removing the attribute; a set of class is judged by its \
         difference to the stored classes. Only items of a request that really changed the target entry are judged (removing an absent value adds/removes nothing). Protected classes as listed in the property (system, domain_info, system_info, system_config, dyngroup, sync_object, tombstone, recycled); built-in = uuid <= anonymous. \
         Over-refusal is only counted (diag:*). Requests refused with AccessDenied / NoMatchingEntries are compared by canonical dump (all attributes, ids, change state) against the base state inside the same transaction; other errors abort the transaction by contract and nothing is ever committed.",
    );
    let n = cx.tier.pick(400, 10_000);
    let nreq = cx.tier.pick(10..17usize, 14..28usize);
    cx.prop("worlds-x-writes", PropCfg::new(n).shrink(200), || arb_case(nreq.clone()), srv::runtime, |rt, c| run_case(rt, c));
    cx.require_class("modify:ok", 60);
    cx.require_class("modify:denied-by-exactly-one-missing-grant", 60);
    cx.require_class("delete:ok", 15);
    cx.require_class("create:ok", 10);
    cx.require_class("refused:ReadOnly", 30);
    cx.finish();
}
