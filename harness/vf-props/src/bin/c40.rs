//! C40 — The LDAP gateway is read-only and no more privileged than its bind.
//!
//! Sequences of the operations the LDAP front-end can express (bind, search, compare, whoami,
//! unbind) through `LdapServer::do_op` on a generated configuration (unix-bind flag on/off) with
//! POSIX accounts, an application with a linked group and application passwords, an expired and a
//! not-yet-valid account and an API token.
//!
//!  * the canonical dump of the database is identical before and after the sequence;
//!  * a bind that succeeds must be justified by the harness's ledger (right secret of the right
//!    kind, flag on for POSIX passwords, group membership for application passwords, account valid);
//!  * after a password / application bind every search and compare answers exactly what the
//!    anonymous bind gets;
//!  * a subtree search returns the same entries and the same values of a fixed attribute list as a
//!    native search with the same (server-translated) filter by the effective identity, minus
//!    schema / access-control entries.
use kanidmd_lib::constants::uuids::*;
use kanidmd_lib::entry::Entry;
use kanidmd_lib::idm::application::GenerateApplicationPasswordEvent;
use kanidmd_lib::idm::event::UnixPasswordChangeEvent;
use kanidmd_lib::idm::ldap::{LdapBoundToken, LdapResponseState, LdapServer, LdapSession};
use kanidmd_lib::idm::serviceaccount::GenerateApiTokenEvent;
use kanidmd_lib::prelude::*;
use kanidmd_lib::value::Value;
use kanidmd_lib::verif_hooks::ident;
use kanidmd_lib::verif_hooks::proto::ldap3_proto::proto::{LdapFilter, LdapMsg, LdapOp, LdapSearchScope};
use kanidmd_lib::verif_hooks::proto::ldap3_proto::simple::{CompareRequest, SearchRequest, ServerOps, SimpleBindRequest, UnbindRequest, WhoamiRequest};
use proptest::prelude::*;
use serde::{Deserialize, Serialize};
use std::collections::{BTreeMap, BTreeSet};
use vf_core::{CaseLog, Check, Outcome, PropCfg};
use vf_world::dump;
use vf_world::pop;
use vf_world::srv;

const BASEDN: &str = "dc=example,dc=com";
const PW_PU: &str = "posix-password-of-pu-1";
const PW_PM: &str = "posix-password-of-pm-2";
const PW_PN: &str = "posix-password-of-pn-3";
const PW_PX: &str = "posix-password-of-px-4";
const PW_PF: &str = "posix-password-of-pf-5";

#[derive(Debug, Clone, Copy, PartialEq, Eq, Hash, PartialOrd, Ord, Serialize, Deserialize)]
enum U {
    /// posix person, not in the application group
    Pu,
    /// posix person, member of the application's linked group, has an application password
    Pm,
    /// posix person, NOT a member, but an application password was issued to it
    Pn,
    /// expired posix person (expired in 2001)
    Px,
    /// posix person valid from 2099
    Pf,
    Nobody,
}
impl U {
    fn name(&self) -> &'static str {
        match self {
            U::Pu => "pu",
            U::Pm => "pm",
            U::Pn => "pn",
            U::Px => "px",
            U::Pf => "pf",
            U::Nobody => "nobody",
        }
    }
    fn uuid(&self) -> Uuid {
        pop::person_uuid(match self {
            U::Pu => 0,
            U::Pm => 1,
            U::Pn => 2,
            U::Px => 3,
            U::Pf => 4,
            U::Nobody => 9,
        })
    }
    fn unix_pw(&self) -> Option<&'static str> {
        match self {
            U::Pu => Some(PW_PU),
            U::Pm => Some(PW_PM),
            U::Pn => Some(PW_PN),
            U::Px => Some(PW_PX),
            U::Pf => Some(PW_PF),
            U::Nobody => None,
        }
    }
    fn valid(&self) -> bool {
        matches!(self, U::Pu | U::Pm | U::Pn)
    }
}

#[derive(Debug, Clone, Copy, PartialEq, Eq, Hash, Serialize, Deserialize)]
enum Secret {
    /// the POSIX password of the named user
    Unix(U),
    /// the application password issued to Pm / Pn
    AppOf(U),
    Token,
    Empty,
    Wrong,
}

#[derive(Debug, Clone, PartialEq, Eq, Hash, Serialize, Deserialize)]
enum Op {
    /// dn form: 0 "", 1 name, 2 spn, 3 uuid, 4 name=..,dc, 5 spn=..,dc, 6 uuid=..,dc, 7 "dn=token", 8 garbage; `app` appends the application
    Bind { who: U, form: u8, app: bool, secret: Secret },
    Search { filter: u8, attrs: u8, base: u8 },
    Compare { who: U, attr: u8, val: u8 },
    Whoami,
    Unbind,
}

#[derive(Debug, Clone, Serialize, Deserialize)]
struct Case {
    unix_bind_flag: bool,
    ops: Vec<Op>,
}

struct World {
    idms: IdmServer,
    _d: IdmServerDelayed,
    _a: IdmServerAudit,
    ldaps: LdapServer,
    app_pw: BTreeMap<U, String>,
    token: String,
}

async fn setup(flag: bool) -> World {
    let qs = srv::new_qs().await;
    let (idms, d, a) = srv::new_idms(qs).await;
    let ct = srv::ct(10);
    let sa = pop::service_uuid(0);
    let grp = pop::group_uuid(0);
    let app = pop::uuid_of(pop::Kind::Other, 0xa99);
    let mut app_pw = BTreeMap::new();
    let token;
    {
        let mut w = idms.proxy_write(ct).await.expect("write");
        let mut ents: Vec<pop::NewEntry> = Vec::new();
        for (i, u) in [U::Pu, U::Pm, U::Pn, U::Px, U::Pf].into_iter().enumerate() {
            let mut e = pop::person(u.uuid(), u.name());
            e.add_ava(Attribute::Class, EntryClass::PosixAccount.to_value());
            e.add_ava(Attribute::GidNumber, Value::Uint32(70001 + i as u32));
            e.add_ava(Attribute::Mail, Value::EmailAddress(format!("{}@example.com", u.name()), true));
            if u == U::Px {
                e.add_ava(Attribute::AccountExpire, Value::new_datetime_epoch(Duration::from_secs(1_000_000_000)));
            }
            if u == U::Pf {
                e.add_ava(Attribute::AccountValidFrom, Value::new_datetime_epoch(Duration::from_secs(4_080_000_000)));
            }
            ents.push(e);
        }
        ents.push(pop::service(sa, "sa_reader"));
        ents.push(pop::group(grp, "app_users", &[U::Pm.uuid()]));
        let mut e: pop::NewEntry = Entry::new();
        e.add_ava(Attribute::Class, EntryClass::Object.to_value());
        e.add_ava(Attribute::Class, EntryClass::Account.to_value());
        e.add_ava(Attribute::Class, EntryClass::ServiceAccount.to_value());
        e.add_ava(Attribute::Class, EntryClass::Application.to_value());
        e.add_ava(Attribute::DisplayName, Value::new_utf8s("Application"));
        e.add_ava(Attribute::Name, Value::new_iname("app1"));
        e.add_ava(Attribute::Uuid, Value::Uuid(app));
        e.add_ava(Attribute::LinkedGroup, Value::Refer(grp));
        ents.push(e);
        w.qs_write.internal_create(ents).expect("population");
        w.qs_write
            .internal_modify_uuid(UUID_DOMAIN_INFO, &ModifyList::new_purge_and_set(Attribute::LdapAllowUnixPwBind, Value::Bool(flag)))
            .expect("flag");
        for u in [U::Pu, U::Pm, U::Pn, U::Px, U::Pf] {
            let ev = UnixPasswordChangeEvent { ident: ident::internal(), target: u.uuid(), cleartext: u.unix_pw().expect("pw").to_string() };
            w.set_unix_account_password(&ev).expect("unix password");
        }
        for u in [U::Pm, U::Pn] {
            let ev = GenerateApplicationPasswordEvent { ident: ident::internal(), target: u.uuid(), application: app, label: "label".to_string() };
            if let Ok((pw, _)) = w.generate_application_password(&ev) {
                app_pw.insert(u, pw);
            }
        }
        let gte = GenerateApiTokenEvent { ident: ident::internal(), target: sa, label: "t".into(), expiry: None, read_write: false, compact: false };
        token = w.service_account_generate_api_token(&gte, ct).expect("api token").to_string();
        w.commit().expect("commit");
    }
    let ldaps = LdapServer::new(&idms).await.expect("ldap server");
    World { idms, _d: d, _a: a, ldaps, app_pw, token }
}

fn bind_dn(who: U, form: u8, app: bool) -> String {
    let n = who.name();
    let base = match form % 9 {
        0 => String::new(),
        1 => n.to_string(),
        2 => format!("{n}@example.com"),
        3 => who.uuid().as_hyphenated().to_string(),
        4 => format!("name={n},{BASEDN}"),
        5 => format!("spn={n}@example.com,{BASEDN}"),
        6 => format!("uuid={},{BASEDN}", who.uuid().as_hyphenated()),
        7 => "dn=token".to_string(),
        _ => format!("cn={n},ou=people,dc=elsewhere"),
    };
    if app && !base.is_empty() && form % 9 != 7 {
        // name=x,app=app1,dc=.. / x,app=app1
        match base.find(&format!(",{BASEDN}")) {
            Some(p) => format!("{},app=app1{}", &base[..p], &base[p..]),
            None => format!("{base},app=app1"),
        }
    } else {
        base
    }
}

fn filters() -> Vec<LdapFilter> {
    let eq = |a: &str, v: &str| LdapFilter::Equality(a.to_string(), v.to_string());
    vec![
        eq("class", "person"),
        eq("name", "pu"),
        eq("cn", "pm"),
        LdapFilter::And(vec![eq("class", "account"), LdapFilter::Not(Box::new(eq("name", "pu")))]),
        eq("gidnumber", "70001"),
        LdapFilter::Present("mail".to_string()),
        eq("uuid", &U::Pn.uuid().as_hyphenated().to_string()),
        LdapFilter::Or(vec![eq("name", "px"), eq("name", "pf"), eq("name", "app_users")]),
        eq("class", "group"),
        eq("mail", "pu@example.com"),
        eq("class", "access_control_profile"),
        eq("class", "attributetype"),
        LdapFilter::Present("objectclass".to_string()),
        eq("memberof", &pop::group_uuid(0).as_hyphenated().to_string()),
        eq("class", "application"),
        LdapFilter::Present("unix_password".to_string()),
    ]
}

fn attr_sets() -> Vec<Vec<String>> {
    vec![
        vec![],
        vec!["*".into()],
        vec!["name".into(), "mail".into(), "gidnumber".into(), "entryuuid".into()],
        vec!["+".into()],
        vec!["1.1".into()],
        vec!["uuid".into(), "unix_password".into(), "primary_credential".into(), "mail".into()],
    ]
}

type Entries = BTreeMap<String, BTreeMap<String, BTreeSet<String>>>;

fn entries_of(msgs: &[LdapMsg]) -> Entries {
    let mut out = Entries::new();
    for m in msgs {
        if let LdapOp::SearchResultEntry(e) = &m.op {
            let attrs = out.entry(e.dn.clone()).or_default();
            for a in &e.attributes {
                let set = attrs.entry(a.atype.clone()).or_default();
                for v in &a.vals {
                    set.insert(String::from_utf8_lossy(v).to_string());
                }
            }
        }
    }
    out
}

fn result_code(msgs: &[LdapMsg]) -> String {
    msgs.last()
        .map(|m| match &m.op {
            LdapOp::SearchResultDone(r) | LdapOp::CompareResult(r) => format!("{:?}", r.code),
            LdapOp::BindResponse(r) => format!("{:?}", r.res.code),
            other => format!("{other:?}").chars().take(40).collect(),
        })
        .unwrap_or_default()
}

async fn do_search(w: &World, tok: &LdapBoundToken, sr: SearchRequest) -> Result<Vec<LdapMsg>, String> {
    match w.ldaps.do_op(&w.idms, ServerOps::Search(sr), Some(tok.clone()), "127.0.0.1".parse().expect("ip"), Uuid::nil()).await {
        Ok(LdapResponseState::MultiPartResponse(m)) => Ok(m),
        Ok(LdapResponseState::Respond(m)) => Ok(vec![m]),
        Ok(_) => Err("unexpected response state".into()),
        Err(e) => Err(format!("{e:?}")),
    }
}

async fn anon_token(w: &World) -> Option<LdapBoundToken> {
    let sbr = SimpleBindRequest { msgid: 1, dn: String::new(), pw: String::new() };
    match w.ldaps.do_op(&w.idms, ServerOps::SimpleBind(sbr), None, "127.0.0.1".parse().expect("ip"), Uuid::nil()).await {
        Ok(LdapResponseState::Bind(t, _)) => Some(t),
        _ => None,
    }
}

/// native search by the effective identity of `tok` with the same client filter
async fn native(w: &World, tok: &LdapBoundToken, f: &LdapFilter) -> Result<BTreeMap<Uuid, BTreeMap<String, BTreeSet<String>>>, String> {
    let mut r = w.idms.proxy_read().await.map_err(|e| format!("{e:?}"))?;
    let id_uuid = match &tok.effective_session {
        LdapSession::UnixBind(_) | LdapSession::ApplicationPasswordBind(..) => UUID_ANONYMOUS,
        LdapSession::ApiToken(t) => t.account_id,
        LdapSession::UserAuthToken(_) => return Err("uat session".into()),
    };
    let ent = r.qs_read.internal_search_uuid(id_uuid).map_err(|e| format!("{e:?}"))?;
    let id = ident::user_readonly(ent);
    let filt = Filter::from_ldap_ro(&id, f, &mut r.qs_read).map_err(|e| format!("translate {e:?}"))?;
    let fv = filt.validate(r.qs_read.get_schema()).map_err(|e| format!("validate {e:?}"))?;
    let se = SearchEvent { ident: id, filter: fv.clone().into_ignore_hidden(), filter_orig: fv, attrs: None, effective_access_check: false };
    let res = r.qs_read.search_ext(&se).map_err(|e| format!("search {e:?}"))?;
    let mut out = BTreeMap::new();
    for e in res {
        let u = e.get_uuid();
        // schema and access-control entries are hidden from LDAP by design
        let full = r.qs_read.internal_search_uuid(u).map_err(|e| format!("{e:?}"))?;
        let hidden = ["classtype", "attributetype", "access_control_profile"].iter().any(|c| full.attribute_equality(Attribute::Class, &PartialValue::new_iutf8(c)));
        if hidden {
            continue;
        }
        let mut attrs = BTreeMap::new();
        for a in [Attribute::Name, Attribute::DisplayName, Attribute::GidNumber, Attribute::Mail, Attribute::Uuid] {
            if let Some(vs) = e.get_ava_set(&a) {
                attrs.insert(a.to_string(), vs.to_proto_string_clone_iter().collect::<BTreeSet<String>>());
            }
        }
        out.insert(u, attrs);
    }
    Ok(out)
}

async fn run(c: &Case) -> Outcome {
    let mut log = CaseLog::new();
    let w = setup(c.unix_bind_flag).await;
    log.class(if c.unix_bind_flag { "unix-bind-flag:on" } else { "unix-bind-flag:off" });
    let before = {
        let mut r = w.idms.proxy_read().await.expect("read");
        dump::dump_all(&mut r.qs_read).expect("dump")
    };
    let ip: std::net::IpAddr = "10.1.2.3".parse().expect("ip");
    let mut tok: Option<LdapBoundToken> = None;
    let flist = filters();
    let alist = attr_sets();
    for (i, op) in c.ops.iter().enumerate() {
        let ctx = format!("flag={} step {i} {op:?}", c.unix_bind_flag);
        match op {
            Op::Bind { who, form, app, secret } => {
                let dn = bind_dn(*who, *form, *app);
                let pw = match secret {
                    Secret::Unix(u) => u.unix_pw().unwrap_or("none").to_string(),
                    Secret::AppOf(u) => w.app_pw.get(u).cloned().unwrap_or_else(|| "no-app-password".into()),
                    Secret::Token => w.token.clone(),
                    Secret::Empty => String::new(),
                    Secret::Wrong => "definitely-wrong".to_string(),
                };
                let sbr = SimpleBindRequest { msgid: 1, dn: dn.clone(), pw };
                match w.ldaps.do_op(&w.idms, ServerOps::SimpleBind(sbr), tok.clone(), ip, Uuid::nil()).await {
                    Ok(LdapResponseState::Bind(t, _)) => {
                        match &t.effective_session {
                            LdapSession::UnixBind(u) if *u == UUID_ANONYMOUS => {
                                log.class("bind-ok:anonymous");
                                if !dn.is_empty() || !matches!(secret, Secret::Empty) {
                                    log.fail("anonymous session granted to a non-anonymous bind request", format!("{ctx} dn={dn:?}"));
                                }
                            }
                            LdapSession::UnixBind(u) => {
                                // both password kinds end in this session type; which one applies is decided by the DN
                                if *u != who.uuid() {
                                    log.fail("bind resolved to a different account than the DN names", format!("{ctx} dn={dn:?} bound={u}"));
                                }
                                if !who.valid() {
                                    log.fail("bind accepted for an account outside its validity window", format!("{ctx} dn={dn:?}"));
                                }
                                if *app {
                                    log.class("bind-ok:application-password");
                                    if *who != U::Pm {
                                        log.fail("application bind accepted for a user outside the application's linked group", format!("{ctx} dn={dn:?} bound={u}"));
                                    }
                                    if !matches!(secret, Secret::AppOf(s) if s == who) {
                                        log.fail("application bind accepted with a secret that is not the user's application password", format!("{ctx} dn={dn:?}"));
                                    }
                                } else {
                                    log.class("bind-ok:posix-password");
                                    let right = matches!(secret, Secret::Unix(s) if s.uuid() == *u);
                                    if !c.unix_bind_flag {
                                        log.fail("POSIX password bind accepted although the domain disables it", format!("{ctx} dn={dn:?}"));
                                    }
                                    if !right {
                                        log.fail("password bind accepted with a secret that is not the account's POSIX password", format!("{ctx} dn={dn:?} bound={u}"));
                                    }
                                }
                            }
                            LdapSession::ApplicationPasswordBind(_, u) => {
                                log.class("bind-ok:application-password");
                                if *who != U::Pm || *u != U::Pm.uuid() {
                                    log.fail("application bind accepted for a user outside the application's linked group", format!("{ctx} dn={dn:?} bound={u}"));
                                }
                                if !matches!(secret, Secret::AppOf(U::Pm)) {
                                    log.fail("application bind accepted with a secret that is not the user's application password", format!("{ctx} dn={dn:?}"));
                                }
                            }
                            LdapSession::ApiToken(_) => {
                                log.class("bind-ok:api-token");
                                if !matches!(secret, Secret::Token) {
                                    log.fail("token session granted without the token", format!("{ctx} dn={dn:?}"));
                                }
                            }
                            LdapSession::UserAuthToken(_) => {
                                log.fail("user auth token session granted by a simple bind", format!("{ctx} dn={dn:?}"));
                            }
                        }
                        tok = Some(t);
                    }
                    Ok(_) => {
                        log.class("bind-refused");
                        let would = match secret {
                            Secret::Unix(s) => *s == *who && who.valid() && !*app && form % 9 != 0 && form % 9 < 7,
                            _ => false,
                        };
                        if would && !c.unix_bind_flag {
                            log.class("bind-refused:posix-password-while-flag-off");
                        }
                        if matches!(secret, Secret::AppOf(U::Pn)) && *who == U::Pn && *app {
                            log.class("bind-refused:application-password-of-non-member");
                        }
                        if matches!(secret, Secret::Unix(s) if *s == *who) && !who.valid() {
                            log.class("bind-refused:right-password-invalid-account");
                        }
                    }
                    Err(e) => log.fail("harness: do_op returned Err", format!("{ctx}: {e:?}")),
                }
            }
            Op::Search { filter, attrs, base } => {
                let f = flist[*filter as usize % flist.len()].clone();
                let at = alist[*attrs as usize % alist.len()].clone();
                let (b, scope) = match base % 6 {
                    0 | 1 | 2 => (BASEDN.to_string(), LdapSearchScope::Subtree),
                    3 => (format!("name=pu,{BASEDN}"), LdapSearchScope::Base),
                    4 => (BASEDN.to_string(), LdapSearchScope::OneLevel),
                    _ => (String::new(), LdapSearchScope::Base),
                };
                let sr = SearchRequest { msgid: 2, base: b.clone(), scope: scope.clone(), filter: f.clone(), attrs: at.clone() };
                let Some(t) = tok.clone() else {
                    // unbound search binds anonymously inside do_op
                    match w.ldaps.do_op(&w.idms, ServerOps::Search(sr), None, ip, Uuid::nil()).await {
                        Ok(LdapResponseState::BindMultiPartResponse(t, _)) => {
                            log.class("search:unbound(auto anonymous)");
                            if t.effective_session != LdapSession::UnixBind(UUID_ANONYMOUS) {
                                log.fail("unbound search obtained a non-anonymous session", ctx.clone());
                            }
                            tok = Some(t);
                        }
                        Ok(_) => log.class("search:unbound-refused"),
                        Err(e) => log.fail("harness: do_op returned Err", format!("{ctx}: {e:?}")),
                    }
                    continue;
                };
                let got = match do_search(&w, &t, sr.clone()).await {
                    Ok(m) => m,
                    Err(e) => {
                        log.fail("harness: do_op returned Err", format!("{ctx}: {e}"));
                        break;
                    }
                };
                let got_e = entries_of(&got);
                let code = result_code(&got);
                log.class(format!("search:{code}"));
                if !got_e.is_empty() {
                    log.class("search:returned-entries");
                }
                // hidden classes never surface
                for (dn, attrs) in &got_e {
                    let cls: BTreeSet<String> = attrs.get("class").cloned().unwrap_or_default().into_iter().chain(attrs.get("objectclass").cloned().unwrap_or_default()).collect();
                    if cls.iter().any(|c| ["classtype", "attributetype", "access_control_profile"].contains(&c.as_str())) {
                        log.fail("schema or access-control entry returned through LDAP", format!("{ctx}: {dn}"));
                    }
                    for secret_attr in ["unix_password", "primary_credential", "application_password", "api_token_session"] {
                        if attrs.contains_key(secret_attr) && !matches!(t.effective_session, LdapSession::ApiToken(_)) {
                            log.fail("credential attribute released to an anonymous-level LDAP session", format!("{ctx}: {dn} {secret_attr}"));
                        }
                    }
                }
                let pw_bound = matches!(&t.effective_session, LdapSession::UnixBind(u) if *u != UUID_ANONYMOUS) || matches!(t.effective_session, LdapSession::ApplicationPasswordBind(..));
                if pw_bound {
                    // identical to what the anonymous bind sees
                    if let Some(at) = anon_token(&w).await {
                        match do_search(&w, &at, sr.clone()).await {
                            Ok(m) => {
                                let anon_e = entries_of(&m);
                                if anon_e != got_e || result_code(&m) != code {
                                    let only_bound: Vec<&String> = got_e.keys().filter(|k| !anon_e.contains_key(*k)).collect();
                                    log.fail(
                                        "password-bound session sees something the anonymous session does not (or vice versa)",
                                        format!("{ctx}: bound {} entries ({code}), anonymous {} entries ({}); only bound: {only_bound:?}", got_e.len(), anon_e.len(), result_code(&m)),
                                    );
                                }
                                log.class("search:compared-with-anonymous");
                                if !got_e.is_empty() {
                                    log.nontrivial();
                                }
                            }
                            Err(e) => log.fail("harness: anonymous comparison search failed", format!("{ctx}: {e}")),
                        }
                    }
                }
                // native comparison for plain subtree searches that succeeded
                if matches!(scope, LdapSearchScope::Subtree) && code == "Success" && (at.is_empty() || at == vec!["*".to_string()]) {
                    match native(&w, &t, &f).await {
                        Ok(nat) => {
                            let mut by_uuid: BTreeMap<Uuid, &BTreeMap<String, BTreeSet<String>>> = BTreeMap::new();
                            let mut unidentified = 0;
                            for attrs in got_e.values() {
                                match attrs.get("uuid").and_then(|s| s.iter().next()).and_then(|s| Uuid::parse_str(s).ok()) {
                                    Some(u) => {
                                        by_uuid.insert(u, attrs);
                                    }
                                    None => unidentified += 1,
                                }
                            }
                            if unidentified == 0 {
                                let a: BTreeSet<Uuid> = by_uuid.keys().copied().collect();
                                let b: BTreeSet<Uuid> = nat.keys().copied().collect();
                                if a != b {
                                    log.fail(
                                        "LDAP search returns a different entry set than the native search by the effective identity",
                                        format!("{ctx}: only ldap {:?} only native {:?}", a.difference(&b).collect::<Vec<_>>(), b.difference(&a).collect::<Vec<_>>()),
                                    );
                                } else {
                                    for (u, nattrs) in &nat {
                                        for (an, nvals) in nattrs {
                                            let lvals = by_uuid[u].get(an).cloned().unwrap_or_default();
                                            if an == "mail" || an == "name" || an == "displayname" || an == "gidnumber" {
                                                if &lvals != nvals {
                                                    log.fail("LDAP search returns different attribute values than the native search", format!("{ctx}: entry {u} attr {an}: ldap {lvals:?} native {nvals:?}"));
                                                }
                                            }
                                        }
                                        // nothing beyond what the native search releases (for the compared attributes)
                                        for an in ["mail", "displayname", "gidnumber"] {
                                            if by_uuid[u].contains_key(an) && !nattrs.contains_key(an) {
                                                log.fail("LDAP search releases an attribute the native search does not", format!("{ctx}: entry {u} attr {an}"));
                                            }
                                        }
                                    }
                                    log.class("search:compared-with-native");
                                    if !nat.is_empty() {
                                        log.class("search:compared-with-native-nonempty");
                                    }
                                }
                            } else {
                                log.class("search:native-comparison-skipped(no uuid attr)");
                            }
                        }
                        Err(e) => log.class(format!("search:native-error:{}", e.split(' ').next().unwrap_or(""))),
                    }
                }
            }
            Op::Compare { who, attr, val } => {
                let (a, v) = match (attr % 3, val % 2) {
                    (0, 0) => ("name", who.name().to_string()),
                    (0, _) => ("name", "zzz".to_string()),
                    (1, 0) => ("mail", format!("{}@example.com", who.name())),
                    (1, _) => ("mail", "zzz@example.com".to_string()),
                    (_, 0) => ("unix_password", who.unix_pw().unwrap_or("x").to_string()),
                    (_, _) => ("class", "person".to_string()),
                };
                let cr = CompareRequest { msgid: 3, entry: format!("name={},{BASEDN}", who.name()), atype: a.to_string(), val: v };
                let r = w.ldaps.do_op(&w.idms, ServerOps::Compare(cr.clone()), tok.clone(), ip, Uuid::nil()).await;
                let (code, newtok) = match r {
                    Ok(LdapResponseState::MultiPartResponse(m)) => (result_code(&m), None),
                    Ok(LdapResponseState::BindMultiPartResponse(t, m)) => (result_code(&m), Some(t)),
                    Ok(LdapResponseState::Respond(m)) => (result_code(&[m]), None),
                    Ok(_) => ("other".into(), None),
                    Err(e) => {
                        log.fail("harness: do_op returned Err", format!("{ctx}: {e:?}"));
                        break;
                    }
                };
                log.class(format!("compare:{code}"));
                if a == "unix_password" && code == "CompareTrue" {
                    log.fail("compare confirms a password value", ctx.clone());
                }
                if let Some(t) = newtok {
                    tok = Some(t);
                }
                if let Some(t) = &tok {
                    let pw_bound = matches!(&t.effective_session, LdapSession::UnixBind(u) if *u != UUID_ANONYMOUS) || matches!(t.effective_session, LdapSession::ApplicationPasswordBind(..));
                    if pw_bound {
                        if let Some(at) = anon_token(&w).await {
                            if let Ok(LdapResponseState::MultiPartResponse(m)) = w.ldaps.do_op(&w.idms, ServerOps::Compare(cr), Some(at), ip, Uuid::nil()).await {
                                if result_code(&m) != code {
                                    log.fail("password-bound compare answers differently from the anonymous session", format!("{ctx}: bound {code} anonymous {}", result_code(&m)));
                                }
                                log.class("compare:compared-with-anonymous");
                            }
                        }
                    }
                }
            }
            Op::Whoami => {
                match w.ldaps.do_op(&w.idms, ServerOps::Whoami(WhoamiRequest { msgid: 4 }), tok.clone(), ip, Uuid::nil()).await {
                    Ok(_) => log.class("whoami"),
                    Err(e) => log.fail("harness: do_op returned Err", format!("{ctx}: {e:?}")),
                }
            }
            Op::Unbind => {
                let _ = w.ldaps.do_op(&w.idms, ServerOps::Unbind(UnbindRequest), tok.clone(), ip, Uuid::nil()).await;
                tok = None;
                log.class("unbind");
            }
        }
        if log.failed() {
            break;
        }
    }
    let after = {
        let mut r = w.idms.proxy_read().await.expect("read");
        dump::dump_all(&mut r.qs_read).expect("dump")
    };
    let d = dump::diff(&before, &after, &dump::DiffOpts { skip_attrs: &[], ids: true, changestate: true });
    if !d.is_empty() {
        log.fail("LDAP operations changed directory content", format!("flag={} ops {:?}: {:?}", c.unix_bind_flag, c.ops, &d[..d.len().min(6)]));
    }
    log.finish()
}

fn arb_user() -> BoxedStrategy<U> {
    prop_oneof![4 => Just(U::Pu), 4 => Just(U::Pm), 3 => Just(U::Pn), 2 => Just(U::Px), 2 => Just(U::Pf), 1 => Just(U::Nobody)].boxed()
}

fn arb_op() -> BoxedStrategy<Op> {
    prop_oneof![
        // coherent bind attempts (right kind of secret for the DN), then arbitrary combinations
        5 => (arb_user(), 1u8..7).prop_map(|(who, form)| Op::Bind { who, form, app: false, secret: Secret::Unix(who) }),
        3 => (prop_oneof![Just(U::Pm), Just(U::Pn)], 1u8..7).prop_map(|(who, form)| Op::Bind { who, form, app: true, secret: Secret::AppOf(who) }),
        2 => prop_oneof![Just(0u8), Just(7u8)].prop_map(|form| Op::Bind { who: U::Nobody, form, app: false, secret: Secret::Token }),
        1 => Just(Op::Bind { who: U::Nobody, form: 0, app: false, secret: Secret::Empty }),
        5 => (
            arb_user(),
            0u8..9,
            proptest::bool::weighted(0.3),
            prop_oneof![
                3 => arb_user().prop_map(Secret::Unix),
                2 => prop_oneof![Just(U::Pm), Just(U::Pn)].prop_map(Secret::AppOf),
                1 => Just(Secret::Token),
                1 => Just(Secret::Empty),
                1 => Just(Secret::Wrong)
            ]
        )
            .prop_map(|(who, form, app, secret)| Op::Bind { who, form, app, secret }),
        14 => (any::<u8>(), 0u8..6, 0u8..6).prop_map(|(filter, attrs, base)| Op::Search { filter, attrs, base }),
        4 => (arb_user(), 0u8..3, 0u8..2).prop_map(|(who, attr, val)| Op::Compare { who, attr, val }),
        1 => Just(Op::Whoami),
        1 => Just(Op::Unbind),
    ]
    .boxed()
}

fn main() {
    let cx = Check::from_args("C40", "exploration");
    cx.rule(
        "fresh server per case with five POSIX persons (one in the application's linked group, one outside it but holding an application password, one expired, one not yet valid), an \
         application, a service account with a read-only API token; unix-bind flag on or off; sequences of 6..16 LDAP operations through LdapServer::do_op: binds (9 DN forms x with/without \
         application x POSIX password of any user / application password / token / empty / wrong), searches (16 filters incl. schema, ACP and credential probes x 6 attribute selections x \
         subtree / base / one-level / rootDSE), compares, whoami, unbind. Oracles: dump identical before/after; successful binds justified by the ledger; password-bound answers == anonymous \
         answers; subtree results == native search by the effective identity minus schema/ACP entries (entry set and name/displayname/mail/gidnumber values). non-trivial = a password-bound \
         search that returned entries was compared with the anonymous one; distinct by hash",
    );
    cx.assume("the LDAP front-end reads the wall clock; validity windows in the population are decades away from any real date (expired 2001, valid from 2099)");
    cx.assume("delayed actions queued by binds are not processed (the property is about what LDAP itself can change)");
    let n = cx.tier.pick(600, 20_000);
    cx.prop(
        "ldap-sessions",
        PropCfg::new(n).shrink(200),
        || (any::<bool>(), proptest::collection::vec(arb_op(), 6..16)).prop_map(|(unix_bind_flag, ops)| Case { unix_bind_flag, ops }),
        srv::runtime,
        |rt, c| rt.block_on(run(c)),
    );
    // class counts are per case (a class is counted once per sequence)
    for (c, floor) in [
        ("bind-ok:posix-password", 100),
        ("bind-ok:application-password", 100),
        ("bind-ok:api-token", 120),
        ("bind-ok:anonymous", 60),
        ("bind-refused:posix-password-while-flag-off", 100),
        ("bind-refused:application-password-of-non-member", 100),
        ("bind-refused:right-password-invalid-account", 100),
        ("search:compared-with-anonymous", 130),
        ("search:compared-with-native-nonempty", 80),
        ("search:returned-entries", 300),
    ] {
        cx.require_class(c, floor);
    }
    cx.finish();
}
