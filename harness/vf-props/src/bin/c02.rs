//! C02 — Filter rewriting preserves meaning.
//!
//! For every filter F, every entry E and every index-metadata variant M:
//!   E.match(resolve_raw(F,M)) == E.match(optimise(resolve_raw(F,M))) == E.match(fast_optimise(..))
//!   == reference_eval(F, E)            (independent evaluator on the harness AST)
//! plus: the optimisers never panic. (Idempotence of optimise is NOT asserted: the property does not
//! claim it, and And[x,x] -> And[x] -> x shows it does not hold; see DESIGN.md §6.)
use kanidmd_lib::be::IdxMeta;
use kanidmd_lib::entry::{Entry, EntryCommitted, EntrySealed};
use kanidmd_lib::prelude::*;
use kanidmd_lib::value::{IndexType, Value};
use kanidmd_lib::verif_hooks::export::{entry as hentry, filter as hfilter, IdxKey};
use kanidmd_lib::verif_hooks::ident;
use proptest::prelude::*;
use serde::{Deserialize, Serialize};
use std::collections::{BTreeMap, BTreeSet, HashMap};
use std::sync::Arc;
use vf_core::{Check, Outcome, PropCfg};
use vf_world::fil::{self, Alphabet, MEntry, F};
use vf_world::pop;

const SELF_UUID_I: u32 = 0;

/// Small alphabet: two textual attributes (one case-insensitive, one free text) and one ordered.
const NAME_VALS: [&str; 2] = ["ga", "gab"];
const DESC_VALS: [&str; 2] = ["Ga", "bag"];
const GID_VALS: [&str; 2] = ["5", "7"];

#[derive(Debug, Clone, Serialize, Deserialize, PartialEq)]
struct Case {
    f: F,
}

struct World {
    entries: Vec<(Entry<EntrySealed, EntryCommitted>, MEntry)>,
    metas: Vec<(&'static str, Option<IdxMeta>)>,
    ident: Identity,
}

fn subsets2(vals: &[&str]) -> Vec<Vec<String>> {
    vec![
        vec![],
        vec![vals[0].to_string()],
        vec![vals[1].to_string()],
        vec![vals[0].to_string(), vals[1].to_string()],
    ]
}

fn build_world() -> World {
    // every entry over the alphabet: name is single valued (absent/v1/v2), description and
    // gidnumber absent / v1 / v2 / both; two uuids (the caller's own and another).
    let mut entries = Vec::new();
    let cid = ident::cid(Uuid::nil(), std::time::Duration::from_secs(1));
    let mut id = 1;
    for (ui, uuid) in [pop::person_uuid(SELF_UUID_I), pop::person_uuid(1)].into_iter().enumerate() {
        for name in [None, Some(NAME_VALS[0]), Some(NAME_VALS[1])] {
            for desc in subsets2(&DESC_VALS) {
                for gid in subsets2(&GID_VALS) {
                    if ui == 1 && (desc.len() == 2 || gid.len() == 2) && name.is_none() {
                        // keep the second-uuid family smaller; SelfUuid only needs a contrast
                        continue;
                    }
                    let mut e: pop::NewEntry = Entry::new();
                    let mut m = MEntry {
                        uuid,
                        attrs: BTreeMap::new(),
                    };
                    e.add_ava(Attribute::Uuid, Value::Uuid(uuid));
                    m.attrs
                        .insert("uuid".into(), [uuid.as_hyphenated().to_string()].into_iter().collect());
                    e.add_ava(Attribute::Class, EntryClass::Object.to_value());
                    m.attrs.insert("class".into(), ["object".to_string()].into_iter().collect());
                    if let Some(n) = name {
                        e.add_ava(Attribute::Name, Value::new_iname(n));
                        m.attrs.insert("name".into(), [n.to_string()].into_iter().collect());
                    }
                    for d in &desc {
                        e.add_ava(Attribute::Description, Value::new_utf8s(d));
                        m.attrs.entry("description".into()).or_default().insert(d.clone());
                    }
                    for g in &gid {
                        e.add_ava(Attribute::GidNumber, Value::Uint32(g.parse().unwrap()));
                        m.attrs.entry("gidnumber".into()).or_default().insert(g.clone());
                    }
                    let sealed = hentry::sealed_committed(e, cid.clone(), id);
                    id += 1;
                    entries.push((sealed, m));
                }
            }
        }
    }
    let all_keys = |slope: &dyn Fn(usize) -> u8, skip: &dyn Fn(&str, IndexType) -> bool| {
        let mut h = HashMap::new();
        let mut i = 0;
        for a in [Attribute::Name, Attribute::Description, Attribute::GidNumber, Attribute::Uuid, Attribute::Class] {
            for it in [IndexType::Equality, IndexType::Presence, IndexType::SubString, IndexType::Ordering] {
                i += 1;
                if skip(a.as_str(), it) {
                    continue;
                }
                h.insert(IdxKey::new(a.clone(), it), slope(i));
            }
        }
        IdxMeta::new(h.into_iter().collect())
    };
    let metas = vec![
        ("no-idxmeta", None),
        ("equal-slopes", Some(all_keys(&|_| 100, &|_, _| false))),
        ("distinct-slopes", Some(all_keys(&|i| (i * 11 % 250 + 1) as u8, &|_, _| false))),
        (
            "partial-index",
            Some(all_keys(&|i| (i % 3 * 40 + 10) as u8, &|a, it| {
                a == "description" || (a == "name" && it == IndexType::SubString) || (a == "gidnumber" && it == IndexType::Ordering)
            })),
        ),
        // slope 0 means "no usable index" to the resolver (NonZeroU8::new(0) == None)
        ("zero-slopes", Some(all_keys(&|i| (i % 2 * 7) as u8, &|_, _| false))),
    ];
    let me = entries[0].0.clone();
    World {
        entries,
        metas,
        ident: ident::user_readwrite(Arc::new(me)),
    }
}

fn shape(f: &hfilter::HFC) -> usize {
    // not used for the oracle; silence unused warnings on some builds
    match f {
        hfilter::HFC::And(l) | hfilter::HFC::Or(l) => l.len(),
        _ => 0,
    }
}

fn check(w: &World, c: &Case) -> Outcome {
    let f = &c.f;
    let hfc = f.to_hfc();
    let _ = shape(&hfc);
    let valid = hfilter::force_valid(hfilter::filter_invalid(hfc));
    let self_uuid = Some(pop::person_uuid(SELF_UUID_I));
    let want: Vec<bool> = w.entries.iter().map(|(_, m)| fil::eval(f, m, self_uuid)).collect();
    let mut rewritten_somewhere = false;
    let mut classes = BTreeSet::new();
    for (mname, meta) in &w.metas {
        let Some(raw) = hfilter::resolve_raw(&valid, &w.ident, meta.as_ref()) else {
            return Outcome::fail("resolve_raw returned None", format!("filter {} meta {mname}", f.render()));
        };
        let raw_s = format!("{raw:?}");
        let variants = [("optimise", hfilter::optimise(&raw)), ("fast_optimise", hfilter::fast_optimise(&raw))];
        // the production path, through the public API (resolve = resolve_* + the matching optimiser)
        let prod = match valid.resolve(&w.ident, meta.as_ref(), None) {
            Ok(p) => p,
            Err(e) => return Outcome::fail("Filter::resolve failed", format!("{e:?} on {} meta {mname}", f.render())),
        };
        for (i, (e, _m)) in w.entries.iter().enumerate() {
            let r = e.entry_match_no_index(&raw);
            if r != want[i] {
                return Outcome::fail(
                    "unoptimised resolved filter disagrees with reference evaluator",
                    format!("filter {} resolved {raw_s} entry#{i} {:?}: impl={r} reference={}", f.render(), w.entries[i].1, want[i]),
                );
            }
            if e.entry_match_no_index(&prod) != want[i] {
                return Outcome::fail(
                    format!("Filter::resolve ({mname}) changes meaning"),
                    format!("filter {} resolved {prod:?} entry#{i} {:?}: reference={}", f.render(), w.entries[i].1, want[i]),
                );
            }
        }
        for (oname, opt) in &variants {
            let opt_s = format!("{opt:?}");
            if opt_s != raw_s {
                rewritten_somewhere = true;
                classes.insert(format!("rewritten-by:{oname}"));
            }
            for (i, (e, _m)) in w.entries.iter().enumerate() {
                let o = e.entry_match_no_index(opt);
                if o != want[i] {
                    return Outcome::fail(
                        format!("{oname} changes meaning"),
                        format!(
                            "filter {} meta {mname}\n raw {raw_s}\n opt {opt_s}\n entry#{i} {:?}: rewritten={o} reference={}",
                            f.render(),
                            w.entries[i].1,
                            want[i]
                        ),
                    );
                }
            }
        }
    }
    let matched = want.iter().filter(|b| **b).count();
    Outcome::pass(rewritten_somewhere)
        .classes(classes)
        .class_if(matched == 0, "matches-nothing")
        .class_if(matched == want.len(), "matches-everything")
        .class_if(matched > 0 && matched < want.len(), "matches-some")
        .class_if(f.has_isolated_not(), "has-isolated-not")
}

/// Reduced leaf alphabet for the bounded-exhaustive sweep.
fn sweep_leaves() -> Vec<F> {
    vec![
        F::Eq("name".into(), "ga".into()),
        F::Eq("name".into(), "gab".into()),
        F::Pres("description".into()),
        F::Cnt("description".into(), "ga".into()),
        F::Lt("gidnumber".into(), "7".into()),
        F::SelfUuid,
        F::Invalid("name".into()),
    ]
}

/// All nodes of depth <= 2 built from `leaves` with groups of width <= w.
fn depth2(leaves: &[F], w: usize) -> Vec<F> {
    let mut out: Vec<F> = leaves.to_vec();
    for l in leaves {
        out.push(F::Not(Box::new(l.clone())));
    }
    for mk in [F::And as fn(Vec<F>) -> F, F::Or as fn(Vec<F>) -> F] {
        out.push(mk(vec![]));
        for a in leaves {
            out.push(mk(vec![a.clone()]));
            if w >= 2 {
                for b in leaves {
                    out.push(mk(vec![a.clone(), b.clone()]));
                    if w >= 3 {
                        for c in leaves {
                            out.push(mk(vec![a.clone(), b.clone(), c.clone()]));
                        }
                    }
                }
            }
        }
    }
    out
}

/// Index -> depth<=3 filter whose children are taken from `kids` (ordered tuples of width 0..=w).
fn depth3_count(k: u64, w: u32) -> u64 {
    let groups: u64 = (0..=w).map(|n| k.pow(n)).sum();
    2 * groups + k // And/Or groups + Not(kid)
}
fn depth3_make(kids: &[F], w: u32, mut i: u64) -> F {
    let k = kids.len() as u64;
    let groups: u64 = (0..=w).map(|n| k.pow(n)).sum();
    if i >= 2 * groups {
        return F::Not(Box::new(kids[(i - 2 * groups) as usize].clone()));
    }
    let is_or = i >= groups;
    if is_or {
        i -= groups;
    }
    let mut n = 0u32;
    while i >= k.pow(n) {
        i -= k.pow(n);
        n += 1;
    }
    let mut ch = Vec::new();
    for _ in 0..n {
        ch.push(kids[(i % k) as usize].clone());
        i /= k;
    }
    if is_or {
        F::Or(ch)
    } else {
        F::And(ch)
    }
}

fn main() {
    let cx = Check::from_args("C02", "exploration");
    cx.rule(
        "bounded-exhaustive: (a) every filter of depth<=2 / width<=3 over the full leaf alphabet (Eq,Cnt,Stw-free,Pres,Lt,SelfUuid,Invalid over \
         name/description/gidnumber x 2 values); (b) every filter of depth<=3 whose groups have width<=2 (quick) / top-level width<=3 (thorough) over a \
         7-leaf alphabet; each evaluated on every entry over the same alphabet (name absent/v1/v2 x description subsets x gidnumber subsets x 2 uuids) under \
         5 index-metadata variants (none, equal slopes, distinct slopes, partial, zero slopes) and both optimisers + the public Filter::resolve; \
         (c) random filters depth<=6 / width<=8 with deliberate duplicates. Oracle: harness boolean evaluator on the AST (NOT = complement) and the unoptimised \
         resolved filter. non-trivial = the rewritten tree differs structurally from the unoptimised one; enumerated cases distinct by construction, random by hash",
    );
    cx.assume("leaf semantics (case folding, substring, ordering) of the reference evaluator are written from the documented attribute syntaxes");
    let world = build_world();
    cx.extra("entries_per_filter", serde_json::json!(world.entries.len()));
    cx.extra("idxmeta_variants", serde_json::json!(world.metas.iter().map(|m| m.0).collect::<Vec<_>>()));
    let w = &world;

    // (a) full leaf alphabet, depth <= 2, width <= 3
    let mut full_leaves: Vec<F> = Vec::new();
    for (a, vals) in [("name", NAME_VALS), ("description", DESC_VALS), ("gidnumber", GID_VALS)] {
        full_leaves.push(F::Pres(a.into()));
        full_leaves.push(F::Invalid(a.into()));
        for v in vals {
            full_leaves.push(F::Eq(a.into(), v.into()));
            full_leaves.push(F::Cnt(a.into(), v.into()));
            full_leaves.push(F::Lt(a.into(), v.into()));
        }
    }
    full_leaves.push(F::SelfUuid);
    full_leaves.push(F::Stw("name".into(), "ga".into()));
    full_leaves.push(F::Enw("description".into(), "ag".into()));
    let d2_full = depth2(&full_leaves, 3);
    let d2f = &d2_full;
    cx.enumerate(
        "exhaustive-depth2-full-alphabet",
        d2_full.len() as u64,
        |i| Case { f: d2f[i as usize].clone() },
        || (),
        |_, c| check(w, c),
    );

    // (b) depth <= 3 over the reduced alphabet
    let kids = depth2(&sweep_leaves(), 2);
    let wtop = cx.tier.pick(2u32, 3u32);
    let total = depth3_count(kids.len() as u64, wtop);
    let kref = &kids;
    cx.enumerate(
        "exhaustive-depth3",
        total,
        |i| Case { f: depth3_make(kref, wtop, i) },
        || (),
        |_, c| check(w, c),
    );

    // (c) random deeper / wider
    let al = {
        let mut al = Alphabet::new(&[("name", &NAME_VALS), ("description", &DESC_VALS), ("gidnumber", &GID_VALS), ("class", &["object", "group"])]);
        al.self_uuid = true;
        al.empty_groups = true;
        al
    };
    let n = cx.tier.pick(150_000, 2_000_000);
    cx.prop(
        "random-deep",
        PropCfg::new(n),
        || fil::arb_filter(&al, 6, 8).prop_map(|f| Case { f }),
        || (),
        |_, c| check(w, c),
    );
    cx.finish();
}
