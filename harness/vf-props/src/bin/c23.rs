//! C23 — Searches never disclose what the caller may not read.
//!
//! Generated worlds (persons, service accounts, nested groups, entry managers, an OAuth2 client,
//! recycled and tombstoned entries, memberships in shipped role groups) with 2-6 generated search
//! access control profiles ON TOP of the shipped ones; generated requests (identity x scope x filter
//! x optional attribute list) through search_ext, exists and recycle-bin search.
//! Oracle: an independent grant model that reads the access control profile ENTRIES from the database
//! and interprets them with the harness's own filter evaluator (g_access::search_allowed). One
//! direction only, as the property is: everything that comes back must be covered by the model.
use kanidmd_lib::idm::ldap::{LdapBoundToken, LdapResponseState, LdapServer, LdapSession};
use kanidmd_lib::prelude::*;
use kanidmd_lib::value::Value;
use ldap3_proto::proto::{LdapFilter, LdapOp, LdapResultCode, LdapSearchScope, LdapSubstringFilter};
use ldap3_proto::simple::{CompareRequest, SearchRequest, ServerOps};
use kanidmd_lib::verif_hooks::export::filter as hfilter;
use kanidmd_lib::verif_hooks::ident;
use proptest::prelude::*;
use serde::{Deserialize, Serialize};
use std::collections::{BTreeMap, BTreeSet};
use vf_core::{CaseLog, Check, Outcome, PropCfg};
use vf_world::fil::{self, MEntry, F};
use vf_world::g_access::world::{self, alphabet, arb_ent, no_empty_groups, norm_ent, proto_of, uuid_of, Ent, Pop, ATTR_POOL};
use vf_world::g_access::{self as ga, Acp, Who};
use vf_world::pop::{self, Kind};
use vf_world::srv;
use vf_world::dump;

#[derive(Debug, Clone, PartialEq, Eq, Serialize, Deserialize)]
enum RecvSpec {
    Groups(Vec<Ent>),
    Manager,
}

#[derive(Debug, Clone, PartialEq, Eq, Serialize, Deserialize)]
struct AcpSpec {
    recv: RecvSpec,
    target: F,
    attrs: Vec<u8>,
    enabled: bool,
}

#[derive(Debug, Clone, PartialEq, Eq, Serialize, Deserialize)]
enum Caller {
    Acct(Ent),
    Anonymous,
}

#[derive(Debug, Clone, PartialEq, Eq, Serialize, Deserialize)]
enum RKind {
    Search,
    SearchAttrs(Vec<u8>),
    Exists,
    Recycle,
    /// LDAP subtree search (all attributes) bound as the caller
    Ldap,
    /// LDAP compare on the entry named by `entry` (rdn attribute: 0 name, 1 uuid, 2 spn), asserting (attr, value) taken from the filter alphabet
    LdapCompare { entry: Ent, rdn: u8, attr: u8, val: u8 },
}

#[derive(Debug, Clone, PartialEq, Eq, Serialize, Deserialize)]
struct Req {
    who: Caller,
    rw: bool,
    kind: RKind,
    f: F,
}

#[derive(Debug, Clone, PartialEq, Eq, Serialize, Deserialize)]
struct Case {
    #[serde(flatten)]
    pop: Pop,
    acps: Vec<AcpSpec>,
    reqs: Vec<Req>,
}

fn arb_target() -> BoxedStrategy<F> {
    // target scopes: mostly simple class / membership / manager / self conditions, sometimes a tree
    let al = alphabet();
    prop_oneof![
        3 => fil::arb_leaf(&al),
        3 => fil::arb_filter(&al, 2, 3),
        2 => Just(F::Pres("class".into())),
        2 => Just(F::Eq("class".into(), "person".into())),
        2 => Just(F::Eq("class".into(), "group".into())),
        1 => Just(F::Eq("class".into(), "account".into())),
        1 => Just(F::SelfUuid),
        1 => Just(F::And(vec![F::Eq("class".into(), "account".into()), F::Not(Box::new(F::SelfUuid))])),
    ]
    .boxed()
}

fn arb_acp() -> impl Strategy<Value = AcpSpec> {
    (
        prop_oneof![
            5 => proptest::collection::vec(prop_oneof![(0u8..5).prop_map(Ent::G), (0u8..5).prop_map(Ent::G), (0u8..5).prop_map(Ent::P)], 1..3).prop_map(RecvSpec::Groups),
            2 => Just(RecvSpec::Manager),
        ],
        arb_target(),
        proptest::collection::vec(0u8..ATTR_POOL.len() as u8, 1..6),
        proptest::bool::weighted(0.9),
    )
        .prop_map(|(recv, target, attrs, enabled)| AcpSpec { recv, target, attrs, enabled })
}

fn arb_req() -> impl Strategy<Value = Req> {
    let al = alphabet();
    (
        prop_oneof![
            6 => (0u8..5).prop_map(|i| Caller::Acct(Ent::P(i))),
            2 => (0u8..2).prop_map(|i| Caller::Acct(Ent::S(i))),
            1 => Just(Caller::Anonymous),
        ],
        any::<bool>(),
        prop_oneof![
            5 => Just(RKind::Search),
            3 => proptest::collection::vec(0u8..ATTR_POOL.len() as u8, 1..5).prop_map(RKind::SearchAttrs),
            3 => Just(RKind::Exists),
            1 => Just(RKind::Recycle),
            2 => Just(RKind::Ldap),
            2 => (arb_ent(), 0u8..3, 0u8..11, 0u8..6).prop_map(|(entry, rdn, attr, val)| RKind::LdapCompare { entry, rdn, attr, val }),
        ],
        prop_oneof![
            4 => fil::arb_leaf(&al),
            5 => fil::arb_filter(&al, 2, 3),
            1 => fil::arb_filter(&al, 3, 3),
        ],
    )
        .prop_map(|(who, rw, kind, f)| Req { who, rw, kind, f })
}

fn arb_case(nreq: std::ops::Range<usize>) -> impl Strategy<Value = Case> {
    (world::arb_pop(), proptest::collection::vec(arb_acp(), 2..=6), proptest::collection::vec(arb_req(), nreq)).prop_map(|(pop, acps, reqs)| Case { pop, acps, reqs })
}

// ---- normalisation: every reference points at an entity of this world ---------------------------

fn normalise(c: &Case) -> Case {
    let mut n = c.clone();
    let p = &c.pop;
    n.pop = world::norm_pop(p);
    let live = |e: Ent| world::live_spec(e, p);
    for a in n.acps.iter_mut() {
        a.target = no_empty_groups(&a.target);
        if let RecvSpec::Groups(gs) = &mut a.recv {
            let mut v: Vec<Ent> = gs.iter().map(|g| norm_ent(*g, p)).filter(|g| live(*g)).collect();
            v.sort();
            v.dedup();
            if v.is_empty() {
                a.recv = RecvSpec::Manager;
            } else {
                *gs = v;
            }
        }
    }
    // callers: live accounts only
    let accts = world::live_accounts(p);
    for q in n.reqs.iter_mut() {
        if let Caller::Acct(e) = &q.who {
            let e = norm_ent(*e, p);
            q.who = if live(e) {
                Caller::Acct(e)
            } else if accts.is_empty() {
                Caller::Anonymous
            } else {
                let k = match e {
                    Ent::P(i) | Ent::S(i) | Ent::G(i) | Ent::O(i) => i as usize,
                };
                Caller::Acct(accts[k % accts.len()])
            };
        }
    }
    n
}

// ---- world construction -------------------------------------------------------------------------

struct Built {
    idms: IdmServer,
    _d: IdmServerDelayed,
    _a: IdmServerAudit,
}

async fn build(c: &Case) -> Result<Built, String> {
    let err = |s: &str, e: OperationError| format!("{s}: {e:?}");
    let qs = world::build_population(&c.pop, |w| {
        // generated access control profiles
        let mut acps = Vec::new();
        for (i, a) in c.acps.iter().enumerate() {
            let mut e: pop::NewEntry = kanidmd_lib::entry::Entry::new();
            e.add_ava(Attribute::Class, EntryClass::Object.to_value());
            e.add_ava(Attribute::Class, EntryClass::AccessControlProfile.to_value());
            e.add_ava(Attribute::Class, EntryClass::AccessControlSearch.to_value());
            e.add_ava(Attribute::Class, EntryClass::AccessControlTargetScope.to_value());
            e.add_ava(Attribute::Name, Value::new_iname(&format!("gen_acp_{i}")));
            e.add_ava(Attribute::Uuid, Value::Uuid(pop::uuid_of(Kind::Other, 500 + i as u32)));
            if !a.enabled {
                e.add_ava(Attribute::AcpEnable, Value::Bool(false));
            }
            match &a.recv {
                RecvSpec::Groups(gs) => {
                    e.add_ava(Attribute::Class, EntryClass::AccessControlReceiverGroup.to_value());
                    for g in gs {
                        e.add_ava(Attribute::AcpReceiverGroup, Value::Refer(uuid_of(*g)));
                    }
                }
                RecvSpec::Manager => e.add_ava(Attribute::Class, EntryClass::AccessControlReceiverEntryManager.to_value()),
            }
            let Some(pf) = proto_of(&a.target) else {
                return Err("target not expressible as proto filter".to_string());
            };
            e.add_ava(Attribute::AcpTargetScope, Value::JsonFilt(pf));
            for at in &a.attrs {
                e.add_ava(Attribute::AcpSearchAttr, Value::new_iutf8(ATTR_POOL[*at as usize % ATTR_POOL.len()]));
            }
            acps.push(e);
        }
        w.internal_create(acps).map_err(|e| err("create acps", e))?;
        Ok(())
    })
    .await?;
    let (idms, d, a) = srv::new_idms(qs).await;
    Ok(Built { idms, _d: d, _a: a })
}

/// LDAP form of a request filter and the kanidm attributes it mentions (SelfUuid and ordering have no
/// LDAP form here: they become presence tests).
fn ldap_of(f: &F) -> (LdapFilter, BTreeSet<String>) {
    fn walk(f: &F, at: &mut BTreeSet<String>) -> LdapFilter {
        let sub = |i: Option<&String>, a: Option<&String>, e: Option<&String>| LdapSubstringFilter {
            initial: i.cloned(),
            any: a.into_iter().cloned().collect(),
            final_: e.cloned(),
        };
        match f {
            F::Eq(a, v) => {
                at.insert(a.clone());
                LdapFilter::Equality(a.clone(), v.clone())
            }
            F::Cnt(a, v) => {
                at.insert(a.clone());
                LdapFilter::Substring(a.clone(), sub(None, Some(v), None))
            }
            F::Stw(a, v) => {
                at.insert(a.clone());
                LdapFilter::Substring(a.clone(), sub(Some(v), None, None))
            }
            F::Enw(a, v) => {
                at.insert(a.clone());
                LdapFilter::Substring(a.clone(), sub(None, None, Some(v)))
            }
            F::Pres(a) | F::Lt(a, _) | F::Invalid(a) => {
                at.insert(a.clone());
                LdapFilter::Present(a.clone())
            }
            F::SelfUuid => {
                at.insert("uuid".into());
                LdapFilter::Present("uuid".into())
            }
            F::And(l) => LdapFilter::And(l.iter().map(|x| walk(x, at)).collect()),
            F::Or(l) => LdapFilter::Or(l.iter().map(|x| walk(x, at)).collect()),
            F::Not(x) => LdapFilter::Not(Box::new(walk(x, at))),
        }
    }
    let mut at = BTreeSet::new();
    let lf = walk(f, &mut at);
    (lf, at)
}

// ---- the check ----------------------------------------------------------------------------------

fn attr_names(idx: &[u8]) -> BTreeSet<String> {
    idx.iter().map(|i| ATTR_POOL[*i as usize % ATTR_POOL.len()].to_string()).collect()
}

fn run_case(rt: &tokio::runtime::Runtime, c: &Case) -> Outcome {
    let c = &normalise(c);
    let mut log = CaseLog::new();
    rt.block_on(async {
        let b = match build(c).await {
            Ok(b) => b,
            Err(e) => {
                log.class(format!("world-rejected:{}", e.chars().take(90).collect::<String>()));
                return;
            }
        };
        let mut pr = b.idms.proxy_read().await.expect("read");
        let r = &mut pr.qs_read;
        let stored = dump::all_entries(r).expect("entries");
        let all: Vec<MEntry> = ga::mentries(&stored);
        let by: BTreeMap<Uuid, &MEntry> = all.iter().map(|m| (m.uuid, m)).collect();
        let acps: Vec<Acp> = ga::acps_of(&all);
        let gen_applicable = acps.iter().filter(|a| a.name.starts_with("gen_acp_") && a.search && a.enabled).count();
        if acps.iter().any(|a| a.target == Some(None)) {
            log.class("model:unparsed-target(permissive)");
        }
        let mut any_returned = false;
        let mut any_withheld = false;
        for (ri, q) in c.reqs.iter().enumerate() {
            let caller = match &q.who {
                Caller::Anonymous => UUID_ANONYMOUS,
                Caller::Acct(e) => uuid_of(*e),
            };
            let Some(me) = by.get(&caller).filter(|m| ga::is_live(m)) else {
                log.class("request:caller-not-live(skipped)");
                continue;
            };
            let _ = me;
            let rw = q.rw && caller != UUID_ANONYMOUS;
            if matches!(q.kind, RKind::Ldap | RKind::LdapCompare { .. }) {
                continue; // second phase, after the read transaction is released
            }
            let id = match ga::ident_of(r, caller, rw) {
                Ok(i) => i,
                Err(_) => {
                    log.class("request:caller-not-found(skipped)");
                    continue;
                }
            };
            let who: Who = ga::who_of(&all, caller);
            let valid = match hfilter::filter_invalid(q.f.to_hfc()).validate(r.get_schema()) {
                Ok(v) => v,
                Err(_) => {
                    log.class("request:filter-rejected-by-schema");
                    continue;
                }
            };
            let mut fattrs = BTreeSet::new();
            q.f.attrs(&mut fattrs);
            let recycle = matches!(q.kind, RKind::Recycle);
            let requested: Option<BTreeSet<String>> = match &q.kind {
                RKind::SearchAttrs(a) => Some(attr_names(a)),
                _ => None,
            };
            let isolated_not = q.f.has_isolated_not();
            // what the model allows, per stored entry
            let allowed: BTreeMap<Uuid, BTreeSet<String>> = all.iter().map(|m| (m.uuid, ga::search_allowed(&acps, &who, m, &all))).collect();
            let in_scope = |m: &MEntry| -> bool {
                if recycle {
                    ga::has_class(m, "recycled") && !ga::has_class(m, "tombstone")
                } else {
                    ga::is_live(m)
                }
            };
            let ctx = |extra: String| -> String {
                format!(
                    "request #{ri} caller {:?} rw={rw} kind {:?} filter {} | {extra}",
                    q.who,
                    q.kind,
                    q.f.render()
                )
            };
            if let RKind::Exists = q.kind {
                let ee = ExistsEvent {
                    ident: id.clone(),
                    filter: valid.clone().into_ignore_hidden(),
                    filter_orig: valid.clone(),
                };
                match r.exists(&ee) {
                    Ok(true) => {
                        log.class("exists:true");
                        any_returned = true;
                        let witness = all
                            .iter()
                            .any(|m| in_scope(m) && !fattrs.is_empty() && fattrs.is_subset(&allowed[&m.uuid]));
                        if !witness {
                            log.fail(
                                "exists() is true although no visible entry has all filter attributes readable",
                                ctx(format!("filter attrs {fattrs:?}")),
                            );
                            return;
                        }
                    }
                    Ok(false) => {
                        log.class("exists:false");
                        let hidden_match = all.iter().any(|m| {
                            in_scope(m) && fil::eval(&q.f, m, Some(caller)) && !allowed[&m.uuid].is_empty() && !fattrs.is_subset(&allowed[&m.uuid])
                        });
                        if hidden_match {
                            log.class("exists:false-while-a-matching-entry-is-withheld-by-filter-attr-rule");
                            any_withheld = true;
                        }
                    }
                    Err(_) => log.class("exists:error"),
                }
                continue;
            }
            let se = SearchEvent {
                ident: id.clone(),
                filter: if recycle { valid.clone().into_recycled() } else { valid.clone().into_ignore_hidden() },
                filter_orig: valid.clone(),
                attrs: requested.as_ref().map(|s| s.iter().map(|a| Attribute::from(a.as_str())).collect()),
                effective_access_check: false,
            };
            let res = match r.search_ext(&se) {
                Ok(v) => v,
                Err(_) => {
                    log.class("search:error");
                    continue;
                }
            };
            let mut returned = BTreeSet::new();
            for e in &res {
                let u = e.get_uuid();
                returned.insert(u);
                let Some(m) = by.get(&u) else {
                    log.fail("search returned an entry that is not stored", ctx(format!("{u}")));
                    return;
                };
                if !in_scope(m) {
                    let sig = if recycle {
                        "recycle-bin search returned an entry that is not recycled"
                    } else {
                        "deleted or recycled entry returned by a normal search"
                    };
                    log.fail(sig, ctx(format!("entry {} classes {:?}", ga::name_of(m), m.get("class"))));
                    return;
                }
                let al = &allowed[&u];
                if al.is_empty() {
                    log.fail(
                        "entry returned without any applicable read grant",
                        ctx(format!("entry {} ({u})", ga::name_of(m))),
                    );
                    return;
                }
                if !fattrs.is_subset(al) {
                    log.fail(
                        "entry revealed through a filter term on an attribute the caller cannot read",
                        ctx(format!(
                            "entry {} ({u}): filter attrs {fattrs:?}, readable {al:?}",
                            ga::name_of(m)
                        )),
                    );
                    return;
                }
                let mut stripped = false;
                for (a, vs) in e.get_ava_iter() {
                    let an = a.as_str().to_string();
                    if !al.contains(&an) {
                        log.fail(
                            "attribute returned without a read grant",
                            ctx(format!("entry {} ({u}): attribute {an}, readable {al:?}", ga::name_of(m))),
                        );
                        return;
                    }
                    if let Some(rq) = &requested {
                        if !rq.contains(&an) {
                            log.fail(
                                "attribute returned that was not requested",
                                ctx(format!("entry {} ({u}): attribute {an}, requested {rq:?}", ga::name_of(m))),
                            );
                            return;
                        }
                    }
                    let st = m.get(&an).cloned().unwrap_or_default();
                    for v in vs.to_proto_string_clone_iter() {
                        if !st.contains(&v) {
                            log.fail(
                                "returned value is not a stored value of the entry",
                                ctx(format!("entry {} attribute {an} value {v}", ga::name_of(m))),
                            );
                            return;
                        }
                    }
                }
                for a in m.attrs.keys() {
                    let wanted = requested.as_ref().map(|r| r.contains(a)).unwrap_or(true);
                    if wanted && !al.contains(a) {
                        stripped = true;
                    }
                }
                if stripped {
                    log.class("search:attribute-stripped");
                    any_withheld = true;
                }
            }
            if !res.is_empty() {
                any_returned = true;
                log.class(if recycle { "recycle-search:returned" } else { "search:returned" });
                if requested.is_some() {
                    log.class("search-with-attr-list:returned");
                }
            } else {
                log.class("search:empty");
            }
            // diagnostics (not violations): what the model would have released
            for m in all.iter().filter(|m| in_scope(m) && !returned.contains(&m.uuid)) {
                if !fil::eval(&q.f, m, Some(caller)) {
                    continue;
                }
                let al = &allowed[&m.uuid];
                if al.is_empty() {
                    log.class("search:matching-entry-withheld(no grant at all)");
                } else if !fattrs.is_subset(al) {
                    log.class("search:matching-entry-withheld-by-filter-attr-rule");
                    any_withheld = true;
                } else if !fattrs.is_empty() {
                    let reduced_empty = requested.as_ref().map(|rq| rq.is_disjoint(al)).unwrap_or(false);
                    if reduced_empty {
                        log.class("diag:not-returned(no requested attribute readable)");
                    } else if isolated_not {
                        log.class("diag:under-disclosure(isolated NOT, C01 known)");
                    } else {
                        log.class("diag:under-disclosure(model would release)");
                        if std::env::var("VERIF_DEBUG").is_ok() {
                            eprintln!("UNDER {} | entry {} readable {al:?} fattrs {fattrs:?}", ctx(String::new()), ga::name_of(m));
                        }
                    }
                }
            }
        }
        drop(pr);
        // ---- phase 2: the LDAP front-end, bound as the same identities -------------------------
        if c.reqs.iter().any(|q| matches!(q.kind, RKind::Ldap | RKind::LdapCompare { .. })) {
            let ldaps = match LdapServer::new(&b.idms).await {
                Ok(l) => l,
                Err(e) => panic!("harness: ldap server: {e:?}"),
            };
            let basedn = "dc=example,dc=com";
            // rdn -> uuid, from the stored data
            let mut by_rdn: BTreeMap<String, Uuid> = BTreeMap::new();
            for m in &all {
                by_rdn.insert(format!("uuid={}", m.uuid.as_hyphenated()), m.uuid);
                if let Some(s) = m.get("spn").and_then(|s| s.iter().next()) {
                    by_rdn.insert(format!("spn={s}"), m.uuid);
                }
            }
            let al = alphabet();
            for (ri, q) in c.reqs.iter().enumerate() {
                if !matches!(q.kind, RKind::Ldap | RKind::LdapCompare { .. }) {
                    continue;
                }
                let caller = match &q.who {
                    Caller::Anonymous => UUID_ANONYMOUS,
                    Caller::Acct(e) => uuid_of(*e),
                };
                if !by.get(&caller).map(|m| ga::is_live(m)).unwrap_or(false) {
                    continue;
                }
                // "Users via LDAP are always only granted anonymous rights unless they auth with an api-token"
                // (idm/server.rs, process_ldap_uuid_to_identity): a password-bound LDAP session reads as anonymous.
                let who: Who = ga::who_of(&all, UUID_ANONYMOUS);
                let allowed: BTreeMap<Uuid, BTreeSet<String>> = all.iter().map(|m| (m.uuid, ga::search_allowed(&acps, &who, m, &all))).collect();
                let token = LdapBoundToken {
                    spn: format!("caller-{ri}"),
                    session_id: pop::uuid_of(Kind::Other, 900 + ri as u32),
                    effective_session: LdapSession::UnixBind(caller),
                };
                let ip = std::net::IpAddr::V4(std::net::Ipv4Addr::LOCALHOST);
                let ctx = |extra: String| -> String { format!("LDAP request #{ri} caller {:?} kind {:?} filter {} | {extra}", q.who, q.kind, q.f.render()) };
                match &q.kind {
                    RKind::Ldap => {
                        let (lf, mut fattrs) = ldap_of(&q.f);
                        // the front-end adds a class condition (schema / acp entries are masked)
                        fattrs.insert("class".into());
                        let sr = SearchRequest {
                            msgid: 1,
                            base: basedn.to_string(),
                            scope: LdapSearchScope::Subtree,
                            filter: lf,
                            attrs: vec![],
                        };
                        let resp = ldaps.do_op(&b.idms, ServerOps::Search(sr), Some(token), ip, pop::uuid_of(Kind::Other, 2)).await;
                        let msgs = match resp {
                            Ok(LdapResponseState::MultiPartResponse(m)) => m,
                            Ok(_) | Err(_) => {
                                log.class("ldap-search:error");
                                continue;
                            }
                        };
                        let mut n = 0;
                        for msg in msgs {
                            let LdapOp::SearchResultEntry(e) = msg.op else { continue };
                            n += 1;
                            let rdn = e.dn.split(',').next().unwrap_or("").to_string();
                            let Some(u) = by_rdn.get(&rdn) else {
                                log.fail("LDAP search returned an entry that is not stored", ctx(e.dn.clone()));
                                return;
                            };
                            let m = by[u];
                            if !ga::is_live(m) {
                                log.fail("deleted or recycled entry returned by an LDAP search", ctx(e.dn.clone()));
                                return;
                            }
                            let alw = &allowed[u];
                            if !fattrs.is_subset(alw) {
                                log.fail(
                                    "LDAP search revealed an entry through a filter term on an attribute the caller cannot read",
                                    ctx(format!("entry {}: filter attrs {fattrs:?}, readable {alw:?}", e.dn)),
                                );
                                return;
                            }
                            for a in &e.attributes {
                                let an = a.atype.to_lowercase();
                                if !alw.contains(&an) {
                                    log.fail(
                                        "LDAP search returned an attribute without a read grant",
                                        ctx(format!("entry {}: attribute {an}, readable {alw:?}", e.dn)),
                                    );
                                    return;
                                }
                            }
                            if m.attrs.keys().any(|a| !alw.contains(a)) {
                                any_withheld = true;
                            }
                        }
                        if n > 0 {
                            any_returned = true;
                            log.class("ldap-search:returned");
                        } else {
                            log.class("ldap-search:empty");
                        }
                    }
                    RKind::LdapCompare { entry, rdn, attr, val } => {
                        let t = uuid_of(norm_ent(*entry, &c.pop));
                        let Some(tm) = by.get(&t) else { continue };
                        let (ra, rv) = match rdn % 3 {
                            0 => ("name".to_string(), ga::name_of(tm)),
                            1 => ("uuid".to_string(), t.as_hyphenated().to_string()),
                            _ => ("spn".to_string(), tm.get("spn").and_then(|s| s.iter().next().cloned()).unwrap_or_default()),
                        };
                        let (an, vs) = &al.attrs[*attr as usize % al.attrs.len()];
                        let v = &vs[*val as usize % vs.len()];
                        let cr = CompareRequest {
                            msgid: 1,
                            entry: format!("{ra}={rv},{basedn}"),
                            atype: an.clone(),
                            val: v.clone(),
                        };
                        let resp = ldaps.do_op(&b.idms, ServerOps::Compare(cr), Some(token), ip, pop::uuid_of(Kind::Other, 3)).await;
                        let is_true = match resp {
                            Ok(LdapResponseState::MultiPartResponse(m)) => m.iter().any(|x| matches!(&x.op, LdapOp::CompareResult(r) if r.code == LdapResultCode::CompareTrue)),
                            _ => false,
                        };
                        if is_true {
                            log.class("ldap-compare:true");
                            any_returned = true;
                            let need: BTreeSet<String> = [ra.clone(), an.clone(), "class".to_string()].into_iter().collect();
                            let witness = all.iter().any(|m| ga::is_live(m) && need.is_subset(&allowed[&m.uuid]));
                            if !witness {
                                log.fail(
                                    "LDAP compare is true although no visible entry has all compared attributes readable",
                                    ctx(format!("compare {ra}={rv} {an}={v}; needs {need:?}")),
                                );
                                return;
                            }
                        } else {
                            log.class("ldap-compare:false-or-error");
                            let need: BTreeSet<String> = [ra.clone(), an.clone(), "class".to_string()].into_iter().collect();
                            if ga::is_live(tm) && !allowed[&t].is_empty() && !need.is_subset(&allowed[&t]) {
                                let holds = tm.get(an).map(|s| s.iter().any(|x| x.eq_ignore_ascii_case(v))).unwrap_or(false);
                                if holds {
                                    log.class("ldap-compare:true-fact-withheld-by-filter-attr-rule");
                                    any_withheld = true;
                                }
                            }
                        }
                    }
                    _ => {}
                }
            }
        }
        if any_returned && any_withheld && gen_applicable > 0 {
            log.nontrivial();
        }
        if any_returned {
            log.class("world:returned-something");
        }
        if any_withheld {
            log.class("world:withheld-or-stripped");
        }
        let _ = ident::internal;
    });
    log.finish()
}

fn main() {
    let cx = Check::from_args("C23", "exploration");
    cx.rule(
        "generated worlds: 3-5 persons, 1-2 service accounts, 3-5 nested groups (random members, entry managers, descriptions/mail/legalname/gid, memberships in 7 shipped role groups, \
         live/recycled/tombstone), optional OAuth2 client with a scope map, 2-6 generated search ACPs (group or entry-manager receiver, generated target scope incl. self/NOT, random attribute set, \
         10% disabled) on top of the shipped ACPs; per world 8-12 requests (caller person/service/anonymous x read-only/read-write x search_ext | search_ext with attribute list | exists | recycle-bin search, \
         filter from the C01 grammar over readable and unreadable attributes). non-trivial = the world had >=1 enabled generated ACP, >=1 request returned something and >=1 entry was withheld by the \
         filter-attribute rule or had an attribute stripped; distinct by hash of the case",
    );
    cx.assume(
        "grant model = union of search attrs of stored ACP entries (class access_control_search, not acp_enable=false, live) whose receiver matches (stored acp_receiver_group ∩ caller groups, \
         or caller/caller group is entry_managed_by of the entry) and whose acp_targetscope JSON, evaluated by the harness evaluator with self = caller, matches; memberof implies directmemberof; \
         plus OAuth2-client / application / sync-account visibility rules as documented. Caller groups = own BFS over member/dynmember united with stored memberof (permissive reading). \
         Whether a returned entry matches the request filter is C01's subject and is not asserted here; under-disclosure is only counted (diag:*).",
    );
    let n = cx.tier.pick(500, 12_000);
    let nreq = cx.tier.pick(8..13usize, 10..20usize);
    cx.prop("worlds-x-requests", PropCfg::new(n).shrink(200), || arb_case(nreq.clone()), srv::runtime, |rt, c| run_case(rt, c));
    cx.require_class("search:returned", 100);
    cx.require_class("search:matching-entry-withheld-by-filter-attr-rule", 50);
    cx.require_class("search:attribute-stripped", 100);
    cx.require_class("exists:true", 30);
    cx.finish();
}
