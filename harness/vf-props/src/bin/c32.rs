//! C32 — Bearer tokens are accepted only for live sessions.
//!
//! Random histories on one real `IdmServer`: logins, API-token issue, session revocation,
//! credential replacement, validity-window edits, account deletion, domain key rotation /
//! revocation, clock steps around the post-issue grace window and the token expiry, delayed
//! actions (session records) processed or dropped. After EVERY event every token issued so far and
//! forged variants of it are presented through `validate_client_auth_info_to_ident`.
//!
//! Oracle (one-directional, from the property text): an accepted token must be unmodified, signed
//! by a key that was not revoked, unexpired, belong to an existing account inside its window, and —
//! once strictly past the grace window — have its session recorded on the stored account entry
//! (login tokens: same expiry, not revoked). The harness model knows what happened (events); the
//! session state is read from the stored entry, never from the validation code.
use kanidm_proto::internal::{ApiToken as ProtoApiToken, UserAuthToken};
use kanidmd_lib::constants::*;
use kanidmd_lib::idm::account::DestroySessionTokenEvent;
use kanidmd_lib::modify::Modify;
use kanidmd_lib::prelude::*;
use kanidmd_lib::value::Value;
use kanidmd_lib::verif_hooks::ident;
use kanidmd_lib::verif_hooks::session as hk;
use proptest::prelude::*;
use serde::{Deserialize, Serialize};
use std::collections::BTreeSet;
use vf_core::{pick_idx, CaseLog, Check, Outcome, PropCfg};
use vf_world::g_session::{self as gs, Login, Mech, World};
use vf_world::pop;
use vf_world::srv::{self, ct};

const GRACE: u64 = 300;
const START: u64 = 1000;

#[derive(Debug, Clone, Copy, PartialEq, Eq, Serialize, Deserialize)]
enum Step {
    S1,
    S60,
    S298,
    S299,
    S300,
    S301,
    S3600,
    /// just below / at / above the default session lifetime
    S86098,
    S86400,
}
impl Step {
    fn secs(&self) -> u64 {
        match self {
            Step::S1 => 1,
            Step::S60 => 60,
            Step::S298 => 298,
            Step::S299 => 299,
            Step::S300 => 300,
            Step::S301 => 301,
            Step::S3600 => 3600,
            Step::S86098 => 86098,
            Step::S86400 => 86400,
        }
    }
}

#[derive(Debug, Clone, Copy, PartialEq, Eq, Serialize, Deserialize)]
enum Rel {
    Past(u16),
    Future(u16),
}

#[derive(Debug, Clone, PartialEq, Eq, Serialize, Deserialize)]
enum Op {
    Login { p: u8, privileged: bool },
    IssueApi { rw: bool, compact: bool, ttl: Option<u16> },
    RevokeSession { k: u16 },
    DestroyApi { k: u16 },
    ReplaceCredential { p: u8 },
    SetWindow { a: u8, vf: Option<Rel>, ex: Option<Rel> },
    ClearWindow { a: u8 },
    Delete { a: u8 },
    RotateKey { delay: u16 },
    RevokeKeyOf { k: u16 },
    Advance { s: Step },
    ProcessDelayed,
    DropDelayed,
}

#[derive(Debug, Clone, Serialize, Deserialize)]
struct Case {
    ops: Vec<Op>,
}

fn arb_rel() -> impl Strategy<Value = Rel> {
    prop_oneof![(1u16..2000).prop_map(Rel::Past), (1u16..2000).prop_map(Rel::Future)]
}

fn arb_step() -> impl Strategy<Value = Step> {
    prop_oneof![
        3 => Just(Step::S1),
        3 => Just(Step::S60),
        2 => Just(Step::S298),
        2 => Just(Step::S299),
        2 => Just(Step::S300),
        3 => Just(Step::S301),
        2 => Just(Step::S3600),
        1 => Just(Step::S86098),
        1 => Just(Step::S86400),
    ]
}

fn arb_op() -> impl Strategy<Value = Op> {
    prop_oneof![
        10 => (0u8..2, any::<bool>()).prop_map(|(p, privileged)| Op::Login { p, privileged }),
        5 => (any::<bool>(), any::<bool>(), prop::option::weighted(0.4, 1u16..4000)).prop_map(|(rw, compact, ttl)| Op::IssueApi { rw, compact, ttl }),
        5 => any::<u16>().prop_map(|k| Op::RevokeSession { k }),
        3 => any::<u16>().prop_map(|k| Op::DestroyApi { k }),
        3 => (0u8..2).prop_map(|p| Op::ReplaceCredential { p }),
        4 => (0u8..3, prop::option::weighted(0.6, arb_rel()), prop::option::weighted(0.6, arb_rel())).prop_map(|(a, vf, ex)| Op::SetWindow { a, vf, ex }),
        2 => (0u8..3).prop_map(|a| Op::ClearWindow { a }),
        1 => (0u8..3).prop_map(|a| Op::Delete { a }),
        2 => (0u16..400).prop_map(|delay| Op::RotateKey { delay }),
        2 => any::<u16>().prop_map(|k| Op::RevokeKeyOf { k }),
        12 => arb_step().prop_map(|s| Op::Advance { s }),
        8 => Just(Op::ProcessDelayed),
        2 => Just(Op::DropDelayed),
    ]
}

#[derive(Debug, Clone, Copy, PartialEq, Eq)]
enum Kind {
    Uat,
    ApiFull,
    ApiCompact,
}

struct Acct {
    uuid: Uuid,
    name: &'static str,
    deleted: bool,
    vf: Option<u64>,
    ex: Option<u64>,
}

struct Tk {
    tok: String,
    kind: Kind,
    acct: usize,
    sid: Uuid,
    issued: u64,
    exp: Option<u64>,
    kid: Option<String>,
}

fn secs_of(t: time::OffsetDateTime) -> u64 {
    (t.unix_timestamp() as u64).saturating_sub(srv::T0_SECS)
}

/// Why the property forbids accepting `tk` at `now` (None = the property allows acceptance).
fn must_reject(
    tk: &Tk,
    now: u64,
    acct: &Acct,
    revoked_kids: &BTreeSet<String>,
    stored: Option<&kanidmd_lib::entry::EntrySealedCommitted>,
) -> Option<&'static str> {
    if let Some(k) = &tk.kid {
        if revoked_kids.contains(k) {
            return Some("signed by a revoked key");
        }
    }
    if let Some(e) = tk.exp {
        if now > e {
            return Some("expired token");
        }
    }
    if acct.deleted || stored.is_none() {
        return Some("account does not exist");
    }
    if acct.vf.map(|v| now < v).unwrap_or(false) || acct.ex.map(|e| now > e).unwrap_or(false) {
        return Some("account outside its validity window");
    }
    let stored = stored?;
    if now > tk.issued + GRACE {
        match tk.kind {
            Kind::Uat => {
                let sessions = hk::uat_sessions(stored);
                match sessions.get(&tk.sid) {
                    None => return Some("no session record past the grace window"),
                    Some(s) if s.revoked_at.is_some() => return Some("revoked session"),
                    Some(s) => {
                        let same = match (s.expires_at, tk.exp) {
                            (Some(a), Some(b)) => secs_of(a) == b,
                            (None, None) => s.never_expires,
                            _ => false,
                        };
                        if !same {
                            return Some("session expiry differs from token expiry");
                        }
                    }
                }
            }
            Kind::ApiFull | Kind::ApiCompact => {
                if !hk::api_token_sessions(stored).contains_key(&tk.sid) {
                    return Some("no api token session record past the grace window");
                }
            }
        }
    }
    None
}

fn run(rt: &tokio::runtime::Runtime, c: &Case) -> Outcome {
    let mut log = CaseLog::new();
    rt.block_on(async {
        let mut w = World::new().await;
        let mut accts = vec![
            Acct { uuid: pop::person_uuid(0), name: "vpa", deleted: false, vf: None, ex: None },
            Acct { uuid: pop::person_uuid(1), name: "vpb", deleted: false, vf: None, ex: None },
            Acct { uuid: pop::service_uuid(0), name: "vsvc", deleted: false, vf: None, ex: None },
        ];
        for (i, a) in accts.iter().enumerate() {
            let r = if i < 2 {
                w.create_person(100 + i as u64, a.uuid, a.name, Some(Mech::Password), gs::PW).await.map(|_| ())
            } else {
                w.create_service(100 + i as u64, a.uuid, a.name).await
            };
            if let Err(e) = r {
                log.fail("harness: setup failed", format!("{e:?}"));
                return;
            }
        }
        let mut now = START;
        let mut toks: Vec<Tk> = Vec::new();
        let mut revoked_kids: BTreeSet<String> = BTreeSet::new();
        let mut accepted_total = 0u32;
        let mut rejected_after_accept = false;
        let mut ever_accepted: BTreeSet<usize> = BTreeSet::new();

        for (step, op) in c.ops.iter().enumerate() {
            match op {
                Op::Login { p, privileged } => {
                    let ai = *p as usize % 2;
                    if let Login::Success(t) = w.login(accts[ai].name, Mech::Password, gs::PW, *privileged, now).await {
                        let parts = gs::token_parts(&t);
                        let uat = parts.as_ref().and_then(|p| serde_json::from_slice::<UserAuthToken>(&p.payload).ok());
                        match (parts, uat) {
                            (Some(p), Some(u)) => toks.push(Tk {
                                tok: t,
                                kind: Kind::Uat,
                                acct: ai,
                                sid: u.session_id,
                                issued: secs_of(u.issued_at),
                                exp: u.expiry.map(secs_of),
                                kid: p.kid,
                            }),
                            _ => {
                                log.fail("harness: issued UAT does not parse", t);
                                return;
                            }
                        }
                        log.class("op:login-success");
                    } else {
                        log.class("op:login-refused");
                    }
                }
                Op::IssueApi { rw, compact, ttl } => {
                    let exp = ttl.map(|t| now + t as u64);
                    if let Ok(t) = w.api_token(now, accts[2].uuid, "t", exp, *rw, *compact).await {
                        let Some(p) = gs::token_parts(&t) else {
                            log.fail("harness: issued api token does not parse", t);
                            return;
                        };
                        let sid = if *compact {
                            Uuid::from_slice(&p.payload).ok()
                        } else {
                            serde_json::from_slice::<ProtoApiToken>(&p.payload).ok().map(|a| a.token_id)
                        };
                        let Some(sid) = sid else {
                            log.fail("harness: api token payload does not parse", t);
                            return;
                        };
                        toks.push(Tk {
                            tok: t,
                            kind: if *compact { Kind::ApiCompact } else { Kind::ApiFull },
                            acct: 2,
                            sid,
                            issued: now,
                            exp,
                            kid: p.kid,
                        });
                        log.class("op:api-token-issued");
                    }
                }
                Op::RevokeSession { k } => {
                    let uats: Vec<usize> = toks.iter().enumerate().filter(|(_, t)| t.kind == Kind::Uat).map(|(i, _)| i).collect();
                    if !uats.is_empty() {
                        let t = &toks[uats[pick_idx(*k, uats.len())]];
                        let ev = DestroySessionTokenEvent {
                            ident: ident::internal(),
                            target: accts[t.acct].uuid,
                            token_id: t.sid,
                        };
                        if w.write(now, move |x| x.account_destroy_session_token(&ev)).await.is_ok() {
                            log.class("op:session-revoked");
                        }
                    }
                }
                Op::DestroyApi { k } => {
                    let apis: Vec<usize> = toks.iter().enumerate().filter(|(_, t)| t.kind != Kind::Uat).map(|(i, _)| i).collect();
                    if !apis.is_empty() {
                        let t = &toks[apis[pick_idx(*k, apis.len())]];
                        if w.destroy_api_token(now, accts[2].uuid, t.sid).await.is_ok() {
                            log.class("op:api-token-destroyed");
                        }
                    }
                }
                Op::ReplaceCredential { p } => {
                    let ai = *p as usize % 2;
                    if w.set_primary_password(now, accts[ai].uuid, gs::PW).await.is_ok() {
                        log.class("op:credential-replaced");
                    }
                }
                Op::SetWindow { a, vf, ex } => {
                    let ai = *a as usize % 3;
                    let abs = |r: &Rel| match r {
                        Rel::Past(d) => now.saturating_sub(*d as u64),
                        Rel::Future(d) => now + *d as u64,
                    };
                    let (v, e) = (vf.as_ref().map(abs), ex.as_ref().map(abs));
                    if w.set_window(now, accts[ai].uuid, v, e).await.is_ok() {
                        accts[ai].vf = v;
                        accts[ai].ex = e;
                        log.class("op:window-set");
                    }
                }
                Op::ClearWindow { a } => {
                    let ai = *a as usize % 3;
                    if w.set_window(now, accts[ai].uuid, None, None).await.is_ok() {
                        accts[ai].vf = None;
                        accts[ai].ex = None;
                    }
                }
                Op::Delete { a } => {
                    let ai = *a as usize % 3;
                    let u = accts[ai].uuid;
                    if w.write(now, move |x| x.qs_write.internal_delete_uuid(u)).await.is_ok() {
                        accts[ai].deleted = true;
                        log.class("op:account-deleted");
                    }
                }
                Op::RotateKey { delay } => {
                    let at = now + *delay as u64;
                    if w
                        .modify(now, UUID_DOMAIN_INFO, vec![Modify::Present(Attribute::KeyActionRotate, Value::new_datetime_epoch(ct(at)))])
                        .await
                        .is_ok()
                    {
                        log.class("op:key-rotated");
                    }
                }
                Op::RevokeKeyOf { k } => {
                    if !toks.is_empty() {
                        if let Some(kid) = toks[pick_idx(*k, toks.len())].kid.clone() {
                            if w
                                .modify(now, UUID_DOMAIN_INFO, vec![Modify::Present(Attribute::KeyActionRevoke, Value::HexString(kid.clone()))])
                                .await
                                .is_ok()
                            {
                                revoked_kids.insert(kid);
                                log.class("op:key-revoked");
                            }
                        }
                    }
                }
                Op::Advance { s } => now += s.secs(),
                Op::ProcessDelayed => {
                    if w.process_delayed(now).await > 0 {
                        log.class("op:delayed-processed");
                    }
                }
                Op::DropDelayed => {
                    if !w.drop_delayed().is_empty() {
                        log.class("op:delayed-dropped");
                    }
                }
            }
            now += 1;

            // ---- present everything issued so far, at `now`
            let mut stored = Vec::new();
            for a in &accts {
                stored.push(w.entry(a.uuid).await.ok());
            }
            for (i, tk) in toks.iter().enumerate() {
                let r = w.token_ident(&tk.tok, now).await;
                let why = must_reject(tk, now, &accts[tk.acct], &revoked_kids, stored[tk.acct].as_deref());
                match (&r, why) {
                    (Ok(_), Some(reason)) => {
                        log.fail(
                            format!("token accepted: {reason}"),
                            format!(
                                "after step {step} {op:?} at t={now}: {:?} token #{i} (issued {}, exp {:?}, kid {:?}) accepted although {reason}",
                                tk.kind, tk.issued, tk.exp, tk.kid
                            ),
                        );
                        return;
                    }
                    (Ok(id), None) => {
                        accepted_total += 1;
                        ever_accepted.insert(i);
                        // the identity must be the token's account
                        if id.get_uuid() != accts[tk.acct].uuid {
                            log.fail("token accepted for a different account", format!("token #{i} -> {:?}", id.get_uuid()));
                            return;
                        }
                        log.class(format!("accepted:{:?}", tk.kind));
                        if now <= tk.issued + GRACE {
                            let recorded = stored[tk.acct].as_deref().map(|e| match tk.kind {
                                Kind::Uat => hk::uat_sessions(e).contains_key(&tk.sid),
                                _ => hk::api_token_sessions(e).contains_key(&tk.sid),
                            });
                            if recorded == Some(false) {
                                log.class("accepted-in-grace-without-record");
                            }
                        } else {
                            log.class(format!("accepted-past-grace-with-record:{:?}", tk.kind));
                        }
                    }
                    (Err(_), Some(reason)) => {
                        log.class(format!("rejected: {reason}"));
                        if ever_accepted.contains(&i) {
                            rejected_after_accept = true;
                        }
                    }
                    (Err(_), None) => {
                        // over-refusal is not judged (one-directional); count it to watch the harness
                        log.class("rejected-without-model-reason (not judged)");
                    }
                }
                // forged variants are never acceptable
                let other = toks.iter().find(|o| o.tok != tk.tok).map(|o| o.tok.as_str());
                for (label, forged) in gs::mutants(&tk.tok, other) {
                    if w.token_ident(&forged, now).await.is_ok() {
                        log.fail(
                            format!("forged token accepted ({label})"),
                            format!("after step {step} at t={now}: variant '{label}' of {:?} token #{i} accepted", tk.kind),
                        );
                        return;
                    }
                }
                if !toks.is_empty() {
                    log.class("forged-variants-rejected");
                }
            }
        }
        if accepted_total > 0 && rejected_after_accept {
            log.nontrivial();
        }
    });
    log.finish()
}

fn main() {
    let cx = Check::from_args("C32", "exploration");
    cx.rule(
        "random histories (quick 8-40 ops) over 2 persons + 1 service account on a real in-memory IdmServer: password logins (privileged or not), API tokens (ro/rw, full/compact, optional expiry), \
         session revoke, API token destroy, credential replacement, validity window edits relative to now, account delete, domain key rotate (now or future) / revoke by kid, clock steps {1,60,298..301,3600,86098,86400}s, \
         delayed session records processed or dropped; after every op all issued tokens and 4-5 forged variants each are presented. non-trivial = some token was accepted and later rejected for a model reason; distinct by hash of the history",
    );
    cx.assume("instants exactly at issue+grace or exactly at expiry are not judged (strict comparisons in the oracle)");
    cx.assume("within the grace window the property allows acceptance without a session record; a revoked record inside the grace window is therefore not judged");
    cx.assume("the stored entry (sessions, API token records) is read through internal search; the harness model supplies revoked key ids, deletions, windows, forged-ness");
    let n = cx.tier.pick(260, 6_000);
    let len = cx.tier.pick(8..41usize, 10..90usize);
    cx.prop(
        "token-histories",
        PropCfg::new(n).shrink(120),
        || prop::collection::vec(arb_op(), len.clone()).prop_map(|ops| Case { ops }),
        srv::runtime,
        |rt, c| run(rt, c),
    );
    for (l, floor) in [
        ("accepted:Uat", 100),
        ("accepted:ApiFull", 30),
        ("accepted:ApiCompact", 30),
        ("accepted-in-grace-without-record", 20),
        ("accepted-past-grace-with-record:Uat", 20),
        ("rejected: no session record past the grace window", 15),
        ("rejected: revoked session", 15),
        ("rejected: signed by a revoked key", 10),
        ("rejected: account outside its validity window", 15),
        ("rejected: account does not exist", 5),
        ("rejected: expired token", 10),
        ("forged-variants-rejected", 100),
    ] {
        cx.require_class(l, floor);
    }
    cx.finish();
}
