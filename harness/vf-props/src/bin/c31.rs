//! C31 — Weak or badlisted passwords can never be set.
//!
//! Every password-setting path of the real server (credential update session: self / admin /
//! reset link, primary and POSIX password; direct POSIX password change) is driven with passwords
//! built around the account's effective length bounds and with badlist members in random case,
//! under account policies with minimum lengths 10..40 given by direct and nested groups.
//!
//! Oracle (one-directional): the stored credential changed  =>  the password is not shorter than
//! the effective minimum under EVERY reading (so: bytes >= minimum), not longer than the maximum
//! under every reading (so: graphemes <= 128) and its lower-case form is not in the badlist.
//! A refused request leaves the credential unchanged.
use kanidm_lib_crypto::{DbPasswordV1, PW_MAX_LENGTH_NIST, PW_MFA_MIN_LENGTH, PW_SFA_MIN_LENGTH_NIST};
use kanidmd_lib::constants::{UUID_IDM_ADMIN, UUID_IDM_ALL_PERSONS, UUID_SYSTEM_CONFIG};
use kanidmd_lib::idm::credupdatesession::{InitCredentialUpdateEvent, InitCredentialUpdateIntentEvent};
use kanidmd_lib::idm::event::UnixPasswordChangeEvent;
use kanidmd_lib::entry::EntrySealedCommitted;
use kanidmd_lib::prelude::*;
use kanidmd_lib::value::{CredentialType, Value};
use kanidmd_lib::verif_hooks::auth::cred as credhook;
use kanidmd_lib::verif_hooks::ident;
use proptest::prelude::*;
use serde::{Deserialize, Serialize};
use std::time::Duration;
use time::OffsetDateTime;
use vf_core::{CaseLog, Check, Outcome, PropCfg};
use vf_world::g_auth::{totp_of, uuid_filter, PersonSpec, World};
use vf_world::{pop, srv};

const OLD_PW: &str = "0ld primary Passw0rd of the account";
const OLD_UNIX: &str = "0ld unix Passw0rd of the account";
const SECRET: &[u8] = b"c31-totp-secret-0123456789abcdef";
/// badlist members: long and random-looking, so that only the badlist can be the reason for refusal
const BADLIST: [&str; 4] = [
    "tk9#mqv2$xlp7@wzr4",
    "zq8!hdn3%vbx6^jmw1ck5&",
    "p4*gyt7(rls2)nfe9-quo3+bia6",
    "x1=wvk8[jzd5]mhc2;tpe7,rnb4.sgy9/luq",
];

#[derive(Debug, Clone, Copy, Serialize, Deserialize, PartialEq, Eq)]
enum Path {
    /// cred update session started by the person, primary password
    SelfPrimary,
    /// cred update session started by idm_admin for the person, primary password
    AdminPrimary,
    /// reset link created by idm_admin, exchanged, primary password
    LinkPrimary,
    /// cred update session started by the person, POSIX password
    SessionUnix,
    /// reset link, POSIX password
    LinkUnix,
    /// direct POSIX password change (set_unix_account_password)
    DirectUnix,
}

#[derive(Debug, Clone, Serialize, Deserialize)]
enum PwKind {
    /// ASCII, length = effective minimum + delta
    AsciiAroundMin(i8),
    /// ASCII, length = maximum + delta
    AsciiAroundMax(i8),
    /// multi-byte units (1 grapheme each, 1..4+ bytes), grapheme count = effective minimum + delta
    MultiAroundMin(i8),
    /// multi-byte units, grapheme count = maximum + delta
    MultiAroundMax(i8),
    /// multi-byte units whose BYTE length = effective minimum + delta (fewer graphemes)
    MultiBytesAroundMin(i8),
    /// badlist member idx with case flips given by the bit mask
    Badlist(u8, u64),
    /// badlist member with one character appended (must not be treated as badlisted)
    BadlistPlus(u8),
}

#[derive(Debug, Clone, Serialize, Deserialize)]
struct Case {
    /// minimum length of the policy group the person is a direct member of (None: no such policy)
    direct_min: Option<u8>,
    /// minimum length of the policy group reached through a nested group
    nested_min: Option<u8>,
    /// true: idm_all_persons demands MFA (the default) and the person has TOTP; false: any credential
    mfa: bool,
    path: Path,
    kind: PwKind,
    /// random material the password characters are drawn from
    stream: Vec<u16>,
}

const ASCII: &[u8] = b"abcdefghijkmnopqrstuvwxyzABCDEFGHJKLMNPQRSTUVWXYZ23456789!#$%&*+-=?@^_~";
/// one grapheme each, by construction (no joiners, no modifiers, combining mark only after its own base)
const UNITS: [&str; 12] = ["é", "ß", "ж", "漢", "字", "😀", "🦀", "e\u{301}", "o\u{308}", "n\u{303}", "Ω", "ñ"];

fn build_pw(kind: &PwKind, stream: &[u16], eff_min: usize, max: usize) -> Option<(String, usize)> {
    let pick = |i: usize| stream[i % stream.len().max(1)] as usize;
    let target = |base: usize, d: i8| -> Option<usize> {
        let v = base as i64 + d as i64;
        (v >= 1).then_some(v as usize)
    };
    match kind {
        PwKind::AsciiAroundMin(d) | PwKind::AsciiAroundMax(d) => {
            let n = target(if matches!(kind, PwKind::AsciiAroundMin(_)) { eff_min } else { max }, *d)?;
            let s: String = (0..n).map(|i| ASCII[pick(i) % ASCII.len()] as char).collect();
            Some((s, n))
        }
        PwKind::MultiAroundMin(d) | PwKind::MultiAroundMax(d) => {
            let n = target(if matches!(kind, PwKind::MultiAroundMin(_)) { eff_min } else { max }, *d)?;
            let mut s = String::new();
            for i in 0..n {
                // two of three units multi-byte, one ASCII
                if pick(i) % 3 == 0 {
                    s.push(ASCII[pick(i + 7) % ASCII.len()] as char);
                } else {
                    s.push_str(UNITS[pick(i) % UNITS.len()]);
                }
            }
            Some((s, n))
        }
        PwKind::MultiBytesAroundMin(d) => {
            let bytes = target(eff_min, *d)?;
            let mut s = String::new();
            let mut n = 0;
            let mut i = 0;
            while s.len() < bytes {
                let left = bytes - s.len();
                let u = UNITS[pick(i) % UNITS.len()];
                if u.len() <= left && pick(i + 3) % 4 != 0 {
                    s.push_str(u);
                } else {
                    s.push(ASCII[pick(i + 5) % ASCII.len()] as char);
                }
                n += 1;
                i += 1;
            }
            Some((s, n))
        }
        PwKind::Badlist(idx, mask) => {
            let b = BADLIST[*idx as usize % BADLIST.len()];
            let s: String = b
                .chars()
                .enumerate()
                .map(|(i, c)| if mask >> (i % 64) & 1 == 1 { c.to_ascii_uppercase() } else { c })
                .collect();
            let n = s.chars().count();
            Some((s, n))
        }
        PwKind::BadlistPlus(idx) => {
            let b = BADLIST[*idx as usize % BADLIST.len()];
            let s = format!("{b}{}", ASCII[pick(0) % ASCII.len()] as char);
            let n = s.chars().count();
            Some((s, n))
        }
    }
}

struct Thread {
    rt: tokio::runtime::Runtime,
    w: World,
    clock: u64,
    /// minimum length / credential type carried by the builtin idm_all_persons policy at start
    builtin_min: Option<u32>,
}

const G_DIRECT: u32 = 1;
const G_NESTED_POLICY: u32 = 2;
const G_INNER: u32 = 3;

fn setup() -> Thread {
    let rt = srv::runtime();
    let (w, builtin_min) = rt.block_on(async {
        let w = World::new().await;
        let builtin_min = w
            .write(srv::ct(1), |t| {
                // person 0: posix, password + TOTP, member of G_DIRECT and G_INNER (G_INNER is a member of G_NESTED_POLICY)
                vf_world::g_auth::create_person(
                    t,
                    &PersonSpec {
                        idx: 0,
                        password: Some(OLD_PW.into()),
                        totp: Some((SECRET.to_vec(), 30)),
                        posix: true,
                        unix_password: Some(OLD_UNIX.into()),
                        ..Default::default()
                    },
                )?;
                let p = pop::person_uuid(0);
                let mut gd = pop::group(pop::group_uuid(G_DIRECT), "vpolicy_direct", &[p]);
                gd.add_ava(Attribute::Class, EntryClass::AccountPolicy.to_value());
                let gi = pop::group(pop::group_uuid(G_INNER), "vinner", &[p]);
                let mut gn = pop::group(pop::group_uuid(G_NESTED_POLICY), "vpolicy_nested", &[pop::group_uuid(G_INNER)]);
                gn.add_ava(Attribute::Class, EntryClass::AccountPolicy.to_value());
                t.qs_write.internal_create(vec![gd, gi, gn])?;
                // badlist
                let mods: Vec<Modify> = BADLIST.iter().map(|b| Modify::Present(Attribute::BadlistPassword, Value::new_iutf8(b))).collect();
                t.qs_write.internal_modify(&uuid_filter(UUID_SYSTEM_CONFIG), &ModifyList::new_list(mods))?;
                let e = t.qs_write.internal_search_uuid(UUID_IDM_ALL_PERSONS)?;
                Ok(e.get_ava_single_uint32(Attribute::AuthPasswordMinimumLength))
            })
            .await
            .expect("setup");
        (w, builtin_min)
    });
    Thread { rt, w, clock: 100, builtin_min }
}

fn pw_repr(e: &EntrySealedCommitted, attr: Attribute) -> Option<DbPasswordV1> {
    e.get_ava_single_credential(attr)
        .and_then(|c| c.password_ref().ok())
        .map(|p| p.to_dbpasswordv1())
}

fn check(th: &mut Thread, case: &Case) -> Outcome {
    let mut log = CaseLog::new();
    let p = pop::person_uuid(0);
    th.clock += 1000;
    let ct = srv::ct(th.clock);
    let w = &th.w;
    let builtin_min = th.builtin_min;
    // ---- effective bounds, computed from what the harness stored (independent of the server's fold)
    let mins = [Some(PW_MFA_MIN_LENGTH), builtin_min, case.direct_min.map(|v| v as u32), case.nested_min.map(|v| v as u32)];
    let mut eff_min = mins.iter().flatten().copied().max().unwrap_or(PW_MFA_MIN_LENGTH);
    if !case.mfa && eff_min < PW_SFA_MIN_LENGTH_NIST {
        // second factors optional => single-factor minimum
        eff_min = PW_SFA_MIN_LENGTH_NIST;
    }
    let max = PW_MAX_LENGTH_NIST as usize;
    let Some((pw, graphemes)) = build_pw(&case.kind, &case.stream, eff_min as usize, max) else {
        return Outcome::discard();
    };
    let bytes = pw.len();
    let unix_path = matches!(case.path, Path::SessionUnix | Path::LinkUnix | Path::DirectUnix);
    let target_attr = if unix_path { Attribute::UnixPassword } else { Attribute::PrimaryCredential };

    let r: Result<(bool, Option<DbPasswordV1>, Option<DbPasswordV1>, String), String> = th.rt.block_on(async {
        // ---- arrange: policies, credentials back to the known old values
        w.write(ct, |t| {
            let set_min = |t: &mut kanidmd_lib::idm::server::IdmServerProxyWriteTransaction<'_>, g: u32, v: Option<u8>| {
                let mut mods = vec![Modify::Purged(Attribute::AuthPasswordMinimumLength)];
                if let Some(v) = v {
                    mods.push(Modify::Present(Attribute::AuthPasswordMinimumLength, Value::new_uint32(v as u32)));
                }
                t.qs_write.internal_modify(&uuid_filter(pop::group_uuid(g)), &ModifyList::new_list(mods))
            };
            set_min(t, G_DIRECT, case.direct_min)?;
            set_min(t, G_NESTED_POLICY, case.nested_min)?;
            let ctm: CredentialType = if case.mfa { CredentialType::Mfa } else { CredentialType::Any };
            t.qs_write.internal_modify(
                &uuid_filter(UUID_IDM_ALL_PERSONS),
                &ModifyList::new_list(vec![
                    Modify::Purged(Attribute::CredentialTypeMinimum),
                    Modify::Present(Attribute::CredentialTypeMinimum, ctm.into()),
                ]),
            )?;
            let ts = OffsetDateTime::UNIX_EPOCH + srv::t0();
            let mut c = credhook::password_only(OLD_PW, ts)?;
            c = credhook::append_totp(&c, "totp", totp_of(SECRET, 30), ts);
            let u = credhook::password_only(OLD_UNIX, ts)?;
            t.qs_write.internal_modify(
                &uuid_filter(p),
                &ModifyList::new_list(vec![
                    Modify::Purged(Attribute::PrimaryCredential),
                    Modify::Present(Attribute::PrimaryCredential, Value::new_credential("primary", c)),
                    Modify::Purged(Attribute::UnixPassword),
                    Modify::Present(Attribute::UnixPassword, Value::new_credential("unix", u)),
                    Modify::Purged(Attribute::CredentialUpdateIntentToken),
                ]),
            )
        })
        .await
        .map_err(|e| format!("arrange: {e:?}"))?;
        let before = {
            let mut r = w.idms.proxy_read().await.map_err(|e| format!("{e:?}"))?;
            let e = r.qs_read.internal_search_uuid(p).map_err(|e| format!("{e:?}"))?;
            pw_repr(&e, target_attr.clone())
        };
        if before.is_none() {
            return Err("arranged credential is missing".into());
        }
        // ---- act
        let ct1 = ct + Duration::from_secs(1);
        let ct2 = ct + Duration::from_secs(2);
        let ct3 = ct + Duration::from_secs(3);
        let accepted: Result<(), String> = match case.path {
            Path::DirectUnix => {
                let ev = UnixPasswordChangeEvent::from_parts(ident::internal(), p, pw.clone()).map_err(|e| format!("{e:?}"))?;
                w.write(ct1, |t| t.set_unix_account_password(&ev)).await.map_err(|e| format!("{e:?}"))
            }
            _ => {
                // open the session
                let tok = w
                    .write(ct1, |t| {
                        let pe = t.qs_write.internal_search_uuid(p)?;
                        let ae = t.qs_write.internal_search_uuid(UUID_IDM_ADMIN)?;
                        match case.path {
                            Path::SelfPrimary | Path::SessionUnix => {
                                t.init_credential_update(&InitCredentialUpdateEvent::new(ident::user_readwrite(pe), p), ct1)
                            }
                            Path::AdminPrimary => t.init_credential_update(&InitCredentialUpdateEvent::new(ident::user_readwrite(ae), p), ct1),
                            _ => {
                                let it = t.init_credential_update_intent(
                                    &InitCredentialUpdateIntentEvent::new(ident::user_readwrite(ae), p, Some(Duration::from_secs(900))),
                                    ct1,
                                )?;
                                t.exchange_intent_credential_update(it.into(), ct1)
                            }
                        }
                    })
                    .await
                    .map_err(|e| format!("harness: cannot open a credential update session: {e:?}"));
                let (tok, _st) = match tok {
                    Ok(x) => x,
                    Err(e) => return Err(e),
                };
                let set = {
                    let cu = w.idms.cred_update_transaction().await.map_err(|e| format!("{e:?}"))?;
                    if unix_path {
                        cu.credential_unix_set_password(&tok, ct2, &pw)
                    } else {
                        cu.credential_primary_set_password(&tok, ct2, &pw)
                    }
                };
                match set {
                    Err(e) => {
                        // refused: close the session without committing
                        let _ = w.write(ct3, |t| t.cancel_credential_update(&tok, ct3)).await;
                        Err(format!("{e:?}"))
                    }
                    Ok(_) => w.write(ct3, |t| t.commit_credential_update(&tok, ct3)).await.map_err(|e| format!("commit: {e:?}")),
                }
            }
        };
        let after = {
            let mut r = w.idms.proxy_read().await.map_err(|e| format!("{e:?}"))?;
            let e = r.qs_read.internal_search_uuid(p).map_err(|e| format!("{e:?}"))?;
            pw_repr(&e, target_attr.clone())
        };
        Ok((accepted.is_ok(), before, after, accepted.err().unwrap_or_default()))
    });
    let (accepted, before, after, why) = match r {
        Ok(x) => x,
        Err(e) => return Outcome::discard().class(format!("harness-error:{}", e.chars().take(60).collect::<String>())),
    };
    let changed = before != after;
    let lower = pw.to_lowercase();
    let badlisted = BADLIST.contains(&lower.as_str());
    let path = format!("{:?}", case.path);
    let detail = format!(
        "path {path}, policy direct {:?} nested {:?} mfa {} => effective minimum {eff_min}, maximum {max}; password {pw:?}: {bytes} bytes, {} chars, {graphemes} graphemes; request {}",
        case.direct_min,
        case.nested_min,
        case.mfa,
        pw.chars().count(),
        if accepted { "accepted".to_string() } else { format!("refused ({why})") }
    );
    if changed {
        if bytes < eff_min as usize {
            let sig = if case.path == Path::DirectUnix {
                "direct POSIX password change stores a password shorter than the account's effective minimum".to_string()
            } else {
                format!("stored password shorter than the effective minimum ({path})")
            };
            log.fail(sig, detail.clone());
        }
        if graphemes > max {
            log.fail(format!("stored password longer than the maximum ({path})"), detail.clone());
        }
        if badlisted {
            log.fail(format!("badlisted password stored ({path})"), detail.clone());
        }
        if !accepted {
            log.fail(format!("refused request changed the stored credential ({path})"), detail.clone());
        }
        // attribute the change to our password when it can be verified
        log.class("stored");
        log.class(format!("stored:{path}"));
        if !pw.is_ascii() {
            log.class("stored:multi-byte");
        }
        if graphemes + 2 >= max {
            log.class("stored:within-2-of-maximum");
        }
        if bytes <= eff_min as usize + 2 {
            log.class("stored:within-2-of-minimum");
        }
        if matches!(case.kind, PwKind::BadlistPlus(_)) {
            log.class("stored:badlist-member-plus-one-char");
        }
    } else {
        log.class("not-stored");
        if accepted {
            log.class("accepted-but-credential-unchanged");
        }
        let near_min = (graphemes as i64 - eff_min as i64).abs() <= 2 || (bytes as i64 - eff_min as i64).abs() <= 2;
        let near_max = (graphemes as i64 - max as i64).abs() <= 2;
        if near_min || near_max {
            log.class("refused-within-2-of-a-bound");
        }
        if badlisted {
            log.class("refused:badlisted");
            if pw != lower {
                log.class("refused:badlisted-mixed-case");
            }
        }
    }
    log.class(format!("path:{path}"));
    if case.nested_min.map(|v| v as u32) == Some(eff_min) && case.direct_min.map(|v| v as u32) != Some(eff_min) {
        log.class("minimum-from-nested-group");
    }
    log.nontrivial();
    log.finish()
}

fn arb_case() -> impl Strategy<Value = Case> {
    let minv = prop_oneof![2 => Just(None), 6 => (10u8..=40).prop_map(Some)];
    let path = prop_oneof![
        2 => Just(Path::SelfPrimary),
        1 => Just(Path::AdminPrimary),
        2 => Just(Path::LinkPrimary),
        2 => Just(Path::SessionUnix),
        1 => Just(Path::LinkUnix),
        3 => Just(Path::DirectUnix),
    ];
    let d = -3i8..=3;
    let kind = prop_oneof![
        5 => d.clone().prop_map(PwKind::AsciiAroundMin),
        2 => d.clone().prop_map(PwKind::AsciiAroundMax),
        3 => d.clone().prop_map(PwKind::MultiAroundMin),
        2 => d.clone().prop_map(PwKind::MultiAroundMax),
        2 => d.prop_map(PwKind::MultiBytesAroundMin),
        3 => (0u8..4, prop_oneof![Just(0u64), any::<u64>()]).prop_map(|(i, m)| PwKind::Badlist(i, m)),
        1 => (0u8..4).prop_map(PwKind::BadlistPlus),
    ];
    (minv.clone(), minv, any::<bool>(), path, kind, proptest::collection::vec(any::<u16>(), 40))
        .prop_map(|(direct_min, nested_min, mfa, path, kind, stream)| Case { direct_min, nested_min, mfa, path, kind, stream })
}

fn main() {
    let cx = Check::from_args("C31", "exploration");
    cx.rule(
        "random cases: account policy minimum 10..40 on a direct group and/or on a group reached through a nested group, MFA required or not (single-factor minimum applies), \
         path in {self session, admin session, reset link} x {primary, POSIX password} + direct POSIX change, password = random high-entropy ASCII or multi-byte units (bytes != chars != graphemes) \
         of length minimum-3..+3 / maximum-3..+3 (graphemes or bytes), or a badlist member with random case flips, or a badlist member plus one character. \
         One server per worker; before every case the credentials and policies are reset. oracle: credential changed => bytes >= effective minimum, graphemes <= 128, lower-case form not badlisted; refused => unchanged. \
         every case is non-trivial (a password at a bound or from the badlist through a real path); distinct by hash",
    );
    cx.assume("effective minimum = max(policy minimums of all groups the person is a (transitive) member of, 10), raised to 15 when second factors are optional; grapheme counts are known by construction of the password");
    cx.assume("recover_account(name, Some(password)) (server console recovery) is not a credential-setting request in the sense of the property and is not driven");
    let n = cx.tier.pick(2_500, 80_000);
    cx.prop("password-setting-paths", PropCfg::new(n).shrink(150), arb_case, setup, |th, c| check(th, c));
    cx.require_class("stored", 300);
    for p in ["SelfPrimary", "AdminPrimary", "LinkPrimary", "SessionUnix", "LinkUnix", "DirectUnix"] {
        cx.require_class(&format!("stored:{p}"), 20);
    }
    cx.require_class("stored:multi-byte", 30);
    cx.require_class("stored:within-2-of-minimum", 50);
    cx.require_class("stored:within-2-of-maximum", 20);
    cx.require_class("refused-within-2-of-a-bound", 100);
    cx.require_class("refused:badlisted-mixed-case", 50);
    cx.require_class("minimum-from-nested-group", 50);
    cx.finish();
}
