//! C16 — No dangling references.
//!
//! Random histories over users, groups, OAuth2 clients and entry managers with reference edits
//! (also to missing / recycled targets), deletes, revives and purges on a real server; after EVERY
//! op the harness scans every live entry: each uuid found in the on-disk encoding of any attribute
//! that the schema in force types with a reference-bearing syntax must belong to a live entry.
//! Second sub-check: two replicas, where one side may delete what the other references.
use proptest::prelude::*;
use serde::{Deserialize, Serialize};
use std::collections::BTreeSet;
use vf_core::{CaseLog, Check, Outcome, PropCfg};
use vf_world::dump::{status_of, Status};
use vf_world::g_integrity as gi;
use vf_world::ops::{self, Node, Op, Ref, Step, Weights};
use vf_world::repl::{Cluster, ReplResult, StepResult};
use vf_world::srv;

#[derive(Debug, Clone, Serialize, Deserialize)]
struct Case {
    ops: Vec<Op>,
}
#[derive(Debug, Clone, Serialize, Deserialize)]
struct RCase {
    steps: Vec<Step>,
}

fn weights() -> Weights {
    Weights {
        create: 6,
        member: 26,
        manager: 10,
        oauth2: 6,
        dyngroup: 1,
        delete: 9,
        revive: 5,
        purge: 3,
        advance: 3,
        rename: 1,
        attr: 1,
        posix: 0,
        reindex: 0,
        bad: 1,
        missing_refs: true,
        persons: 4,
        services: 2,
        groups: 6,
        ..Weights::default()
    }
}

/// Entries an op makes its target reference.
fn refs_written(op: &Op) -> Vec<Ref> {
    match op {
        Op::CreateGroup { members, .. } | Op::SetMembers { members, .. } => members.clone(),
        Op::AddMember { m, .. } => vec![*m],
        Op::SetManager { by, .. } => vec![*by],
        Op::CreateOAuth2 { group, .. } | Op::SetScopeMap { group, .. } => vec![*group],
        _ => vec![],
    }
}

fn dangling_sig(attr: &str, st: Option<Status>) -> String {
    let st = match st {
        None => "an absent entry".to_string(),
        Some(s) => format!("a {s:?} entry").to_lowercase(),
    };
    format!("live entry references {st} through {attr}")
}

fn scan(entries: &[gi::E], ref_attrs: &BTreeSet<String>, ctx: &dyn Fn() -> String, log: &mut CaseLog) -> usize {
    let sc = gi::ref_scan_with(entries, ref_attrs.clone());
    if let Some((h, a, t, st)) = sc.dangling.first() {
        log.fail(dangling_sig(a, *st), format!("{}: {h} has {a} -> {t} ({} dangling in total)", ctx(), sc.dangling.len()));
    }
    sc.live_refs
}

fn single(rt: &tokio::runtime::Runtime, c: &Case) -> Outcome {
    let mut log = CaseLog::new();
    rt.block_on(async {
        let mut node = Node::new().await;
        let first = gi::read_all(&node).await;
        let ref_attrs = gi::ref_attrs_of_node(&node, &first).await;
        if !(ref_attrs.contains("member") && ref_attrs.contains("oauth2_rs_scope_map") && ref_attrs.contains("entry_managed_by")) {
            panic!("harness: stored schema does not type member/scope map/entry_managed_by as references: {ref_attrs:?}");
        }
        let mut classes: BTreeSet<&'static str> = BTreeSet::new();
        let mut nontrivial = false;
        let mut deleted_ever: BTreeSet<uuid::Uuid> = BTreeSet::new();
        let stats = gi::run_hist(&mut node, &c.ops, &mut log, true, gi::apply_base, |a, log| {
            if matches!(a.op, Op::Advance { .. }) {
                return;
            }
            let live_before: BTreeSet<uuid::Uuid> = a.before.iter().filter(|e| status_of(e) == Status::Live).map(|e| e.get_uuid()).collect();
            let status_before = |u: uuid::Uuid| a.before.iter().find(|e| e.get_uuid() == u).map(|e| status_of(e));
            // class labels: writes of references to non-live targets
            let written = refs_written(a.op);
            let bad: Vec<_> = written.iter().filter(|r| !live_before.contains(&r.uuid())).collect();
            if !bad.is_empty() && !a.committed() {
                if bad.iter().any(|r| status_before(r.uuid()) == Some(Status::Recycled)) && written.iter().any(|r| live_before.contains(&r.uuid())) {
                    classes.insert("refused:mixed-live-and-recycled-refs");
                }
                for r in &bad {
                    match status_before(r.uuid()) {
                        None => classes.insert("refused:ref-to-absent"),
                        Some(Status::Recycled) => classes.insert("refused:ref-to-recycled"),
                        Some(Status::Tombstone) => classes.insert("refused:ref-to-tombstone"),
                        _ => false,
                    };
                }
            }
            if a.committed() {
                match a.op {
                    Op::Delete { t } if live_before.contains(&t.uuid()) => {
                        // holders among the generated population only (every person is a dynmember of
                        // the built-in idm_all_persons / idm_all_accounts)
                        let holders: Vec<_> = gi::holders_of(a.before, t.uuid(), &ref_attrs)
                            .into_iter()
                            .filter(|h| h.as_u128() >> 112 == 0xAAAA)
                            .collect();
                        deleted_ever.insert(t.uuid());
                        classes.insert("delete-of-live-entry");
                        if !holders.is_empty() {
                            classes.insert("delete-of-referenced-entry");
                            nontrivial = true;
                        }
                        if holders.len() >= 2 {
                            classes.insert("delete-of-entry-referenced-by>=2");
                        }
                    }
                    Op::Revive { t } if status_before(t.uuid()) == Some(Status::Recycled) => {
                        classes.insert("revive-of-recycled");
                    }
                    Op::PurgeRecycled => {
                        let n = a.before.iter().filter(|e| status_of(e) == Status::Recycled).count();
                        let m = a.entries.iter().filter(|e| status_of(e) == Status::Recycled).count();
                        if m < n {
                            classes.insert("purge-turned-recycled-into-tombstone");
                        }
                    }
                    Op::PurgeTombstones => {
                        if a.entries.len() < a.before.len() {
                            classes.insert("purge-removed-tombstones");
                        }
                    }
                    _ => {}
                }
            }
            // the invariant, after every op (rejected ones included: nothing may have changed)
            let step = a.step;
            let n = scan(a.entries, &ref_attrs, &|| format!("after step {step} {:?} -> {:?}", a.op, a.res), log);
            if n == 0 {
                log.fail("harness: no references found at all", "scanner sees no reference values");
            }
        })
        .await;
        for cl in classes {
            log.class(cl);
        }
        log.class(format!("committed:{}", (stats.committed / 10) * 10));
        if stats.rejected > 0 {
            log.class("has-rejected-op");
        }
        if nontrivial {
            log.nontrivial();
        }
    });
    log.finish()
}

fn replicated(rt: &tokio::runtime::Runtime, c: &RCase) -> Outcome {
    let mut log = CaseLog::new();
    rt.block_on(async {
        let mut cl = Cluster::new(2).await;
        let first = gi::read_all(&cl.nodes[0]).await;
        let ref_attrs = gi::ref_attrs_of_node(&cl.nodes[0], &first).await;
        let mut applied = 0;
        let mut deletes = 0;
        for (i, s) in c.steps.iter().enumerate() {
            gi::untie_clocks(&mut cl);
            let r = cl.step(s).await;
            let node = match (s, &r) {
                (Step::Do { r: n, op }, StepResult::Op(Ok(()))) => {
                    if matches!(op, Op::Delete { .. }) {
                        deletes += 1;
                    }
                    Some(*n as usize % 2)
                }
                (Step::Repl { to, .. }, StepResult::Repl(ReplResult::Applied)) => {
                    applied += 1;
                    Some(*to as usize % 2)
                }
                (Step::Refresh { to, .. }, StepResult::Refresh(Ok(()))) => Some(*to as usize % 2),
                _ => None,
            };
            if let Some(n) = node {
                let entries = gi::read_all(&cl.nodes[n]).await;
                scan(&entries, &ref_attrs, &|| format!("replica {n} after step {i} {s:?} -> {r:?}"), &mut log);
                if entries.iter().any(|e| status_of(e) == Status::Conflict) {
                    log.class("replica-has-conflict-entry");
                }
                if log.failed() {
                    break;
                }
            }
        }
        if applied > 0 {
            log.class("replicated-change-applied");
            if deletes > 0 {
                log.nontrivial();
                log.class("replicated-with-deletes");
            }
        }
    });
    log.finish()
}

fn main() {
    let cx = Check::from_args("C16", "exploration");
    cx.rule(
        "random op histories (population prefix + member add/remove/set incl. missing targets, entry managers, OAuth2 clients with scope maps, deletes, revives, purge_recycled/purge_tombstones with clock steps around the retention window) on a real in-memory server; \
         after EVERY op every live entry is scanned: each uuid in the on-disk encoding of an attribute of syntax ReferenceUuid/OauthScopeMap/OauthClaimMap (read from the loaded schema's attribute table, not from the plugin's reference cache) must be the uuid of a live entry; rejected ops must leave the dump unchanged. \
         second sub-check: 2 replicas with random incremental replication, scanned after every applied change. \
         non-trivial = a live entry was deleted while at least one other generated live entry referenced it through member / entry_managed_by / scope map (class for >= 2 holders) (replicated: a change set was applied in a history with deletes); distinct by hash of the history",
    );
    cx.assume("references held by recycled/tombstone/conflict entries are outside the property (only live holders are scanned)");
    let w = weights();
    let n = cx.tier.pick(360, 10_000);
    let len = cx.tier.pick(20..60usize, 30..140usize);
    cx.prop(
        "single-server-histories",
        PropCfg::new(n).shrink(300),
        || ops::arb_history(&w, len.clone()).prop_map(|ops| Case { ops }),
        srv::runtime,
        |rt, c| single(rt, c),
    );
    let n2 = cx.tier.pick(120, 3_000);
    let len2 = cx.tier.pick(10..40usize, 20..90usize);
    cx.prop(
        "two-replica-histories",
        PropCfg::new(n2).shrink(200),
        || ops::arb_steps(&w, 2, len2.clone(), 3, 0).prop_map(|steps| RCase { steps }),
        srv::runtime,
        |rt, c| replicated(rt, c),
    );
    // Dense "delete raced a local reference" scenarios: replica 0 deletes the target and may push it
    // through the recycle bin to a tombstone BEFORE replicating, while replica 1 meanwhile added its own
    // reference to the target. Uniform histories almost never line these steps up (a seeded refint
    // change that only mishandled the live -> tombstone jump went unnoticed before this sub-check).
    let n3 = cx.tier.pick(120, 3_000);
    cx.prop(
        "delete-vs-local-reference",
        PropCfg::new(n3).shrink(200),
        || {
            use vf_world::ops::Ref;
            let target = prop_oneof![Just(Ref::P(0)), Just(Ref::G(1)), Just(Ref::S(0))];
            let local_ref = prop_oneof![
                3 => Just(0u8), // member of a group
                2 => Just(1u8), // entry manager
                1 => Just(2u8), // oauth2 scope map (group targets only)
            ];
            (target, local_ref, 0u8..4, any::<bool>(), any::<bool>(), proptest::collection::vec(0u8..6, 0..4)).prop_map(|(t, kind, purge, late_ref, back, noise)| {
                let mut s = vec![
                    Step::Do { r: 0, op: Op::CreatePerson { i: 0, name: 0 } },
                    Step::Do { r: 0, op: Op::CreatePerson { i: 1, name: 1 } },
                    Step::Do { r: 0, op: Op::CreateService { i: 0, name: 2 } },
                    Step::Do { r: 0, op: Op::CreateGroup { i: 0, name: 3, members: vec![] } },
                    Step::Do { r: 0, op: Op::CreateGroup { i: 1, name: 4, members: vec![] } },
                    Step::Do { r: 0, op: Op::CreateOAuth2 { i: 0, name: 5, group: Ref::G(0) } },
                    Step::Repl { from: 0, to: 1 },
                ];
                let reference = match (kind, t) {
                    (2, Ref::G(_)) => Op::SetScopeMap { o: 0, group: t },
                    (1, _) => Op::SetManager { t: Ref::P(1), by: t },
                    _ => Op::AddMember { g: Ref::G(0), m: t },
                };
                if !late_ref {
                    s.push(Step::Do { r: 1, op: reference.clone() });
                }
                s.push(Step::Do { r: 0, op: Op::Delete { t } });
                // 0: replicate while recycled; 1..3: age past the recycle bin (and the changelog) first
                if purge >= 1 {
                    s.push(Step::Do { r: 0, op: Op::Advance { secs: 7 * 86_400 + 2 } });
                    s.push(Step::Do { r: 0, op: Op::PurgeRecycled });
                }
                if purge >= 3 {
                    s.push(Step::Do { r: 0, op: Op::Advance { secs: 3600 } });
                    s.push(Step::Do { r: 0, op: Op::PurgeTombstones });
                }
                if late_ref {
                    s.push(Step::Do { r: 1, op: reference });
                }
                for n in noise {
                    s.push(Step::Do { r: (n % 2), op: Op::SetAttr { t: Ref::P(1), attr: vf_world::ops::AttrK::Description, vals: vec![n % 4] } });
                }
                s.push(Step::Repl { from: 0, to: 1 });
                if back {
                    s.push(Step::Repl { from: 1, to: 0 });
                    s.push(Step::Repl { from: 0, to: 1 });
                }
                RCase { steps: s }
            })
        },
        srv::runtime,
        |rt, c| replicated(rt, c),
    );
    cx.require_class("delete-of-referenced-entry", 80);
    cx.require_class("delete-of-entry-referenced-by>=2", 10);
    cx.require_class("refused:ref-to-absent", 30);
    cx.require_class("refused:ref-to-recycled", 10);
    cx.require_class("refused:mixed-live-and-recycled-refs", 5);
    cx.require_class("revive-of-recycled", 20);
    cx.require_class("replicated-change-applied", 20);
    cx.finish();
}
