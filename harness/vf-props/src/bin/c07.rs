//! C07 — Change identifiers strictly increase.
//!
//! Histories of write transactions (commit / commit-without-change / drop / failing op then drop)
//! at start times drawn from a grid with repeats, 1 ns steps and regressions far into the past,
//! interleaved with restarts on the same database file (new Backend + QueryServer seeded with an
//! arbitrary, possibly much earlier, clock) and backup -> restore. Oracle (written from the property
//! text): the identifier every write transaction is stamped with, and the identifier stored on the
//! marker entry by every committed transaction, is strictly greater (Cid order: time, then server
//! uuid) than the identifier of every transaction the server committed before. Plus the pure
//! constructor `Cid::new_lamport` on random / extreme durations.
use kanidmd_lib::modify::{Modify, ModifyList};
use kanidmd_lib::prelude::*;
use kanidmd_lib::value::{PartialValue, Value};
use kanidmd_lib::verif_hooks::export::State;
use kanidmd_lib::verif_hooks::{fault as hfault, repl as hrepl};
use proptest::prelude::*;
use serde::{Deserialize, Serialize};
use std::time::Duration;
use vf_core::{CaseLog, Check, Outcome, PropCfg};
use vf_world::g_fault::{self, Scratch, Template};
use vf_world::pop::{self, Kind};
use vf_world::srv::{self, T0_SECS};

// ---------------------------------------------------------------------------------------------
// case language

#[derive(Debug, Clone, Copy, PartialEq, Eq, Serialize, Deserialize)]
enum TxK {
    /// change the marker entry, commit
    Commit,
    /// commit without changing anything
    CommitEmpty,
    /// change the marker entry, drop the transaction
    Drop,
    /// an ill-typed modify fails, transaction dropped
    OpErrDrop,
}

#[derive(Debug, Clone, Copy, PartialEq, Eq, Serialize, Deserialize)]
enum Ev {
    Txn { t: u8, k: TxK },
    /// drop the server, start a new one on the same file with clock grid[t]
    Restart { t: u8 },
    /// take a backup (single slot)
    Backup,
    /// restore the slot into a new database and start a server on it with clock grid[t]
    Restore { t: u8 },
}

#[derive(Debug, Clone, Serialize, Deserialize)]
struct Case {
    evs: Vec<Ev>,
}

/// Time grid (seconds, nanos) — the template database is initialised at T0 and T0+1 s.
const GRID: [(u64, u32); 8] = [
    (T0_SECS - 10_000_000, 0), // far in the past (before the database was created)
    (T0_SECS, 0),              // the very time of initialisation
    (T0_SECS + 100, 0),
    (T0_SECS + 100, 1),
    (T0_SECS + 100, 2),
    (T0_SECS + 99, 999_999_999),
    (T0_SECS + 3600, 0),
    (T0_SECS + 90_000_000, 5), // far future
];

fn grid(t: u8) -> Duration {
    let (s, n) = GRID[t as usize % GRID.len()];
    Duration::new(s, n)
}

fn marker_uuid() -> Uuid {
    pop::uuid_of(Kind::Other, 7)
}

// ---------------------------------------------------------------------------------------------
// interpreter + oracle

struct World {
    scratch: Scratch,
    qs: Option<QueryServer>,
    file: std::path::PathBuf,
    gen: u32,
    /// greatest identifier of any transaction known to be committed on this server
    max_committed: Cid,
    backup: Option<(Vec<u8>, Cid)>,
}

fn read_marker_cid(rt: &tokio::runtime::Runtime, qs: &QueryServer) -> (Cid, Vec<Cid>) {
    rt.block_on(async {
        let mut r = qs.read().await.expect("read");
        let e = r.internal_search_uuid(marker_uuid()).expect("marker");
        let c = match e.get_changestate().current() {
            State::Live { changes, at } => changes.get(&Attribute::Description).cloned().unwrap_or_else(|| at.clone()),
            State::Tombstone { .. } => panic!("marker is a tombstone"),
        };
        // every identifier present anywhere in the database
        let mut all = hrepl::ruv_cids(&mut r);
        for e in vf_world::dump::all_entries(&mut r).expect("entries") {
            match e.get_changestate().current() {
                State::Live { at, changes } => {
                    all.push(at.clone());
                    all.extend(changes.values().cloned());
                }
                State::Tombstone { at } => all.push(at.clone()),
            }
        }
        (c, all)
    })
}

fn run_case(cx: &Check, st: &mut (tokio::runtime::Runtime, Template), c: &Case) -> Outcome {
    let (rt, tpl) = st;
    let mut log = CaseLog::new();
    let scratch = Scratch::new();
    let file = scratch.file("c07.db");
    tpl.instantiate(&file);
    // The server the template was copied from committed its last transaction at T0+1 s; read the
    // real maximum from the copy through a first start at the time of initialisation.
    let qs = rt.block_on(g_fault::open_qs(Some(&file), 2, srv::t0())).expect("open copy");
    let (m0, all0) = read_marker_cid(rt, &qs);
    let s_uuid = m0.s_uuid;
    let max0 = all0.iter().filter(|c| c.s_uuid == s_uuid).max().cloned().unwrap_or(m0);
    let mut w = World {
        scratch,
        qs: Some(qs),
        file,
        gen: 0,
        max_committed: max0,
        backup: None,
    };
    let mut commits = 0u32;
    let mut nontrivial = false;
    let mut restarted_since_commit = false;
    let mut aborted_since_commit = false;

    for (i, ev) in c.evs.iter().enumerate() {
        match *ev {
            Ev::Txn { t, k } => {
                let ct = grid(t);
                let qs = w.qs.as_ref().expect("server");
                let regress = ct <= w.max_committed.ts;
                let repeat = ct == w.max_committed.ts;
                let res: Result<(Cid, bool), String> = rt.block_on(async {
                    let mut wr = qs.write(ct).await.map_err(|e| format!("write: {e:?}"))?;
                    let stamp = hrepl::txn_cid(&wr);
                    let filt = Filter::new_ignore_hidden(f_eq(Attribute::Uuid, PartialValue::Uuid(marker_uuid())));
                    match k {
                        TxK::Commit => {
                            let ml = ModifyList::new_list(vec![
                                Modify::Purged(Attribute::Description),
                                Modify::Present(Attribute::Description, Value::new_utf8s(&format!("e{i}"))),
                            ]);
                            wr.internal_modify(&filt, &ml).map_err(|e| format!("modify: {e:?}"))?;
                            wr.commit().map_err(|e| format!("commit: {e:?}"))?;
                            Ok((stamp, true))
                        }
                        TxK::CommitEmpty => {
                            wr.commit().map_err(|e| format!("commit: {e:?}"))?;
                            Ok((stamp, true))
                        }
                        TxK::Drop => {
                            let ml = ModifyList::new_list(vec![
                                Modify::Purged(Attribute::Description),
                                Modify::Present(Attribute::Description, Value::new_utf8s(&format!("dropped{i}"))),
                            ]);
                            wr.internal_modify(&filt, &ml).map_err(|e| format!("modify: {e:?}"))?;
                            drop(wr);
                            Ok((stamp, false))
                        }
                        TxK::OpErrDrop => {
                            let ml = ModifyList::new_list(vec![
                                Modify::Present(Attribute::Name, Value::new_iname("one")),
                                Modify::Present(Attribute::Name, Value::new_iname("two")),
                            ]);
                            if wr.internal_modify(&filt, &ml).is_ok() {
                                return Err("ill-typed modify was accepted".to_string());
                            }
                            drop(wr);
                            Ok((stamp, false))
                        }
                    }
                });
                let (stamp, committed) = match res {
                    Ok(x) => x,
                    Err(e) => {
                        // a transaction that cannot even run is a harness problem, not a verdict
                        cx.inconclusive(&format!("harness: transaction could not run: event {i} {ev:?}: {e}"));
                        return Outcome::discard();
                    }
                };
                // (1) the stamp of EVERY write transaction exceeds everything committed before
                if stamp <= w.max_committed {
                    log.fail(
                        "transaction stamped with an identifier not greater than an earlier committed one",
                        format!(
                            "event {i} {ev:?} at ct={ct:?}: stamp {stamp:?} <= max committed {:?} (history {:?})",
                            w.max_committed, &c.evs[..=i]
                        ),
                    );
                    break;
                }
                if committed {
                    let mut this = stamp.clone();
                    if k == TxK::Commit {
                        // (2) the identifier stored by the committed transaction
                        let (stored, all) = read_marker_cid(rt, qs);
                        if stored <= w.max_committed {
                            log.fail(
                                "committed change stored with an identifier not greater than an earlier committed one",
                                format!(
                                    "event {i} {ev:?} at ct={ct:?}: stored {stored:?} <= max committed {:?} (history {:?})",
                                    w.max_committed, &c.evs[..=i]
                                ),
                            );
                            break;
                        }
                        // (3) nothing in the database (entries, RUV) of this server is ahead of it
                        if let Some(ahead) = all.iter().filter(|x| x.s_uuid == s_uuid && **x > stored).max() {
                            log.fail(
                                "database holds an identifier of this server greater than the latest committed one",
                                format!("event {i} {ev:?}: {ahead:?} > {stored:?}"),
                            );
                            break;
                        }
                        if stored != stamp {
                            log.class("stored-differs-from-stamp");
                        }
                        this = this.max(stored);
                    }
                    w.max_committed = this;
                    commits += 1;
                    if regress {
                        log.class(if repeat { "commit-at-repeated-time" } else { "commit-at-earlier-time" });
                        if commits >= 2 {
                            nontrivial = true;
                        }
                        if restarted_since_commit {
                            log.class("restart-then-commit-at-earlier-time");
                        }
                        if aborted_since_commit {
                            log.class("abort-then-commit-at-earlier-time");
                        }
                    } else {
                        log.class("commit-at-later-time");
                    }
                    restarted_since_commit = false;
                    aborted_since_commit = false;
                } else {
                    aborted_since_commit = true;
                    log.class("aborted-txn");
                }
            }
            Ev::Restart { t } => {
                w.qs = None; // all connections closed
                let ct = grid(t);
                match rt.block_on(g_fault::open_qs(Some(&w.file), 2, ct)) {
                    Ok(qs) => w.qs = Some(qs),
                    Err(e) => {
                        cx.inconclusive(&format!("harness: restart failed: event {i} {ev:?}: {e:?}"));
                        return Outcome::discard();
                    }
                }
                restarted_since_commit = true;
                log.class(if ct <= w.max_committed.ts { "restart-with-earlier-clock" } else { "restart-with-later-clock" });
            }
            Ev::Backup => {
                let qs = w.qs.as_ref().expect("server");
                let bytes = rt.block_on(async {
                    let mut r = qs.read().await.expect("read");
                    hfault::backup_bytes(&mut r)
                });
                match bytes {
                    Ok(b) => w.backup = Some((b, w.max_committed.clone())),
                    Err(e) => {
                        cx.inconclusive(&format!("harness: backup failed: event {i}: {e:?}"));
                        return Outcome::discard();
                    }
                }
            }
            Ev::Restore { t } => {
                let Some((bytes, max_then)) = w.backup.clone() else {
                    continue;
                };
                w.qs = None;
                w.gen += 1;
                w.file = w.scratch.file(&format!("c07-r{}.db", w.gen));
                let ct = grid(t);
                match rt.block_on(g_fault::restore_qs(Some(&w.file), 2, &bytes, ct)) {
                    Ok(qs) => w.qs = Some(qs),
                    Err(e) => {
                        cx.inconclusive(&format!("harness: restore failed: event {i} {ev:?}: {e:?}"));
                        return Outcome::discard();
                    }
                }
                // the restored server is the server as of the backup: transactions committed after
                // the backup are gone, so the reference maximum goes back to the one at backup time
                if max_then < w.max_committed {
                    log.class("restore-of-older-backup");
                }
                w.max_committed = max_then;
                restarted_since_commit = true;
                log.class("restore");
            }
        }
    }
    if nontrivial {
        log.nontrivial();
    }
    log.class(format!("commits:{}", commits.min(8)));
    drop(w);
    log.finish()
}

// ---------------------------------------------------------------------------------------------
// generators

fn arb_ev() -> impl Strategy<Value = Ev> {
    let t = 0u8..GRID.len() as u8;
    prop_oneof![
        10 => (t.clone(), prop_oneof![5 => Just(TxK::Commit), 1 => Just(TxK::CommitEmpty), 2 => Just(TxK::Drop), 1 => Just(TxK::OpErrDrop)])
            .prop_map(|(t, k)| Ev::Txn { t, k }),
        3 => t.clone().prop_map(|t| Ev::Restart { t }),
        1 => Just(Ev::Backup),
        1 => t.prop_map(|t| Ev::Restore { t }),
    ]
}

/// Bounded-exhaustive space: all histories of length 1..=3 over 10 symbols, each followed by a
/// commit at the repeated "present" time so that every prefix effect is observed.
const EX_T: [u8; 4] = [0, 2, 3, 6];
fn ex_symbol(i: u64) -> Ev {
    match i {
        0..=3 => Ev::Txn { t: EX_T[i as usize], k: TxK::Commit },
        4..=7 => Ev::Txn { t: EX_T[(i - 4) as usize], k: TxK::Drop },
        8 => Ev::Restart { t: 0 },
        _ => Ev::Restart { t: 6 },
    }
}
fn ex_case(mut i: u64) -> Case {
    // lengths 1,2,3 laid out consecutively
    let mut len = 1;
    let mut span = 10u64;
    while i >= span {
        i -= span;
        len += 1;
        span *= 10;
    }
    let mut evs = Vec::new();
    for _ in 0..len {
        evs.push(ex_symbol(i % 10));
        i /= 10;
    }
    evs.push(Ev::Txn { t: 2, k: TxK::Commit });
    Case { evs }
}

// ---------------------------------------------------------------------------------------------
// pure constructor

#[derive(Debug, Clone, Serialize, Deserialize)]
struct Pure {
    ts: (u64, u32),
    max: (u64, u32),
}

fn arb_dur() -> impl Strategy<Value = (u64, u32)> {
    let secs = prop_oneof![
        Just(0u64),
        Just(1u64),
        Just(T0_SECS),
        Just(T0_SECS + 1),
        Just(u64::MAX - 1),
        Just(u64::MAX),
        0u64..4,
        any::<u64>(),
    ];
    let nanos = prop_oneof![Just(0u32), Just(1u32), Just(999_999_998u32), Just(999_999_999u32), 0u32..1_000_000_000];
    (secs, nanos)
}

fn pure_case(p: &Pure) -> Outcome {
    let ts = Duration::new(p.ts.0, p.ts.1);
    let max = Duration::new(p.max.0, p.max.1);
    let s = Uuid::from_u128(0x5151);
    let r = std::panic::catch_unwind(|| Cid::new_lamport(s, ts, &max));
    let class = if ts > max {
        "ts>max"
    } else if ts == max {
        "ts==max"
    } else {
        "ts<max"
    };
    match r {
        Ok(cid) => {
            if cid.s_uuid != s {
                return Outcome::fail("new_lamport changed the server uuid", format!("{p:?} -> {cid:?}"));
            }
            if cid.ts <= max {
                return Outcome::fail(
                    "new_lamport result not greater than the known maximum",
                    format!("ts={ts:?} max={max:?} -> {:?}", cid.ts),
                );
            }
            Outcome::pass(ts <= max).class(class)
        }
        Err(_) => {
            if max == Duration::MAX && ts <= max {
                // no greater identifier exists; refusing loudly is the only sound behaviour
                Outcome::pass(false).class("max-saturated-panics")
            } else {
                Outcome::fail("new_lamport panicked although a greater identifier exists", format!("ts={ts:?} max={max:?}"))
            }
        }
    }
}

fn main() {
    let cx = Check::from_args("C07", "exploration");
    g_fault::sweep_stale_scratch();
    cx.rule(
        "histories of write transactions (commit / empty commit / drop / failing op then drop) whose start times come from an 8-point grid \
         (far past, the initialisation instant, t, t+1ns, t+2ns, t-1ns, +1h, far future), interleaved with restarts on the same SQLite file \
         (new Backend+QueryServer seeded with any grid time) and backup->restore into a new file; every case starts from a byte-identical copy \
         of one initialised file-backed database. Checked per transaction: its stamp, and the identifier stored on the marker entry, exceed \
         every identifier committed before; nothing in entries/RUV of this server is ahead of the latest commit. \
         non-trivial = >=2 commits and a commit whose start time is <= the greatest committed time so far; distinct by hash of the history. \
         Sub-check exhaustive-short enumerates all histories of length 1..2 (quick) / 1..4 (thorough) over {commit,drop}x4 times + restart at far past/+1h (then a final commit); \
         sub-check new_lamport drives the pure constructor with random and extreme durations.",
    );
    cx.assume("restoring a backup resets the reference maximum to the one at backup time (transactions committed after the backup no longer exist on that server)");
    cx.assume("identifiers of transactions that change no entry (empty commits, start-up transactions) are observed through the transaction stamp / the database scan only");

    let init = || {
        let rt = srv::runtime();
        let tpl = Template::build(&rt, |w| w.internal_create(vec![pop::group(marker_uuid(), "c07marker", &[])]));
        (rt, tpl)
    };

    let total = cx.tier.pick(10 + 100, 10 + 100 + 1000 + 10_000);
    cx.enumerate("exhaustive-short", total, ex_case, init, |st, c| run_case(&cx, st, c));

    let n = cx.tier.pick(420, 20_000);
    let len = cx.tier.pick(3..11usize, 5..41usize);
    cx.prop(
        "histories",
        PropCfg::new(n).shrink(200),
        || proptest::collection::vec(arb_ev(), len.clone()).prop_map(|evs| Case { evs }),
        init,
        |st, c| run_case(&cx, st, c),
    );

    let np = cx.tier.pick(200_000, 5_000_000);
    cx.prop(
        "new_lamport",
        PropCfg::new(np).shrink(200),
        || (arb_dur(), arb_dur()).prop_map(|(ts, max)| Pure { ts, max }),
        || (),
        |_, p| pure_case(p),
    );

    cx.require_class("restart-then-commit-at-earlier-time", 40);
    cx.require_class("abort-then-commit-at-earlier-time", 40);
    cx.require_class("commit-at-repeated-time", 50);
    cx.require_class("restore", 20);
    cx.require_class("ts==max", 100);
    cx.finish();
}
