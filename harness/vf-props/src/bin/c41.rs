//! C41 — LDAP and SCIM filters mean what their standards say.
//!
//! Generated LDAP filter trees go through the LDAP translation (`Filter::from_ldap_ro`, attribute
//! aliases included) and the ordinary search path (ignore-hidden wrapper, indexes); generated SCIM
//! filters go through `Filter::from_scim_ro` and the same steps `scim_search_filter_ext` performs (validate,
//! ignore-hidden wrapper, search). The
//! population has multi-valued attributes (class, mail, member). The server's answer must be an error (unsupported / limit) or
//! exactly the set an independent two-valued evaluator of the standard meaning selects.
use kanidmd_lib::prelude::*;
use kanidmd_lib::verif_hooks::ident;
use proptest::prelude::*;
use serde::{Deserialize, Serialize};
use std::collections::BTreeSet;
use vf_core::{Check, Outcome, PropCfg};
use vf_world::g_proto::pf::{self, PEntry, LF};
use vf_world::g_proto::scim::{self, Impl, KanidmProto, SF};
use vf_world::srv;

const SIG_ISO: &str = "isolated NOT in optimised filter tree";
const SIG_SUB: &str = "LDAP substring components are matched independently (across values, overlapping or out of order)";
const SIG_SCIM_TEXT_ORD: &str = "SCIM ordering comparison on a text attribute is neither rejected nor lexicographic";
const SIG_SCIM_ALL: &str = "SCIM gt/ge on a multi-valued attribute requires all values to be greater";

#[derive(Debug, Clone, Serialize, Deserialize)]
struct LCase {
    f: LF,
}
#[derive(Debug, Clone, Serialize, Deserialize)]
struct SCase {
    f: SF,
}

struct World {
    rt: tokio::runtime::Runtime,
    qs: QueryServer,
    pop: Vec<PEntry>,
}

fn world() -> World {
    let rt = srv::runtime();
    let qs = rt.block_on(pf::build_server());
    World { rt, qs, pop: pf::population() }
}

fn names(w: &World, s: &BTreeSet<Uuid>) -> Vec<String> {
    w.pop.iter().filter(|p| s.contains(&p.uuid)).map(|p| p.attrs["name"][0].clone()).collect()
}

fn size_class(prefix: &str, want: &BTreeSet<Uuid>, n: usize) -> String {
    if want.is_empty() {
        format!("{prefix}:matches-nothing")
    } else if want.len() == n {
        format!("{prefix}:matches-everything")
    } else {
        format!("{prefix}:matches-some")
    }
}

fn err_class(e: &OperationError) -> String {
    format!("{e:?}").split('(').next().unwrap_or("").to_string()
}

fn ldap_case(w: &World, c: &LCase) -> Outcome {
    let mut labels = BTreeSet::new();
    c.f.labels(&mut labels);
    let iso = c.f.has_isolated_not();
    if iso {
        labels.insert("ldap:has-isolated-not".into());
    }
    let res: Result<BTreeSet<Uuid>, OperationError> = w.rt.block_on(async {
        let mut r = w.qs.read().await?;
        let id = ident::internal();
        let lf = c.f.to_ldap();
        let f = Filter::from_ldap_ro(&id, &lf, &mut r)?;
        let fv = f.validate(r.get_schema()).map_err(OperationError::SchemaViolation)?;
        let se = SearchEvent { ident: id, filter: fv.clone().into_ignore_hidden(), filter_orig: fv, attrs: None, effective_access_check: false };
        let ents = r.search(&se)?;
        Ok(ents.iter().map(|e| e.get_uuid()).collect())
    });
    let got_all = match res {
        Ok(g) => g,
        Err(e) => {
            // an explicit refusal is one of the two permitted answers
            return Outcome::pass(false).classes(labels).class("ldap:rejected").class(format!("ldap:rejected:{}", err_class(&e)));
        }
    };
    let mut want = BTreeSet::new();
    for p in &w.pop {
        match pf::eval_ldap(&c.f, p) {
            Some(true) => {
                want.insert(p.uuid);
            }
            Some(false) => {}
            None => return Outcome::pass(false).classes(labels).class("ldap:accepted-outside-reference-model"),
        }
    }
    let popset: BTreeSet<Uuid> = w.pop.iter().map(|p| p.uuid).collect();
    let got: BTreeSet<Uuid> = got_all.intersection(&popset).copied().collect();
    if got != want {
        let missing: BTreeSet<Uuid> = want.difference(&got).copied().collect();
        let extra: BTreeSet<Uuid> = got.difference(&want).copied().collect();
        // attribute the difference to a known finding only if a model of exactly that defect predicts the server's answer
        let model = |iso: bool, sub: bool| -> BTreeSet<Uuid> { w.pop.iter().filter(|p| pf::eval_ldap_defect_model(&c.f, p, iso, sub) == Some(true)).map(|p| p.uuid).collect() };
        let multi = c.f.has_multi_component_substring();
        // isolated NOT: the index path treats such a NOT as "no entry" when it builds candidates, the final per-entry
        // test (run when the candidate set is only partial) uses the true meaning. So the answer is either exactly the
        // defect model, or a subset of the standard answer that still contains everything both agree on.
        let base = model(false, multi);
        let m = model(true, multi);
        // some assignment "treated as no entry / as complement" to the candidate NOTs reproduces the answer exactly
        let k = pf::ldap_iso_candidates(&c.f, multi);
        let by_assignment = k > 0
            && k <= 10
            && (0u32..(1u32 << k)).any(|bits| {
                let r: BTreeSet<Uuid> = w.pop.iter().filter(|p| pf::eval_ldap_assign(&c.f, p, multi, bits) == Some(true)).map(|p| p.uuid).collect();
                r == got
            });
        let iso_explains = iso && (got == m || by_assignment || (got.is_subset(&base) && m.intersection(&base).all(|u| got.contains(u))));
        let sig = if (got == base || iso_explains) && multi && base != want {
            SIG_SUB
        } else if iso_explains {
            SIG_ISO
        } else {
            "LDAP filter selects a different set than its RFC 4511 meaning"
        };
        return Outcome::fail(
            sig,
            format!("filter {}\n server {:?}\n standard {:?}\n missing {:?} extra {:?}", c.f.render(), names(w, &got), names(w, &want), names(w, &missing), names(w, &extra)),
        );
    }
    let nontrivial = !want.is_empty() && want.len() < w.pop.len();
    Outcome::pass(nontrivial).classes(labels).class("ldap:accepted").class(size_class("ldap", &want, w.pop.len()))
}

fn scim_case(w: &World, c: &SCase) -> Outcome {
    let mut labels = BTreeSet::new();
    scim::labels(&c.f, &mut labels);
    let labels: BTreeSet<String> = labels.into_iter().map(|l| format!("scim:{l}")).collect();
    let iso = pf::scim_has_isolated_not(&c.f);
    let (text_ord, multi_gt) = pf::scim_ordering_features(&c.f);
    let filter = KanidmProto::build(&c.f);
    let res: Result<BTreeSet<Uuid>, OperationError> = w.rt.block_on(async {
        // the steps of scim_search_ext / scim_search_filter_ext (translate, validate, ignore-hidden, search) without
        // the external-interface attribute reduction, which refuses the internal identity
        let mut r = w.qs.read().await?;
        let id = ident::internal();
        let f = Filter::from_scim_ro(&id, &filter, &mut r)?;
        let fv = f.validate(r.get_schema()).map_err(OperationError::SchemaViolation)?;
        let se = SearchEvent { ident: id, filter: fv.clone().into_ignore_hidden(), filter_orig: fv, attrs: None, effective_access_check: false };
        let ents = r.search(&se)?;
        Ok(ents.iter().map(|e| e.get_uuid()).collect())
    });
    let got_all = match res {
        Ok(g) => g,
        Err(e) => return Outcome::pass(false).classes(labels).class("scim:rejected").class(format!("scim:rejected:{}", err_class(&e))),
    };
    let mut want = BTreeSet::new();
    for p in &w.pop {
        match pf::eval_scim(&c.f, p) {
            Some(true) => {
                want.insert(p.uuid);
            }
            Some(false) => {}
            None => return Outcome::pass(false).classes(labels).class("scim:accepted-outside-reference-model"),
        }
    }
    let popset: BTreeSet<Uuid> = w.pop.iter().map(|p| p.uuid).collect();
    let got: BTreeSet<Uuid> = got_all.intersection(&popset).copied().collect();
    if got != want {
        let missing: BTreeSet<Uuid> = want.difference(&got).copied().collect();
        let extra: BTreeSet<Uuid> = got.difference(&want).copied().collect();
        let model = |iso: bool, rw: bool| -> BTreeSet<Uuid> { w.pop.iter().filter(|p| pf::eval_scim_defect_model(&c.f, p, iso, rw) == Some(true)).map(|p| p.uuid).collect() };
        // Attribution to known findings (see the LDAP case for the isolated-NOT interval rule). `base` is the
        // standard answer with the ordering rewrites applied when the filter has such an operator.
        let rw = text_ord || multi_gt;
        let base = model(false, rw);
        let m = model(true, rw);
        let k = pf::scim_iso_candidates(&c.f);
        let by_assignment = k > 0
            && k <= 10
            && (0u32..(1u32 << k)).any(|bits| {
                let r: BTreeSet<Uuid> = w.pop.iter().filter(|p| pf::eval_scim_assign(&c.f, p, rw, bits) == Some(true)).map(|p| p.uuid).collect();
                r == got
            });
        let iso_explains = iso && (got == m || by_assignment || (got.is_subset(&base) && m.intersection(&base).all(|u| got.contains(u))));
        let sig = if (got == base || iso_explains) && rw && base != want {
            if text_ord {
                SIG_SCIM_TEXT_ORD
            } else {
                SIG_SCIM_ALL
            }
        } else if iso_explains {
            SIG_ISO
        } else {
            "SCIM filter selects a different set than its RFC 7644 meaning"
        };
        return Outcome::fail(
            sig,
            format!(
                "filter {}\n server {:?}\n standard {:?}\n missing {:?} extra {:?}",
                KanidmProto::print(&KanidmProto::build(&c.f)),
                names(w, &got),
                names(w, &want),
                names(w, &missing),
                names(w, &extra)
            ),
        );
    }
    let nontrivial = !want.is_empty() && want.len() < w.pop.len();
    Outcome::pass(nontrivial)
        .classes(labels)
        .class("scim:accepted")
        .class(size_class("scim", &want, w.pop.len()))
        .class_if(iso, "scim:has-isolated-not")
        .class_if(text_ord, "scim:ordering-on-text")
        .class_if(multi_gt, "scim:gt-ge-on-multivalued")
}

fn main() {
    let cx = Check::from_args("C41", "exploration");
    cx.rule(
        "population of 9 entries (persons, posix persons, groups) with single- and multi-valued text (name, displayname, description, class), mail, member, gidnumber and uuid \
         (shipped attributes only: at the target domain level the schema is compiled in, custom attributes cannot be added). LDAP: random filter trees (and/or/not, equality with attribute aliases and case \
         variants, presence, substrings with initial/any/final, >=, <=, ~=, unknown attributes, malformed values), depth<=4, through Filter::from_ldap_ro + the ordinary search path. \
         SCIM: random filters (all operators, not, and/or, unsupported forms) through Filter::from_scim_ro + the search path of scim_search_filter_ext. Oracle: server answer is an error or equals the set selected by the harness's \
         two-valued evaluator of the RFC 4511 / RFC 7644 meaning (NOT = complement, any value of a multi-valued attribute, substring components in order on one value). \
         non-trivial = accepted filter selecting a proper non-empty subset; distinct by hash of the filter",
    );
    cx.assume("per-attribute matching rules are the documented kanidm syntaxes (names case-insensitive, free text exact for equality and case-insensitive for substrings)");
    cx.assume("searches run as the internal identity so that access control does not shape the result (C40 covers access through the LDAP gateway)");
    cx.assume("a difference is attributed to the isolated-NOT finding only when a model of exactly that defect (such a NOT selects nothing) predicts the server's answer; other known shapes only when the direction of the difference fits");
    let n = cx.tier.pick(30_000, 600_000);
    cx.prop("ldap-filters", PropCfg::new(n).shrink(400), || pf::arb_ldap(4).prop_map(|f| LCase { f }), world, |w, c| ldap_case(w, c));
    cx.prop("scim-filters", PropCfg::new(n).shrink(400), || pf::arb_scim(4).prop_map(|f| SCase { f }), world, |w, c| scim_case(w, c));
    for (c, floor) in [
        ("ldap:accepted", 2000),
        ("ldap:matches-some", 800),
        ("ldap:not", 800),
        ("ldap:substring", 500),
        ("ldap:attribute-alias", 500),
        ("ldap:rejected", 100),
        ("scim:accepted", 1500),
        ("scim:matches-some", 500),
        ("scim:not", 500),
        ("scim:rejected", 100),
    ] {
        cx.require_class(c, floor);
    }
    cx.finish();
}
