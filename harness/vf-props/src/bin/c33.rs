//! C33 — Write privilege is bounded in time and by login type.
//!
//! One fresh `IdmServer` per case: a generated account policy (privilege expiry, session expiry on
//! a policy group of the person), one login of a generated type, then a generated sequence of
//! clock steps and re-authentications (privilege requested or only credential verification). After
//! every event every token obtained so far is used and the `AccessScope` of the resulting identity
//! is compared with a model written from the property text:
//!  * always read-only: anonymous, LDAP password bind, read-only API token, ordinary login before
//!    any re-authentication, a re-authentication that did not ask for privileges;
//!  * read-write is possible only inside [t_auth, t_auth + window] of the privileged login or of the
//!    privilege-granting re-authentication that produced THAT token (window: strictest
//!    privilege_expiry of the account's stored policy groups, at most one hour; for a privileged
//!    login the strictest of one hour and the session expiry);
//!  * re-authentication never changes the session expiry (token claim and stored session record).
//! Read-write API tokens are exempt (floor: they do give read-write).
use kanidm_proto::internal::UserAuthToken;
use kanidmd_lib::constants::*;
use kanidmd_lib::idm::event::{GeneratePasswordEvent, LdapAuthEvent};
use kanidmd_lib::idm::server::IdmServerTransaction;
use kanidmd_lib::modify::Modify;
use kanidmd_lib::prelude::*;
use kanidmd_lib::value::Value;
use kanidmd_lib::verif_hooks::ident;
use kanidmd_lib::verif_hooks::session as hk;
use proptest::prelude::*;
use serde::{Deserialize, Serialize};
use vf_core::{pick_idx, CaseLog, Check, Outcome, PropCfg};
use vf_world::g_session::{self as gs, Login, Mech, World};
use vf_world::pop;
use vf_world::srv::{self, ct};

#[derive(Debug, Clone, Copy, PartialEq, Eq, Serialize, Deserialize)]
enum LoginType {
    Anonymous,
    Password { privileged: bool },
    PasswordTotp { privileged: bool },
    /// service account with a generated password (always a time-limited read-write session)
    GeneratedPassword { privileged: bool },
    LdapBind,
    /// person whose credential is a trust to an upstream OAuth2 provider (harness plays the provider)
    OAuth2Trust { privileged: bool },
    ApiRo { compact: bool },
    ApiRw { compact: bool },
}

#[derive(Debug, Clone, Copy, PartialEq, Eq, Serialize, Deserialize)]
enum Adv {
    Secs(u16),
    /// relative to the effective privilege window: window + d
    PrivWindow(i8),
    /// relative to one hour
    Hour(i8),
    /// relative to the session length
    Session(i8),
}

#[derive(Debug, Clone, PartialEq, Eq, Serialize, Deserialize)]
enum Ev {
    Advance(Adv),
    Reauth { grant: bool, k: u16 },
}

#[derive(Debug, Clone, Serialize, Deserialize)]
struct Case {
    priv_expiry: Option<u32>,
    session_expiry: Option<u32>,
    login: LoginType,
    evs: Vec<Ev>,
}

const EXPIRIES: [u32; 9] = [1, 2, 30, 60, 599, 600, 601, 3600, 7200];
const SESSIONS: [u32; 7] = [60, 600, 3599, 3600, 3601, 86400, 172800];

fn arb_login() -> impl Strategy<Value = LoginType> {
    prop_oneof![
        1 => Just(LoginType::Anonymous),
        5 => any::<bool>().prop_map(|privileged| LoginType::Password { privileged }),
        3 => any::<bool>().prop_map(|privileged| LoginType::PasswordTotp { privileged }),
        1 => any::<bool>().prop_map(|privileged| LoginType::GeneratedPassword { privileged }),
        1 => Just(LoginType::LdapBind),
        2 => any::<bool>().prop_map(|privileged| LoginType::OAuth2Trust { privileged }),
        1 => any::<bool>().prop_map(|compact| LoginType::ApiRo { compact }),
        1 => any::<bool>().prop_map(|compact| LoginType::ApiRw { compact }),
    ]
}

fn arb_adv() -> impl Strategy<Value = Adv> {
    prop_oneof![
        4 => prop_oneof![Just(1u16), Just(29), Just(59), Just(300), 2u16..4000].prop_map(Adv::Secs),
        5 => (-2i8..3).prop_map(Adv::PrivWindow),
        2 => (-2i8..3).prop_map(Adv::Hour),
        1 => (-2i8..3).prop_map(Adv::Session),
    ]
}

fn arb_ev() -> impl Strategy<Value = Ev> {
    prop_oneof![
        3 => arb_adv().prop_map(Ev::Advance),
        2 => (prop::bool::weighted(0.7), any::<u16>()).prop_map(|(grant, k)| Ev::Reauth { grant, k }),
    ]
}

fn arb_case(len: std::ops::Range<usize>) -> impl Strategy<Value = Case> {
    (
        prop::option::weighted(0.7, prop::sample::select(EXPIRIES.to_vec())),
        prop::option::weighted(0.5, prop::sample::select(SESSIONS.to_vec())),
        arb_login(),
        prop::collection::vec(arb_ev(), len),
    )
        .prop_map(|(priv_expiry, session_expiry, login, evs)| Case { priv_expiry, session_expiry, login, evs })
}

#[derive(Debug, Clone, Copy, PartialEq, Eq)]
enum Grant {
    /// can never be read-write
    Never,
    /// read-write allowed in [at, at+window]
    Window { at: u64, window: u64 },
    /// exempt (read-write API token)
    Exempt,
}

enum Bearer {
    Token(String),
    Ldap(kanidmd_lib::idm::ldap::LdapSession),
}

struct T {
    bearer: Bearer,
    grant: Grant,
    label: &'static str,
    /// session this UAT belongs to (for re-auth) and its expiry claim
    uat: Option<UserAuthToken>,
}

fn secs_of(t: time::OffsetDateTime) -> u64 {
    (t.unix_timestamp() as u64).saturating_sub(srv::T0_SECS)
}

const PERSON: &str = "vperson";
const SVC: &str = "vsvc";
const TRUST: &str = "vtrust";
const TRUST_SUB: &str = "upstream-subject-1";

/// strictest (minimum) value of a policy attribute over the account's stored policy groups
async fn strictest(w: &World, member: Uuid, attr: Attribute, default_max: u32) -> u32 {
    let e = match w.entry(member).await {
        Ok(e) => e,
        Err(_) => return default_max,
    };
    let mut out = default_max;
    let groups: Vec<Uuid> = e.get_ava_refer(Attribute::MemberOf).map(|s| s.iter().copied().collect()).unwrap_or_default();
    for g in groups {
        if let Ok(ge) = w.entry(g).await {
            if ge.attribute_equality(Attribute::Class, &EntryClass::AccountPolicy.to_partialvalue()) {
                if let Some(v) = ge.get_ava_single_uint32(attr.clone()) {
                    out = out.min(v);
                }
            }
        }
    }
    out
}

fn parse_uat(tok: &str) -> Option<UserAuthToken> {
    gs::token_parts(tok).and_then(|p| serde_json::from_slice::<UserAuthToken>(&p.payload).ok())
}

fn run(rt: &tokio::runtime::Runtime, c: &Case) -> Outcome {
    let mut log = CaseLog::new();
    rt.block_on(async {
        let mut w = World::new().await;
        let person = pop::person_uuid(0);
        let svc = pop::service_uuid(0);
        let polgrp = pop::group_uuid(0);
        let trust_person = pop::person_uuid(1);
        let totp = matches!(c.login, LoginType::PasswordTotp { .. });
        let mech = if totp { Mech::PasswordTotp } else { Mech::Password };
        let setup: Result<(), OperationError> = async {
            w.create_person(100, person, PERSON, Some(mech), gs::PW).await?;
            w.enable_posix(101, person, 70001, gs::UNIX_PW).await?;
            w.create_service(102, svc, SVC).await?;
            w.create_oauth2_trust_person(105, pop::uuid_of(pop::Kind::Other, 0x33), trust_person, TRUST, TRUST_SUB, pop::uuid_of(pop::Kind::Other, 0x34)).await?;
            w.modify(103, UUID_DOMAIN_INFO, vec![Modify::Purged(Attribute::LdapAllowUnixPwBind), Modify::Present(Attribute::LdapAllowUnixPwBind, Value::Bool(true))])
                .await?;
            let (pe, se) = (c.priv_expiry, c.session_expiry);
            w.write(110, move |t| {
                let mut g = pop::group(polgrp, "vpolicy", &[person, svc, trust_person]);
                g.add_ava(Attribute::Class, EntryClass::AccountPolicy.to_value());
                if let Some(v) = pe {
                    g.add_ava(Attribute::PrivilegeExpiry, Value::Uint32(v));
                }
                if let Some(v) = se {
                    g.add_ava(Attribute::AuthSessionExpiry, Value::Uint32(v));
                }
                t.qs_write.internal_create(vec![g])
            })
            .await
        }
        .await;
        if let Err(e) = setup {
            log.fail("harness: setup failed", format!("{e:?}"));
            return;
        }
        let subject = if matches!(c.login, LoginType::GeneratedPassword { .. } | LoginType::ApiRo { .. } | LoginType::ApiRw { .. }) {
            svc
        } else if matches!(c.login, LoginType::OAuth2Trust { .. }) {
            trust_person
        } else {
            person
        };
        // the model's windows, from the stored policy entries
        let priv_window = strictest(&w, subject, Attribute::PrivilegeExpiry, 3600).await.min(3600) as u64;
        let session_len = strictest(&w, subject, Attribute::AuthSessionExpiry, u32::MAX).await as u64;
        let login_window = session_len.min(3600);

        let mut now: u64 = 1000;
        let mut toks: Vec<T> = Vec::new();
        match c.login {
            LoginType::Anonymous => match w.login("anonymous", Mech::Anonymous, "", false, now).await {
                Login::Success(t) => toks.push(T { uat: parse_uat(&t), bearer: Bearer::Token(t), grant: Grant::Never, label: "anonymous" }),
                o => {
                    log.fail("harness: anonymous login failed", format!("{o:?}"));
                    return;
                }
            },
            LoginType::Password { privileged } | LoginType::PasswordTotp { privileged } => match w.login(PERSON, mech, gs::PW, privileged, now).await {
                Login::Success(t) => {
                    let grant = if privileged { Grant::Window { at: now, window: login_window } } else { Grant::Never };
                    toks.push(T {
                        uat: parse_uat(&t),
                        bearer: Bearer::Token(t),
                        grant,
                        label: if privileged { "privileged-login" } else { "ordinary-login" },
                    });
                }
                o => {
                    log.fail("harness: password login failed", format!("{o:?}"));
                    return;
                }
            },
            LoginType::GeneratedPassword { privileged } => {
                let pw = w
                    .write(now, move |t| t.generate_service_account_password(&GeneratePasswordEvent { ident: ident::internal(), target: svc }))
                    .await;
                let Ok(pw) = pw else {
                    log.fail("harness: generate service account password failed", format!("{pw:?}"));
                    return;
                };
                now += 1;
                match w.login(SVC, Mech::Password, &pw, privileged, now).await {
                    Login::Success(t) => toks.push(T {
                        uat: parse_uat(&t),
                        bearer: Bearer::Token(t),
                        grant: Grant::Window { at: now, window: login_window },
                        label: "generated-password-login",
                    }),
                    o => {
                        log.fail("harness: generated password login failed", format!("{o:?}"));
                        return;
                    }
                }
            }
            LoginType::OAuth2Trust { privileged } => match w.login_oauth2_trust(TRUST, TRUST_SUB, privileged, now).await {
                Login::Success(t) => {
                    let u = parse_uat(&t);
                    // the issued token itself must be a read-only one, whatever was requested
                    if let Some(u) = &u {
                        if !matches!(u.purpose, kanidm_proto::internal::UatPurpose::ReadOnly) {
                            log.fail(
                                "oauth2-trust-login issued a token whose purpose is not read-only",
                                format!("privileged={privileged}: token purpose {:?}", u.purpose),
                            );
                            return;
                        }
                    }
                    toks.push(T { uat: u, bearer: Bearer::Token(t), grant: Grant::Never, label: "oauth2-trust-login" });
                }
                o => {
                    log.fail("harness: oauth2 trust login failed", format!("{o:?}"));
                    return;
                }
            },
            LoginType::LdapBind => {
                let mut a = w.idms.auth().await.expect("auth");
                let r = a.auth_ldap(&LdapAuthEvent::from_parts(person, gs::UNIX_PW.to_string()).expect("ev"), ct(now)).await;
                match r {
                    Ok(Some(b)) => toks.push(T { uat: None, bearer: Bearer::Ldap(b.effective_session), grant: Grant::Never, label: "ldap-password-bind" }),
                    o => {
                        log.fail("harness: ldap bind failed", format!("{:?}", o.map(|x| x.is_some())));
                        return;
                    }
                }
            }
            LoginType::ApiRo { compact } | LoginType::ApiRw { compact } => {
                let rw = matches!(c.login, LoginType::ApiRw { .. });
                match w.api_token(now, svc, "t", None, rw, compact).await {
                    Ok(t) => toks.push(T {
                        uat: None,
                        bearer: Bearer::Token(t),
                        grant: if rw { Grant::Exempt } else { Grant::Never },
                        label: if rw { "api-token-rw" } else { "api-token-ro" },
                    }),
                    Err(e) => {
                        log.fail("harness: api token failed", format!("{e:?}"));
                        return;
                    }
                }
            }
        }
        w.process_delayed(now).await;
        if matches!(c.login, LoginType::OAuth2Trust { .. }) {
            // the recorded session of a trust login must be a read-only one
            let sid = toks[0].uat.as_ref().map(|u| u.session_id);
            let rec = match sid {
                Some(sid) => w.entry(subject).await.ok().and_then(|e| hk::uat_sessions(&e).get(&sid).cloned()),
                None => None,
            };
            match rec {
                Some(r) if r.scope != SessionScope::ReadOnly => {
                    log.fail("oauth2-trust-login recorded a session that is not read-only", format!("recorded scope {:?}", r.scope));
                    return;
                }
                Some(_) => log.class("oauth2-trust:session-recorded-read-only"),
                None => log.class("oauth2-trust:no-session-record"),
            }
        }
        let original_expiry: Option<Option<u64>> = toks[0].uat.as_ref().map(|u| u.expiry.map(secs_of));
        let session_id = toks[0].uat.as_ref().map(|u| u.session_id);
        let stored_expiry_0 = match session_id {
            Some(sid) => w.entry(subject).await.ok().and_then(|e| hk::uat_sessions(&e).get(&sid).map(|s| s.expires_at)),
            None => None,
        };
        let (mut saw_rw, mut saw_ro_after_rw, mut reauth_ok) = (false, false, 0);

        for (step, ev) in std::iter::once(None).chain(c.evs.iter().map(Some)).enumerate() {
            match ev {
                None => {}
                Some(Ev::Advance(a)) => {
                    let d: i64 = match a {
                        Adv::Secs(s) => *s as i64,
                        Adv::PrivWindow(d) => priv_window as i64 + *d as i64,
                        Adv::Hour(d) => 3600 + *d as i64,
                        Adv::Session(d) => session_len.min(200_000) as i64 + *d as i64,
                    };
                    now += d.max(1) as u64;
                }
                Some(Ev::Reauth { grant, k }) => {
                    now += 1;
                    let uats: Vec<usize> = toks.iter().enumerate().filter(|(_, t)| t.uat.is_some()).map(|(i, _)| i).collect();
                    if !uats.is_empty() {
                        let i = uats[pick_idx(*k, uats.len())];
                        let Bearer::Token(tk) = &toks[i].bearer else { continue };
                        if let Ok(id) = w.token_ident(tk, now).await {
                            match w.reauth(id, gs::PW, *grant, now).await {
                                Login::Success(t) => {
                                    reauth_ok += 1;
                                    let u = parse_uat(&t);
                                    // re-authentication must not move the session expiry
                                    if let (Some(orig), Some(u)) = (&original_expiry, &u) {
                                        if u.expiry.map(secs_of) != *orig {
                                            log.fail(
                                                "re-authentication changed the session expiry",
                                                format!("step {step} t={now}: token expiry {:?} after reauth, original {:?}", u.expiry.map(secs_of), orig),
                                            );
                                            return;
                                        }
                                    }
                                    toks.push(T {
                                        uat: u,
                                        bearer: Bearer::Token(t),
                                        grant: if *grant { Grant::Window { at: now, window: priv_window } } else { Grant::Never },
                                        label: if *grant { "reauth-with-privilege" } else { "reauth-verify-only" },
                                    });
                                    w.process_delayed(now).await;
                                    if let (Some(sid), Some(before)) = (session_id, stored_expiry_0) {
                                        let after = w.entry(subject).await.ok().and_then(|e| hk::uat_sessions(&e).get(&sid).map(|s| s.expires_at));
                                        if let Some(after) = after {
                                            if after != before {
                                                log.fail(
                                                    "re-authentication changed the stored session expiry",
                                                    format!("step {step} t={now}: stored {after:?}, before {before:?}"),
                                                );
                                                return;
                                            }
                                        }
                                    }
                                    log.class(if *grant { "reauth:granted" } else { "reauth:verify-only" });
                                }
                                Login::Denied(_) => log.class("reauth:denied"),
                                Login::Error(e) => {
                                    let short = if e.contains("SessionMayNotReauth") { "reauth:session-may-not-reauth" } else { "reauth:error" };
                                    log.class(short);
                                }
                            }
                        } else {
                            log.class("reauth:token-no-longer-accepted");
                        }
                    }
                }
            }
            // ---- use every token now
            for (i, t) in toks.iter().enumerate() {
                let r = match &t.bearer {
                    Bearer::Token(tk) => w.token_ident(tk, now).await,
                    Bearer::Ldap(s) => {
                        let mut rd = w.idms.proxy_read().await.expect("read");
                        rd.validate_ldap_session(s, Source::Internal, ct(now))
                    }
                };
                let Ok(id) = r else {
                    log.class(format!("refused:{}", t.label));
                    if let Grant::Window { at, window } = t.grant {
                        // a privileged login's token expires with its window: refusal after it counts as "no longer read-write"
                        if now > at + window && saw_rw {
                            saw_ro_after_rw = true;
                        }
                    }
                    continue;
                };
                let rw = id.access_scope() == AccessScope::ReadWrite;
                match t.grant {
                    Grant::Exempt => {
                        if rw {
                            log.class("rw:api-token-rw (exempt)");
                        }
                    }
                    Grant::Never => {
                        if rw {
                            log.fail(
                                format!("{} gives write access", t.label),
                                format!("step {step} t={now}: token #{i} ({}) -> ReadWrite; login {:?}", t.label, c.login),
                            );
                            return;
                        }
                        log.class(format!("ro:{}", t.label));
                    }
                    Grant::Window { at, window } => {
                        if rw {
                            if now > at + window {
                                log.fail(
                                    format!("{} gives write access after its privilege window", t.label),
                                    format!(
                                        "step {step} t={now}: token #{i} ({}) issued at {at}, window {window}s (policy privilege {priv_window}s, session {session_len}s) -> still ReadWrite",
                                        t.label
                                    ),
                                );
                                return;
                            }
                            saw_rw = true;
                            log.class(format!("rw-inside-window:{}", t.label));
                        } else {
                            if now > at + window {
                                log.class(format!("ro-after-window:{}", t.label));
                                if saw_rw {
                                    saw_ro_after_rw = true;
                                }
                            } else {
                                log.class(format!("ro-inside-window:{} (not judged)", t.label));
                            }
                        }
                    }
                }
            }
        }
        if (saw_rw && saw_ro_after_rw) || (reauth_ok > 0 && matches!(toks[0].grant, Grant::Never)) {
            log.nontrivial();
        }
        log.class(format!("login:{}", toks[0].label));
    });
    log.finish()
}

fn main() {
    let cx = Check::from_args("C33", "exploration");
    cx.rule(
        "one fresh IdmServer per case: policy group with privilege_expiry in {absent,1,2,30,60,599,600,601,3600,7200} and session expiry in {absent,60,600,3599,3600,3601,86400,172800}; one login of type \
         {anonymous, password, password+TOTP (privileged or not), generated service password, LDAP password bind, OAuth2 trust (privileged or not; the harness plays the upstream provider), API token ro/rw full/compact}; then 2-14 events: clock steps (fixed, privilege window +-2 s, one hour +-2 s, session length +-2 s) and re-authentications \
         (grant privilege or verify only, on any earlier token); after every event every token is used and its AccessScope compared with the model. non-trivial = a token was read-write inside its window and read-only after it, or an always-read-only login was re-authenticated; distinct by hash of the case",
    );
    cx.assume("client-certificate logins are not driven (no certificate fixture); the OAuth2 trust login runs through the real auth state machine with the harness answering as the upstream provider");
    cx.assume("instants exactly at window end are not judged; generated-password service logins are judged only by the bounded window rule (they are read-write by design for at most one hour)");
    let n = cx.tier.pick(800, 16_000);
    let len = cx.tier.pick(2..15usize, 2..30usize);
    cx.prop("login-x-reauth-x-time", PropCfg::new(n).shrink(250), || arb_case(len.clone()), srv::runtime, |rt, c| run(rt, c));
    for (l, floor) in [
        ("rw-inside-window:privileged-login", 40),
        ("refused:privileged-login", 15),
        ("rw-inside-window:reauth-with-privilege", 60),
        ("ro-after-window:reauth-with-privilege", 40),
        ("ro:ordinary-login", 100),
        ("ro:reauth-verify-only", 20),
        ("ro:anonymous", 10),
        ("ro:ldap-password-bind", 10),
        ("ro:oauth2-trust-login", 30),
        ("oauth2-trust:session-recorded-read-only", 30),
        ("ro:api-token-ro", 10),
        ("rw:api-token-rw (exempt)", 10),
        ("rw-inside-window:generated-password-login", 10),
        ("reauth:granted", 80),
    ] {
        cx.require_class(l, floor);
    }
    cx.finish();
}
