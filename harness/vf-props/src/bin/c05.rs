//! C05 — A crash at any point recovers to the before or after state.
//!
//! Crash-point enumeration: the check re-executes itself as a child process (`c05 --child ...`)
//! which opens a server on a copy of a populated file-backed database and runs one write
//! transaction with "abort() at the n-th storage statement" armed — for every n. The parent then
//! reads the database file with its own SQLite connection (no kanidm code): the complete raw
//! content (every table: entries, all indexes, name maps, RUV, ts_max, key handles, versions) must
//! equal, as a whole, either the state before the transaction or the state after it (both taken
//! from uncrashed reference runs on identical copies). It then reopens the file with a new
//! Backend + QueryServer: the server's own consistency check must be empty and the first
//! transaction issued at an EARLIER clock must be stamped above every identifier in the database.
use kanidmd_lib::prelude::*;
use kanidmd_lib::repl::proto::ReplIncrementalContext;
use kanidmd_lib::verif_hooks::export::State;
use kanidmd_lib::verif_hooks::fault::{self as hfault, Plan};
use kanidmd_lib::verif_hooks::repl as hrepl;
use serde::{Deserialize, Serialize};
use std::collections::HashMap;
use std::path::{Path, PathBuf};
use std::sync::{Arc, Mutex, OnceLock};
use vf_core::{Check, Outcome};
use vf_world::g_fault::{self, RawDb, Scratch, TOp, Template, DAY};
use vf_world::ops::{self, AttrK, Op, Ref};
use vf_world::srv::{self, ct};

#[derive(Debug, Clone, PartialEq, Eq, Hash, Serialize, Deserialize)]
enum COp {
    T(TOp),
    /// apply an incremental replication change set produced by another replica
    ReplApply,
}

#[derive(Debug, Clone, Serialize, Deserialize)]
struct Case {
    ops: Vec<COp>,
    /// 1-based storage point at which the child aborts (K+1.. = never: the child completes)
    n: u32,
}

const CT_OPEN: u64 = 20 * DAY;
const CT_TXN: u64 = 20 * DAY + 100;
/// the recovered server is started with an EARLIER clock than the crashed transaction
const CT_REOPEN: u64 = 20 * DAY + 50;
const CT_AFTER: u64 = 20 * DAY + 60;

fn templates() -> Vec<Vec<COp>> {
    let e = |op: Op| COp::T(TOp::E(op));
    vec![
        vec![e(Op::CreatePerson { i: 3, name: 9 })],
        vec![e(Op::SetAttr { t: Ref::G(2), attr: AttrK::Description, vals: vec![1] })],
        vec![e(Op::Delete { t: Ref::P(2) })],
        vec![e(Op::Rename { t: Ref::P(1), name: 10 })],
        vec![
            e(Op::CreateGroup { i: 3, name: 11, members: vec![Ref::P(0), Ref::G(1)] }),
            e(Op::AddMember { g: Ref::G(2), m: Ref::G(3) }),
            e(Op::RemoveMember { g: Ref::G(1), m: Ref::P(1) }),
        ],
        vec![COp::T(TOp::AcpAddAttr { attr: 0 }), COp::T(TOp::DomainDisplay { v: 1 })],
        vec![e(Op::PurgeTombstones)],
        vec![COp::ReplApply],
        vec![e(Op::Delete { t: Ref::G(1) }), e(Op::SetAttr { t: Ref::P(0), attr: AttrK::Mail, vals: vec![1, 2] })],
        // reaches ~2000 storage points (schema reload + full reindex): sampled
        vec![COp::T(TOp::SchemaAttr { n: 1, indexed: true })],
    ]
}

async fn run_txn(qs: &QueryServer, opsl: &[COp], ctx: Option<ReplIncrementalContext>) -> Result<(), OperationError> {
    let when = ct(CT_TXN);
    let mut w = qs.write(when).await?;
    let mut ctx = ctx;
    for op in opsl {
        match op {
            COp::T(t) => g_fault::apply_top(&mut w, t, when)?,
            COp::ReplApply => {
                let c = ctx.take().ok_or(OperationError::InvalidState)?;
                w.consumer_apply_changes(c).map(|_| ())?;
            }
        }
    }
    w.commit()
}

// ---------------------------------------------------------------------------------------------
// child

fn child_main(args: &[String]) -> ! {
    // c05 --child <db> <n> <case.json> [<ctx.json>]
    let db = PathBuf::from(&args[2]);
    let n: u64 = args[3].parse().expect("n");
    let case: Case = serde_json::from_str(&std::fs::read_to_string(&args[4]).expect("case")).expect("case json");
    let ctx: Option<ReplIncrementalContext> = args
        .get(5)
        .map(|p| serde_json::from_str(&std::fs::read_to_string(p).expect("ctx")).expect("ctx json"));
    let rt = srv::runtime();
    let qs = rt.block_on(g_fault::open_qs(Some(&db), 2, ct(CT_OPEN))).expect("child open");
    hfault::arm(Plan::AbortAt(n));
    let r = rt.block_on(run_txn(&qs, &case.ops, ctx));
    hfault::disarm();
    match r {
        Ok(()) => std::process::exit(0),
        Err(e) => {
            eprintln!("child: transaction failed: {e:?}");
            std::process::exit(3)
        }
    }
}

// ---------------------------------------------------------------------------------------------
// references (uncrashed runs), shared by all workers

struct RefData {
    k: u32,
    trace: Vec<&'static str>,
    before: RawDb,
    after: RawDb,
    deterministic: bool,
    ctx_file: Option<PathBuf>,
    _scratch: Scratch,
}

type St = (tokio::runtime::Runtime, &'static Template);

/// One template database for the whole process: references are shared between workers, so every
/// copy must come from the same file (server uuid and key material are random per database).
static TPL: OnceLock<Template> = OnceLock::new();

fn init() -> St {
    let rt = srv::runtime();
    let tpl = TPL.get_or_init(|| g_fault::c05_template(&rt));
    (rt, tpl)
}

static REFS: OnceLock<Mutex<HashMap<String, Arc<OnceLock<Result<RefData, String>>>>>> = OnceLock::new();

/// Change set for the ReplApply template: a second (in-memory) replica is refreshed from a copy of
/// the template database, changes a few entries, and supplies the increment for that copy's state.
fn make_repl_ctx(rt: &tokio::runtime::Runtime, tpl: &Template, scratch: &Scratch) -> Result<PathBuf, String> {
    let file = scratch.file("supplier-view.db");
    tpl.instantiate(&file);
    rt.block_on(async {
        let a = g_fault::open_qs(Some(&file), 2, ct(CT_OPEN)).await.map_err(|e| format!("{e:?}"))?;
        let b = g_fault::open_qs(None, 1, ct(CT_OPEN)).await.map_err(|e| format!("{e:?}"))?;
        let refresh = {
            let mut r = a.read().await.map_err(|e| format!("{e:?}"))?;
            r.supplier_provide_refresh().map_err(|e| format!("refresh: {e:?}"))?
        };
        {
            let mut w = b.write(ct(CT_OPEN + 1)).await.map_err(|e| format!("{e:?}"))?;
            w.consumer_apply_refresh(refresh).map_err(|e| format!("apply refresh: {e:?}"))?;
            w.commit().map_err(|e| format!("{e:?}"))?;
        }
        for (i, op) in [
            Op::CreatePerson { i: 3, name: 9 },
            Op::SetAttr { t: Ref::G(2), attr: AttrK::Description, vals: vec![2] },
            Op::AddMember { g: Ref::G(2), m: Ref::P(3) },
            Op::Delete { t: Ref::P(2) },
        ]
        .iter()
        .enumerate()
        {
            let mut w = b.write(ct(CT_OPEN + 2 + i as u64)).await.map_err(|e| format!("{e:?}"))?;
            ops::apply_in_txn(&mut w, op).map_err(|e| format!("supplier op {op:?}: {e:?}"))?;
            w.commit().map_err(|e| format!("{e:?}"))?;
        }
        let state = {
            let mut r = a.read().await.map_err(|e| format!("{e:?}"))?;
            r.consumer_get_state().map_err(|e| format!("state: {e:?}"))?
        };
        let changes = {
            let mut r = b.read().await.map_err(|e| format!("{e:?}"))?;
            r.supplier_provide_changes(state).map_err(|e| format!("changes: {e:?}"))?
        };
        if !matches!(changes, ReplIncrementalContext::V1 { .. }) {
            return Err(format!("supplier did not provide a change set: {changes:?}"));
        }
        let p = scratch.file("ctx.json");
        std::fs::write(&p, serde_json::to_string(&changes).map_err(|e| e.to_string())?).map_err(|e| e.to_string())?;
        Ok(p)
    })
}

fn load_ctx(p: &Option<PathBuf>) -> Option<ReplIncrementalContext> {
    p.as_ref()
        .map(|p| serde_json::from_str(&std::fs::read_to_string(p).expect("ctx")).expect("ctx json"))
}

fn compute_ref(rt: &tokio::runtime::Runtime, tpl: &Template, opsl: &[COp]) -> Result<RefData, String> {
    let scratch = Scratch::new();
    let ctx_file = if opsl.contains(&COp::ReplApply) {
        Some(make_repl_ctx(rt, tpl, &scratch)?)
    } else {
        None
    };
    let mut runs = Vec::new();
    for i in 0..2 {
        let file = scratch.file(&format!("ref{i}.db"));
        tpl.instantiate(&file);
        let qs = rt.block_on(g_fault::open_qs(Some(&file), 2, ct(CT_OPEN))).map_err(|e| format!("open: {e:?}"))?;
        let before = g_fault::raw_dump(&file)?;
        hfault::arm(Plan::Count);
        let r = rt.block_on(run_txn(&qs, opsl, load_ctx(&ctx_file)));
        let rep = hfault::disarm();
        r.map_err(|e| format!("reference transaction failed: {e:?}"))?;
        let after = g_fault::raw_dump(&file)?;
        drop(qs);
        runs.push((before, after, rep));
    }
    let (b1, a1, rep1) = runs.pop().expect("run");
    let (b0, a0, _) = runs.pop().expect("run");
    let deterministic = b0 == b1 && a0 == a1;
    if b1 == a1 {
        return Err("reference transaction changes nothing".into());
    }
    Ok(RefData {
        k: rep1.count as u32,
        trace: rep1.trace,
        before: b1,
        after: a1,
        deterministic,
        ctx_file,
        _scratch: scratch,
    })
}

fn reference(rt: &tokio::runtime::Runtime, tpl: &Template, opsl: &[COp]) -> Arc<OnceLock<Result<RefData, String>>> {
    let key = serde_json::to_string(opsl).unwrap_or_default();
    let cell = {
        let mut m = REFS.get_or_init(|| Mutex::new(HashMap::new())).lock().unwrap();
        m.entry(key).or_insert_with(|| Arc::new(OnceLock::new())).clone()
    };
    cell.get_or_init(|| compute_ref(rt, tpl, opsl));
    cell
}

// ---------------------------------------------------------------------------------------------
// parent side of one case

fn table_verdict(rec: &RawDb, before: &RawDb, after: &RawDb) -> (Vec<String>, Vec<String>, Vec<String>) {
    // tables equal to before only / after only / neither
    let mut b = Vec::new();
    let mut a = Vec::new();
    let mut neither = Vec::new();
    let keys: std::collections::BTreeSet<&String> = rec.keys().chain(before.keys()).chain(after.keys()).collect();
    for k in keys {
        let r = rec.get(k);
        let eb = r == before.get(k);
        let ea = r == after.get(k);
        match (eb, ea) {
            (true, true) => {}
            (true, false) => b.push(k.clone()),
            (false, true) => a.push(k.clone()),
            (false, false) => neither.push(k.clone()),
        }
    }
    (b, a, neither)
}

fn run_case(cx: &Check, st: &mut St, c: &Case) -> Outcome {
    let (rt, tpl) = st;
    let cell = reference(rt, tpl, &c.ops);
    let rf = match cell.get().expect("ref") {
        Ok(r) => r,
        Err(e) => {
            cx.inconclusive(&format!("harness: no reference for {:?}: {e}", c.ops));
            return Outcome::discard();
        }
    };
    if !rf.deterministic {
        return Outcome::discard().class("template-not-deterministic");
    }
    let scratch = Scratch::new();
    let file = scratch.file("c05.db");
    tpl.instantiate(&file);
    let casef = scratch.file("case.json");
    std::fs::write(&casef, serde_json::to_string(c).expect("json")).expect("write case");
    let exe = std::env::current_exe().expect("current_exe");
    let mut cmd = std::process::Command::new(exe);
    cmd.arg("--child").arg(&file).arg(c.n.to_string()).arg(&casef);
    if let Some(p) = &rf.ctx_file {
        cmd.arg(p);
    }
    cmd.stdin(std::process::Stdio::null())
        .stdout(std::process::Stdio::null())
        .stderr(std::process::Stdio::piped());
    let outp = match cmd.output() {
        Ok(o) => o,
        Err(e) => {
            cx.inconclusive(&format!("harness: cannot run child: {e}"));
            return Outcome::discard();
        }
    };
    use std::os::unix::process::ExitStatusExt;
    let crashed = outp.status.signal() == Some(6);
    let completed = outp.status.code() == Some(0);
    if !crashed && !completed {
        cx.inconclusive(&format!(
            "harness: child ended unexpectedly ({:?}) for {:?} n={}: {}",
            outp.status,
            c.ops,
            c.n,
            String::from_utf8_lossy(&outp.stderr).chars().take(400).collect::<String>()
        ));
        return Outcome::discard();
    }
    let point = if crashed { rf.trace.get(c.n as usize - 1).copied().unwrap_or("?") } else { "none (completed)" };
    let ctx = format!("transaction {:?}, process killed at storage point #{} `{point}` of {}", c.ops, c.n, rf.k);
    let mut out = Outcome::pass(false).class(format!("crash-at:{point}"));

    // (1) the raw database as any new connection sees it
    let rec = match g_fault::raw_dump(&file) {
        Ok(r) => r,
        Err(e) => return Outcome::fail("recovered database cannot be read", format!("{ctx}: {e}")),
    };
    let is_before = rec == rf.before;
    let is_after = rec == rf.after;
    if !is_before && !is_after {
        let (b, a, neither) = table_verdict(&rec, &rf.before, &rf.after);
        let d = if neither.is_empty() {
            g_fault::raw_diff(&rf.before, &rec)
        } else {
            let only: RawDb = rec.iter().filter(|(k, _)| neither.contains(k)).map(|(k, v)| (k.clone(), v.clone())).collect();
            let onlyb: RawDb = rf.before.iter().filter(|(k, _)| neither.contains(k)).map(|(k, v)| (k.clone(), v.clone())).collect();
            g_fault::raw_diff(&onlyb, &only)
        };
        return Outcome::fail(
            "recovered database is neither the complete before-state nor the complete after-state",
            format!(
                "{ctx}: tables still as before {:?}; tables already as after {:?}; tables matching neither {:?}; e.g. {:?}",
                &b[..b.len().min(8)],
                &a[..a.len().min(8)],
                &neither[..neither.len().min(8)],
                &d[..d.len().min(3)]
            ),
        );
    }
    if completed && !is_after {
        return Outcome::fail("transaction reported committed but the database shows the before-state", ctx);
    }
    out = out.class(if is_before { "recovered:before" } else { "recovered:after" });
    if crashed && point == "commit_done" && is_before {
        return Outcome::fail("SQLite COMMIT returned but the transaction is not durable", ctx);
    }

    // (2) restart on the file with an earlier clock
    let res: Result<(), (String, String)> = rt.block_on(async {
        let qs = g_fault::open_qs(Some(&file), 2, ct(CT_REOPEN))
            .await
            .map_err(|e| ("recovered database cannot be started".to_string(), format!("{e:?}")))?;
        let mut r = qs.read().await.map_err(|e| ("harness".to_string(), format!("{e:?}")))?;
        let v = hfault::verify(&mut r);
        if !v.is_empty() {
            return Err((
                "consistency check of the recovered server reports errors".to_string(),
                format!("{:?}", &v[..v.len().min(6)]),
            ));
        }
        // greatest identifier anywhere in the recovered database
        let mut all = hrepl::ruv_cids(&mut r);
        for e in vf_world::dump::all_entries(&mut r).map_err(|e| ("harness".to_string(), format!("{e:?}")))? {
            match e.get_changestate().current() {
                State::Live { at, changes } => {
                    all.push(at.clone());
                    all.extend(changes.values().cloned());
                }
                State::Tombstone { at } => all.push(at.clone()),
            }
        }
        drop(r);
        let w = qs.write(ct(CT_AFTER)).await.map_err(|e| ("harness".to_string(), format!("{e:?}")))?;
        let stamp = hrepl::txn_cid(&w);
        let mine: Vec<&Cid> = all.iter().filter(|c| c.s_uuid == stamp.s_uuid).collect();
        if let Some(m) = mine.iter().max() {
            if stamp <= **m {
                return Err((
                    "first transaction after recovery is stamped with an identifier not greater than one in the database".to_string(),
                    format!("stamp {stamp:?} <= {m:?}"),
                ));
            }
        }
        drop(w);
        Ok(())
    });
    match res {
        Ok(()) => {}
        Err((sig, msg)) if sig == "harness" => {
            cx.inconclusive(&format!("harness: {ctx}: {msg}"));
            return Outcome::discard();
        }
        Err((sig, msg)) => return Outcome::fail(sig, format!("{ctx}: {msg}")),
    }
    // non-trivial: the process died inside the SQLite transaction, after its first write and
    // before COMMIT returned
    if crashed && c.n > 1 && point != "commit_done" {
        out.nontrivial = true;
        out = out.class("crash-inside-sqlite-transaction");
    }
    out
}

fn main() {
    let args: Vec<String> = std::env::args().collect();
    if args.get(1).map(|s| s.as_str()) == Some("--child") {
        child_main(&args);
    }
    let cx = Check::from_args("C05", "fault_enumeration");
    g_fault::sweep_stale_scratch();
    cx.rule(
        "10 representative write transactions (entry create / modify / delete / rename, multi-op group edits, access-control + domain setting change, tombstone purge, \
         group delete + multi-value edit, application of an incremental replication change set from a second replica, schema attribute creation with full reindex) on byte-identical copies of a \
         populated file-backed database (pool 2, WAL). For EVERY storage statement index n of the transaction (1..K, and K+1 = runs to completion) a child process (re-exec of this binary) \
         opens the database, runs the transaction and calls abort() at statement n. non-trivial = killed after the first write of the SQLite transaction and before COMMIT returned. \
         The ~2000-point reindex template is strided (head, tail and a stride of the middle).",
    );
    cx.assume("process death is modelled by abort() at hooked storage statements: no torn pages, no lost fsync, page cache survives (not a power-loss model)");
    cx.assume("before/after references come from uncrashed runs of the same transaction on identical copies; a template whose two reference runs differ (server-side randomness) is discarded and counted");
    cx.assume("transactions that create key material (OAuth2 client creation, key rotation) are not used here because their after-state is not reproducible");

    if cx.replay.is_some() {
        cx.enumerate("crash-points", 0, |_| Case { ops: vec![], n: 0 }, init, |st, c| run_case(&cx, st, c));
        cx.finish();
    }

    // K per template from the reference runs
    let tpls = templates();
    let ks: Vec<u32> = {
        let (rt, tpl) = init();
        tpls.iter()
            .map(|t| match reference(&rt, &tpl, t).get().expect("ref") {
                Ok(r) => r.k,
                Err(e) => {
                    cx.inconclusive(&format!("harness: reference for {t:?}: {e}"));
                    0
                }
            })
            .collect()
    };
    cx.extra("storage_points_per_template", serde_json::json!(ks));
    let (head, tail, middle) = cx.tier.pick((6u32, 30u32, 6u32), (100, 200, 400));
    let mut flat: Vec<(usize, u32)> = Vec::new();
    let mut sampled = 0;
    for (i, k) in ks.iter().enumerate() {
        let k = *k;
        if k == 0 {
            continue;
        }
        if k <= 200 {
            for n in 1..=k + 1 {
                flat.push((i, n));
            }
        } else {
            sampled += 1;
            let mid_lo = head + 1;
            let mid_hi = k - tail;
            let step = ((mid_hi - mid_lo + 1) as f64 / middle as f64).max(1.0);
            let mut picks: std::collections::BTreeSet<u32> = (1..=head).chain(mid_hi + 1..=k + 1).collect();
            let mut x = mid_lo as f64;
            while (x as u32) <= mid_hi {
                picks.insert(x as u32);
                x += step;
            }
            for n in picks {
                flat.push((i, n));
            }
        }
    }
    cx.extra("templates_with_sampled_crash_points", serde_json::json!(sampled));
    let fl = &flat;
    let tl = &tpls;
    cx.enumerate(
        "crash-points",
        flat.len() as u64,
        |i| {
            let (t, n) = fl[i as usize];
            Case { ops: tl[t].clone(), n }
        },
        init,
        |st, c| run_case(&cx, st, c),
    );
    if sampled > 0 {
        cx.not_exhaustive();
    }
    cx.require_class("recovered:before", 50);
    cx.require_class("recovered:after", 10);
    cx.require_class("crash-inside-sqlite-transaction", 100);
    cx.require_class("crash-at:commit_exec", 5);
    cx.finish();
}
