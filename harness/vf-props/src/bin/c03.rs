//! C03 — Indexes and name lookups always mirror the stored entries.
//!
//! Random histories on a real server (and on two replicas with replication); after EVERY commit
//! a from-scratch reference index (every live index key x every stored entry, recycled entries and
//! tombstones included) is compared in both directions with the raw index tables and with the
//! index as seen through the idl cache, and the four name tables with maps rebuilt from the live
//! entries; name / spn / rdn / external-id lookups are compared with the scan; verify() must be clean.
use kanidmd_lib::event::ReviveRecycledEvent;
use kanidmd_lib::modify::{Modify, ModifyList};
use kanidmd_lib::prelude::*;
use kanidmd_lib::value::PartialValue;
use kanidmd_lib::verif_hooks::ident;
use proptest::prelude::*;
use serde::{Deserialize, Serialize};
use std::collections::BTreeSet;
use vf_core::{CaseLog, Check, Outcome, PropCfg};
use vf_world::dump::{self, Status};
use vf_world::g_storage::idx;
use vf_world::ops::{self, Node, Op, Weights};
use vf_world::pop::{self, Kind};
use vf_world::repl::{Cluster, ReplResult};
use vf_world::srv;

const EXT: [&str; 4] = ["ext-a", "EXT-B", "cn=x,dc=y", "ext-a"];

#[derive(Debug, Clone, PartialEq, Eq, Hash, Serialize, Deserialize)]
enum XOp {
    Base(Op),
    CreateSyncAccount,
    /// a synchronised stub entry: no name, no spn (uuid2spn / uuid2rdn fall back to the uuid)
    CreateStub { i: u8, ext: Option<u8> },
    SetExtId { i: u8, ext: Option<u8> },
    DeleteStub { i: u8 },
    ReviveStub { i: u8 },
    /// the stub becomes a named group (gains name and spn)
    PromoteStub { i: u8, name: u8 },
}

#[derive(Debug, Clone, PartialEq, Eq, Hash, Serialize, Deserialize)]
enum XStep {
    Do { r: u8, op: XOp },
    Repl { from: u8, to: u8 },
    Refresh { from: u8, to: u8 },
}

fn sync_uuid() -> Uuid {
    pop::uuid_of(Kind::Sync, 0)
}
fn stub_uuid(i: u8) -> Uuid {
    pop::uuid_of(Kind::Other, i as u32)
}
fn live(u: Uuid) -> Filter<FilterInvalid> {
    Filter::new_ignore_hidden(f_eq(Attribute::Uuid, PartialValue::Uuid(u)))
}

fn apply_x(w: &mut QueryServerWriteTransaction<'_>, op: &XOp) -> Result<(), OperationError> {
    match op {
        XOp::Base(o) => ops::apply_in_txn(w, o),
        XOp::CreateSyncAccount => {
            let mut e: pop::NewEntry = kanidmd_lib::entry::Entry::new();
            e.add_ava(Attribute::Class, EntryClass::Object.to_value());
            e.add_ava(Attribute::Class, EntryClass::SyncAccount.to_value());
            e.add_ava(Attribute::Name, Value::new_iname("syncagreement"));
            e.add_ava(Attribute::Uuid, Value::Uuid(sync_uuid()));
            w.internal_create(vec![e])
        }
        XOp::CreateStub { i, ext } => {
            let mut e: pop::NewEntry = kanidmd_lib::entry::Entry::new();
            e.add_ava(Attribute::Class, EntryClass::Object.to_value());
            e.add_ava(Attribute::Class, EntryClass::SyncObject.to_value());
            e.add_ava(Attribute::SyncParentUuid, Value::Refer(sync_uuid()));
            e.add_ava(Attribute::Uuid, Value::Uuid(stub_uuid(*i)));
            if let Some(x) = ext {
                e.add_ava(Attribute::SyncExternalId, Value::new_iutf8(EXT[*x as usize % EXT.len()]));
            }
            w.internal_create(vec![e])
        }
        XOp::SetExtId { i, ext } => {
            let mut m = vec![Modify::Purged(Attribute::SyncExternalId)];
            if let Some(x) = ext {
                m.push(Modify::Present(Attribute::SyncExternalId, Value::new_iutf8(EXT[*x as usize % EXT.len()])));
            }
            w.internal_modify(&live(stub_uuid(*i)), &ModifyList::new_list(m))
        }
        XOp::DeleteStub { i } => w.internal_delete(&live(stub_uuid(*i))),
        XOp::ReviveStub { i } => {
            let f = Filter::new(f_eq(Attribute::Uuid, PartialValue::Uuid(stub_uuid(*i))))
                .validate(w.get_schema())
                .map_err(OperationError::SchemaViolation)?
                .into_recycled();
            w.revive_recycled(&ReviveRecycledEvent {
                ident: ident::internal(),
                filter: f,
            })
        }
        XOp::PromoteStub { i, name } => w.internal_modify(
            &live(stub_uuid(*i)),
            &ModifyList::new_list(vec![
                Modify::Present(Attribute::Class, EntryClass::Group.to_value()),
                Modify::Present(Attribute::Name, Value::new_iname(ops::NAMES[*name as usize % ops::NAMES.len()])),
            ]),
        ),
    }
}

async fn apply(node: &mut Node, op: &XOp) -> Result<(), OperationError> {
    if let XOp::Base(Op::Advance { secs }) = op {
        node.clock += *secs as u64;
        return Ok(());
    }
    let mut w = node.qs.write(node.now()).await?;
    apply_x(&mut w, op)?;
    w.commit()?;
    node.clock += 1;
    Ok(())
}

fn weights() -> Weights {
    Weights {
        create: 10,
        rename: 8,
        attr: 8,
        member: 3,
        manager: 1,
        oauth2: 1,
        dyngroup: 1,
        posix: 4,
        delete: 7,
        revive: 6,
        purge: 4,
        reindex: 2,
        advance: 4,
        domain_rename: 1,
        bad: 1,
        persons: 5,
        services: 2,
        groups: 6,
        ..Weights::default()
    }
}

fn arb_xop(w: &Weights) -> BoxedStrategy<XOp> {
    prop_oneof![
        40 => ops::arb_op(w).prop_map(XOp::Base),
        1 => Just(XOp::CreateSyncAccount),
        3 => (0u8..3, proptest::option::of(0u8..4)).prop_map(|(i, ext)| XOp::CreateStub { i, ext }),
        3 => (0u8..3, proptest::option::of(0u8..4)).prop_map(|(i, ext)| XOp::SetExtId { i, ext }),
        2 => (0u8..3).prop_map(|i| XOp::DeleteStub { i }),
        2 => (0u8..3).prop_map(|i| XOp::ReviveStub { i }),
        1 => (0u8..3, 0u8..16).prop_map(|(i, name)| XOp::PromoteStub { i, name }),
    ]
    .boxed()
}

/// Scripted fragments that reach the states the property names (revived-then-renamed entries,
/// reaped tombstones, reindex over recycled entries); targets and names stay random.
fn arb_snippet(w: &Weights) -> BoxedStrategy<Vec<XOp>> {
    let t = ops::arb_ref(w, false, false);
    const DAY8: u32 = 8 * 86_400;
    prop_oneof![
        3 => (t.clone(), 0u8..16).prop_map(|(t, name)| vec![XOp::Base(Op::Delete { t }), XOp::Base(Op::Revive { t }), XOp::Base(Op::Rename { t, name })]),
        2 => (t.clone(), any::<bool>()).prop_map(|(t, reindex)| {
            let mut v = vec![
                XOp::Base(Op::Delete { t }),
                XOp::Base(Op::Advance { secs: DAY8 }),
                XOp::Base(Op::PurgeRecycled),
            ];
            if reindex {
                v.push(XOp::Base(Op::Reindex));
            }
            v.push(XOp::Base(Op::Advance { secs: DAY8 }));
            v.push(XOp::Base(Op::PurgeTombstones));
            v
        }),
        2 => t.clone().prop_map(|t| vec![XOp::Base(Op::Delete { t }), XOp::Base(Op::Reindex)]),
        1 => (0u8..3, proptest::option::of(0u8..4), 0u8..16).prop_map(|(i, ext, name)| vec![
            XOp::CreateStub { i, ext },
            XOp::DeleteStub { i },
            XOp::ReviveStub { i },
            XOp::PromoteStub { i, name },
        ]),
    ]
    .boxed()
}

fn arb_body(w: &Weights, len: std::ops::Range<usize>) -> BoxedStrategy<Vec<XOp>> {
    let item = prop_oneof![
        12 => arb_xop(w).prop_map(|o| vec![o]),
        1 => arb_snippet(w),
    ];
    proptest::collection::vec(item, len).prop_map(|v| v.into_iter().flatten().collect()).boxed()
}

fn arb_hist(w: &Weights, len: std::ops::Range<usize>) -> BoxedStrategy<Vec<XOp>> {
    (ops::arb_prefix(w), any::<bool>(), arb_body(w, len))
        .prop_map(|(p, sync, mut body)| {
            let mut out: Vec<XOp> = p.into_iter().map(XOp::Base).collect();
            if sync {
                out.push(XOp::CreateSyncAccount);
            }
            out.append(&mut body);
            out
        })
        .boxed()
}

fn arb_xsteps(w: &Weights, len: std::ops::Range<usize>) -> BoxedStrategy<Vec<XStep>> {
    let pair = (0u8..2, 0u8..2).prop_filter_map("distinct", |(a, b)| if a != b { Some((a, b)) } else { None });
    let persons = w.persons.max(1);
    let groups = w.groups.max(1);
    // the same uuid created independently on both replicas, then replicated both ways: the loser
    // becomes a conflict entry under a new uuid
    let conflict = (any::<bool>(), 0u8..16, 0u8..16, 0u8..8, any::<bool>()).prop_map(move |(person, n0, n1, i, dir)| {
        let mk = |name: u8| {
            if person {
                Op::CreatePerson { i: i % persons, name }
            } else {
                Op::CreateGroup { i: i % groups, name, members: vec![] }
            }
        };
        let (a, b) = if dir { (0u8, 1u8) } else { (1, 0) };
        vec![
            XStep::Do { r: 0, op: XOp::Base(mk(n0)) },
            XStep::Do { r: 1, op: XOp::Base(mk(n1)) },
            XStep::Repl { from: a, to: b },
            XStep::Repl { from: b, to: a },
        ]
    });
    let step = prop_oneof![
        30 => (0u8..2, arb_xop(w)).prop_map(|(r, op)| vec![XStep::Do { r, op }]),
        9 => pair.clone().prop_map(|(from, to)| vec![XStep::Repl { from, to }]),
        2 => pair.prop_map(|(from, to)| vec![XStep::Refresh { from, to }]),
        3 => (0u8..2, arb_snippet(w)).prop_map(|(r, v)| v.into_iter().map(|op| XStep::Do { r, op }).collect::<Vec<_>>()),
        3 => conflict,
    ];
    (ops::arb_prefix(w), proptest::collection::vec(step, len))
        .prop_map(|(p, body)| {
            // half of the population is created on replica 0 and replicated, the rest is created
            // later on either replica
            let n = p.len() / 2;
            let mut out: Vec<XStep> = p.into_iter().take(n).map(|op| XStep::Do { r: 0, op: XOp::Base(op) }).collect();
            out.push(XStep::Do { r: 0, op: XOp::CreateSyncAccount });
            out.push(XStep::Repl { from: 0, to: 1 });
            out.extend(body.into_iter().flatten());
            out
        })
        .boxed()
}

fn absent_probe() -> Vec<String> {
    let mut v: Vec<String> = Vec::new();
    for n in ops::NAMES {
        v.push(n.to_string());
        for d in ops::DOMAINS {
            v.push(format!("{n}@{d}"));
        }
    }
    for g in ops::GIDS {
        v.push(g.to_string());
    }
    v.push("syncagreement".into());
    v
}

struct Seen {
    tombstones: usize,
    reaped: bool,
    conflict: bool,
    recycled_named: bool,
    checks: usize,
    keys: usize,
}

/// Check one node's committed state. Returns false when a discrepancy was logged.
async fn check_node(qs: &QueryServer, log: &mut CaseLog, seen: &mut Seen, probe: &[String], ctx: &str) -> bool {
    let mut r = qs.read().await.expect("read");
    let entries = dump::all_entries(&mut r).expect("entries");
    let ts = entries.iter().filter(|e| dump::status_of(e) == Status::Tombstone).count();
    if ts < seen.tombstones {
        seen.reaped = true;
    }
    seen.tombstones = ts;
    if entries.iter().any(|e| dump::status_of(e) == Status::Conflict) {
        seen.conflict = true;
    }
    if entries.iter().any(|e| dump::status_of(e) == Status::Recycled && e.get_ava_set(Attribute::Name).is_some()) {
        seen.recycled_named = true;
    }
    match idx::check_state(&mut r, &entries, probe) {
        Ok(st) => {
            seen.checks += 1;
            seen.keys = seen.keys.max(st.keys);
            for o in st.other_verify {
                log.class(format!("verify-other:{o}"));
            }
            true
        }
        Err((sig, msg)) => {
            if sig.starts_with("harness:") {
                panic!("{sig}: {msg}");
            }
            log.fail(sig, format!("{ctx}: {msg}"));
            false
        }
    }
}

/// dump tables, reindex, dump again: identical.
async fn reindex_metamorphic(node: &mut Node, log: &mut CaseLog) {
    let before = {
        let mut r = node.qs.read().await.expect("read");
        idx::tables_fingerprint(&mut r).expect("fingerprint")
    };
    let now = node.now();
    let mut w = node.qs.write(now).await.expect("write");
    w.reindex(true).expect("reindex");
    w.commit().expect("commit");
    node.clock += 1;
    let after = {
        let mut r = node.qs.read().await.expect("read");
        idx::tables_fingerprint(&mut r).expect("fingerprint")
    };
    if before != after {
        let tables: BTreeSet<&String> = before.keys().chain(after.keys()).collect();
        for t in tables {
            if before.get(t) != after.get(t) {
                let (b, a) = (before.get(t).cloned().unwrap_or_default(), after.get(t).cloned().unwrap_or_default());
                let keys: BTreeSet<&String> = b.keys().chain(a.keys()).collect();
                for k in keys {
                    if b.get(k) != a.get(k) {
                        log.fail("a reindex changes the index tables", format!("table {t} key {k:?}: before {:?}, after reindex {:?}", b.get(k), a.get(k)));
                        return;
                    }
                }
            }
        }
    }
}

fn base_labels(opsl: &[XOp]) -> BTreeSet<String> {
    let base: Vec<Op> = opsl
        .iter()
        .filter_map(|o| match o {
            XOp::Base(b) => Some(b.clone()),
            _ => None,
        })
        .collect();
    let mut l = ops::labels(&base);
    if opsl.iter().any(|o| matches!(o, XOp::SetExtId { .. })) {
        l.insert("extid-edit".into());
    }
    if opsl.iter().any(|o| matches!(o, XOp::PromoteStub { .. })) {
        l.insert("stub-promote".into());
    }
    if opsl.iter().any(|o| matches!(o, XOp::Base(Op::SetAttr { attr: ops::AttrK::Mail, .. }) | XOp::Base(Op::AddAttr { attr: ops::AttrK::Mail, .. }))) {
        l.insert("mail-edit".into());
    }
    if opsl.iter().any(|o| matches!(o, XOp::Base(Op::EnablePosix { .. }) | XOp::Base(Op::SetAttr { attr: ops::AttrK::GidNumber, .. }))) {
        l.insert("gid-edit".into());
    }
    l
}

fn finish(mut log: CaseLog, seen: &Seen, labels: BTreeSet<String>, committed: usize) -> Outcome {
    let hard = labels.contains("rename-after-revive") || labels.contains("reindex-after-delete") || seen.reaped || seen.conflict;
    if hard && committed >= 10 {
        log.nontrivial();
    }
    if seen.reaped {
        log.class("tombstone-reaped");
    }
    if seen.conflict {
        log.class("conflict-entry-present");
    }
    if seen.recycled_named {
        log.class("recycled-entry-with-name-present");
    }
    for l in labels {
        log.class(l);
    }
    log.class(format!("committed:{}", (committed / 10) * 10));
    log.class(format!("index-keys-compared:{}00+", seen.keys / 100));
    log.finish()
}

#[derive(Debug, Clone, Serialize, Deserialize)]
struct Case {
    ops: Vec<XOp>,
}
#[derive(Debug, Clone, Serialize, Deserialize)]
struct RCase {
    steps: Vec<XStep>,
}

fn single(rt: &tokio::runtime::Runtime, c: &Case) -> Outcome {
    let mut log = CaseLog::new();
    let mut seen = Seen {
        tombstones: 0,
        reaped: false,
        conflict: false,
        recycled_named: false,
        checks: 0,
        keys: 0,
    };
    let probe = absent_probe();
    let mut committed = 0;
    rt.block_on(async {
        let mut node = Node::new().await;
        if !check_node(&node.qs, &mut log, &mut seen, &probe, "fresh server").await {
            return;
        }
        for (i, op) in c.ops.iter().enumerate() {
            let res = apply(&mut node, op).await;
            if matches!(op, XOp::Base(Op::Advance { .. })) || res.is_err() {
                continue;
            }
            committed += 1;
            if !check_node(&node.qs, &mut log, &mut seen, &probe, &format!("after step {i} {op:?}")).await {
                return;
            }
        }
        reindex_metamorphic(&mut node, &mut log).await;
        if !log.failed() {
            check_node(&node.qs, &mut log, &mut seen, &probe, "after the final reindex").await;
        }
    });
    finish(log, &seen, base_labels(&c.ops), committed)
}

fn replicated(rt: &tokio::runtime::Runtime, c: &RCase) -> Outcome {
    let mut log = CaseLog::new();
    let mut seen = Seen {
        tombstones: 0,
        reaped: false,
        conflict: false,
        recycled_named: false,
        checks: 0,
        keys: 0,
    };
    let probe = absent_probe();
    let mut committed = 0;
    let mut applied = 0;
    rt.block_on(async {
        let mut cl = Cluster::new(2).await;
        for (i, s) in c.steps.iter().enumerate() {
            let node = match s {
                XStep::Do { r, op } => {
                    let n = *r as usize % 2;
                    let res = apply(&mut cl.nodes[n], op).await;
                    if matches!(op, XOp::Base(Op::Advance { .. })) || res.is_err() {
                        None
                    } else {
                        Some(n)
                    }
                }
                XStep::Repl { from, to } => {
                    let (f, t) = (*from as usize % 2, *to as usize % 2);
                    if f != t && cl.replicate(f, t).await == ReplResult::Applied {
                        applied += 1;
                        Some(t)
                    } else {
                        None
                    }
                }
                XStep::Refresh { from, to } => {
                    let (f, t) = (*from as usize % 2, *to as usize % 2);
                    if f != t && cl.refresh(f, t).await.is_ok() {
                        log.class("refreshed");
                        Some(t)
                    } else {
                        None
                    }
                }
            };
            // replicas share one wall clock (NTP): keep the virtual clocks in step, so that a replica
            // never stamps a change earlier than entries it already holds
            let m = cl.nodes.iter().map(|n| n.clock).max().unwrap_or(0);
            for nd in cl.nodes.iter_mut() {
                nd.clock = m;
            }
            if let Some(n) = node {
                committed += 1;
                // tombstone counting is per node; only track reaps on node 0 to keep it meaningful
                let mut local = Seen {
                    tombstones: if n == 0 { seen.tombstones } else { usize::MAX },
                    reaped: false,
                    conflict: false,
                    recycled_named: false,
                    checks: 0,
                    keys: 0,
                };
                if n != 0 {
                    local.tombstones = 0;
                }
                let ok = check_node(&cl.nodes[n].qs, &mut log, &mut local, &probe, &format!("replica {n} after step {i} {s:?}")).await;
                if n == 0 {
                    seen.tombstones = local.tombstones;
                    seen.reaped |= local.reaped;
                }
                seen.conflict |= local.conflict;
                seen.recycled_named |= local.recycled_named;
                seen.keys = seen.keys.max(local.keys);
                if !ok {
                    return;
                }
            }
        }
        for n in 0..2 {
            reindex_metamorphic(&mut cl.nodes[n], &mut log).await;
            if log.failed() {
                return;
            }
        }
    });
    if applied > 0 {
        log.class("replicated-change-applied");
    }
    let opsl: Vec<XOp> = c
        .steps
        .iter()
        .filter_map(|s| match s {
            XStep::Do { op, .. } => Some(op.clone()),
            _ => None,
        })
        .collect();
    finish(log, &seen, base_labels(&opsl), committed)
}

fn main() {
    let cx = Check::from_args("C03", "exploration");
    cx.rule(
        "random histories (population prefix + create / rename / mail, gidnumber, description edits / posix enable-disable / member edits / delete / revive / purge_recycled / purge_tombstones with clock jumps \
         over the recycle and changelog windows / reindex / domain rename / sync stubs with external ids, promotion of a nameless stub to a named group) on a real in-memory server, and the same on two replicas with \
         incremental replication, refresh and independent creates of the same uuid (uuid-changing conflicts). After EVERY commit: reference index rebuilt from all stored entries for every live index key, compared \
         both ways with the raw sqlite index tables and with the idl cache; name2uuid / externalid2uuid / uuid2spn / uuid2rdn rebuilt from live entries and compared both ways with the raw tables and the cached lookups; \
         absent names must not resolve; verify() clean; at the end reindex must not change any table. non-trivial = >=10 commits AND (rename after revive | reindex after delete | tombstone reaped | conflict entry); distinct by history hash",
    );
    cx.assume("index key generation per value (ValueSetT::generate_idx_*_keys) is taken as the definition of a key; the bookkeeping across histories is what is judged");
    cx.assume("index tables not named by the live index metadata are ignored; keys whose id list is empty are treated as absent");
    let w = weights();
    let n = cx.tier.pick(150, 5_000);
    let len = cx.tier.pick(12..42usize, 20..180usize);
    cx.prop(
        "single-server-histories",
        PropCfg::new(n).shrink(200),
        || arb_hist(&w, len.clone()).prop_map(|ops| Case { ops }),
        srv::runtime,
        |rt, c| single(rt, c),
    );
    // (no domain rename on replicas: entries replicated from a replica that has not seen the rename keep
    // the old-domain spn, which the spn plugin's verify debug-asserts on: C22's subject, not C03's)
    let w = Weights { domain_rename: 0, ..w };
    let n2 = cx.tier.pick(70, 2_500);
    let len2 = cx.tier.pick(12..36usize, 20..100usize);
    cx.prop(
        "two-replica-histories",
        PropCfg::new(n2).shrink(150),
        || arb_xsteps(&w, len2.clone()).prop_map(|steps| RCase { steps }),
        srv::runtime,
        |rt, c| replicated(rt, c),
    );
    cx.require_class("rename-after-revive", 5);
    cx.require_class("reindex-after-delete", 10);
    cx.require_class("tombstone-reaped", 5);
    cx.require_class("conflict-entry-present", 3);
    cx.require_class("replicated-change-applied", 20);
    cx.require_class("recycled-entry-with-name-present", 20);
    cx.finish();
}
