//! C30 — Password checks agree with independent implementations.
//!
//! (a) imported formats: a seeded corpus written by `py/gen_pw_corpus.py` (glibc crypt(3) for
//!     $1$/$5$/$6$, hashlib PBKDF2 / SHA families, a pure-Python RFC 1320 MD4 for NT hashes) gives
//!     (encoded hash, cleartext, near-miss candidates + the reference's verdict on each). kanidm must
//!     import every hash and give the same verdict on every candidate, before and after a
//!     DbPasswordV1 round trip.
//! (b) kanidm-generated Argon2id / PBKDF2 and imported {ARGON2}: the harness recomputes the key from
//!     the stored parameters (own PBKDF2 over own HMAC; the RustCrypto argon2 primitive called
//!     directly) and compares verdicts the same way.
use argon2::{Algorithm, Argon2, Params, Version};
use kanidm_lib_crypto::{CryptoPolicy, DbPasswordV1, Password};
use proptest::prelude::*;
use serde::{Deserialize, Serialize};
use vf_core::{CaseLog, Check, Outcome, PropCfg};
use vf_world::g_auth::{ref_hmac, RefAlgo};

#[derive(Debug, Clone, Serialize, Deserialize)]
struct Entry {
    format: String,
    encoded: String,
    cleartext: String,
    /// (candidate, accepted by the independent implementation)
    cands: Vec<(String, bool)>,
}

#[derive(Debug, Deserialize)]
struct Corpus {
    entries: Vec<Entry>,
}

pub const SIG_GUARD: &str = "cleartext longer than 512 bytes is refused although the reference accepts it (input length guard)";

fn judge(log: &mut CaseLog, stage: &str, format: &str, p: &Password, cands: &[(String, bool)]) {
    for (cand, want) in cands {
        let got = match p.verify(cand) {
            Ok(b) => b,
            Err(e) => {
                log.fail(
                    format!("{stage}verify returns an error: {format}"),
                    format!("candidate {cand:?}: {e:?}"),
                );
                continue;
            }
        };
        if got == *want {
            continue;
        }
        if *want && !got && cand.len() > 512 {
            log.fail(SIG_GUARD, format!("{format}: cleartext of {} bytes", cand.len()));
        } else if *want {
            log.fail(
                format!("{stage}rejects a cleartext the reference accepts: {format}"),
                format!("candidate {cand:?} ({} bytes)", cand.len()),
            );
        } else {
            log.fail(
                format!("{stage}accepts a cleartext the reference rejects: {format}"),
                format!("candidate {cand:?} ({} bytes)", cand.len()),
            );
        }
    }
}

fn classes(log: &mut CaseLog, e: &Entry) {
    log.class(format!("format:{}", e.format));
    let pw = &e.cleartext;
    if pw.is_empty() {
        log.class("cleartext:empty");
    }
    if !pw.is_ascii() {
        log.class("cleartext:non-ascii");
    }
    if pw.len() >= 256 {
        log.class("cleartext:>=256-bytes");
    }
    if pw.len() > 512 {
        log.class("cleartext:>512-bytes");
    }
    if pw.contains('\0') {
        log.class("cleartext:embedded-nul");
    }
    if e.cands.iter().skip(1).any(|(_, w)| *w) {
        log.class("near-miss-accepted-by-reference");
    }
    if e.cands.iter().any(|(_, w)| !*w) {
        log.class("has-rejected-candidate");
    }
}

fn check_entry(e: &Entry) -> Outcome {
    let mut log = CaseLog::new();
    let p = match Password::try_from(e.encoded.as_str()) {
        Ok(p) => p,
        Err(err) => {
            return Outcome::fail(
                format!("hash of a supported format is refused at import: {}", e.format),
                format!("{:?}: {err:?}", e.encoded),
            )
        }
    };
    judge(&mut log, "", &e.format, &p, &e.cands);
    match Password::try_from(p.to_dbpasswordv1()) {
        Ok(p2) => judge(&mut log, "after DbPasswordV1 round trip: ", &e.format, &p2, &e.cands),
        Err(()) => log.fail(
            format!("DbPasswordV1 round trip fails: {}", e.format),
            e.encoded.clone(),
        ),
    }
    classes(&mut log, e);
    if e.cands.len() >= 3 {
        log.nontrivial();
    }
    log.finish()
}

// ------------------------------------------------------------------ (b) generated formats

#[derive(Debug, Clone, Serialize, Deserialize)]
struct GenCase {
    /// 0 = Password::new_argon2id, 1 = Password::new_pbkdf2, 2 = imported {ARGON2} PHC string
    kind: u8,
    cleartext: String,
    cands: Vec<String>,
    /// parameters of the imported PHC string (kind 2)
    m: u32,
    t: u32,
    p: u32,
    salt: Vec<u8>,
    keylen: u8,
}

fn pbkdf2_sha256(pw: &[u8], salt: &[u8], cost: u32, len: usize) -> Vec<u8> {
    let mut out = Vec::new();
    let mut block = 1u32;
    while out.len() < len {
        let mut s = salt.to_vec();
        s.extend_from_slice(&block.to_be_bytes());
        let mut u = ref_hmac(RefAlgo::Sha256, pw, &s);
        let mut t = u.clone();
        for _ in 1..cost {
            u = ref_hmac(RefAlgo::Sha256, pw, &u);
            for (a, b) in t.iter_mut().zip(u.iter()) {
                *a ^= b;
            }
        }
        out.extend_from_slice(&t);
        block += 1;
    }
    out.truncate(len);
    out
}

fn argon2id(pw: &[u8], salt: &[u8], m: u32, t: u32, p: u32, version: u32, len: usize) -> Option<Vec<u8>> {
    let params = Params::new(m, t, p, Some(len)).ok()?;
    let v = Version::try_from(version).ok()?;
    let a = Argon2::new(Algorithm::Argon2id, v, params);
    let mut out = vec![0u8; len];
    a.hash_password_into(pw, salt, &mut out).ok()?;
    Some(out)
}

fn b64_nopad(data: &[u8]) -> String {
    const T: &[u8; 64] = b"ABCDEFGHIJKLMNOPQRSTUVWXYZabcdefghijklmnopqrstuvwxyz0123456789+/";
    let mut s = String::new();
    for ch in data.chunks(3) {
        let b = [ch[0], *ch.get(1).unwrap_or(&0), *ch.get(2).unwrap_or(&0)];
        let n = ((b[0] as u32) << 16) | ((b[1] as u32) << 8) | b[2] as u32;
        s.push(T[(n >> 18) as usize & 63] as char);
        s.push(T[(n >> 12) as usize & 63] as char);
        if ch.len() > 1 {
            s.push(T[(n >> 6) as usize & 63] as char);
        }
        if ch.len() > 2 {
            s.push(T[n as usize & 63] as char);
        }
    }
    s
}

fn check_gen(c: &GenCase) -> Outcome {
    let mut all: Vec<String> = vec![c.cleartext.clone()];
    for x in &c.cands {
        if !all.contains(x) {
            all.push(x.clone());
        }
    }
    let policy = CryptoPolicy::danger_test_minimum();
    let (format, p): (&str, Password) = match c.kind % 3 {
        0 => match Password::new_argon2id(&policy, &c.cleartext) {
            Ok(p) => ("generated-argon2id", p),
            Err(e) => return Outcome::fail("generating an Argon2id password fails", format!("{e:?}")),
        },
        1 => match Password::new_pbkdf2(&policy, &c.cleartext) {
            Ok(p) => ("generated-pbkdf2", p),
            Err(e) => return Outcome::fail("generating a PBKDF2 password fails", format!("{e:?}")),
        },
        _ => {
            let (m, t, par) = (8 * c.p.max(1) + c.m % 64, 1 + c.t % 3, c.p.clamp(1, 2));
            let keylen = 16 + (c.keylen % 49) as usize;
            let mut salt = c.salt.clone();
            salt.resize(salt.len().clamp(8, 48), 7);
            let Some(key) = argon2id(c.cleartext.as_bytes(), &salt, m, t, par, 0x13, keylen) else {
                return Outcome::discard();
            };
            let phc = format!(
                "{{ARGON2}}$argon2id$v=19$m={m},t={t},p={par}${}${}",
                b64_nopad(&salt),
                b64_nopad(&key)
            );
            match Password::try_from(phc.as_str()) {
                Ok(p) => ("imported-argon2id", p),
                Err(e) => {
                    return Outcome::fail(
                        "hash of a supported format is refused at import: imported-argon2id",
                        format!("{phc}: {e:?}"),
                    )
                }
            }
        }
    };
    // independent recomputation from the stored parameters
    let db = p.to_dbpasswordv1();
    let verdict = |cand: &str| -> Option<bool> {
        match &db {
            DbPasswordV1::ARGON2ID { m, t, p, v, s, k } => {
                let s: Vec<u8> = s.clone().into();
                let k: Vec<u8> = k.clone().into();
                argon2id(cand.as_bytes(), &s, *m, *t, *p, *v, k.len()).map(|x| x == k)
            }
            DbPasswordV1::PBKDF2(cost, s, k) => Some(pbkdf2_sha256(cand.as_bytes(), s, *cost, k.len()) == *k),
            _ => None,
        }
    };
    let mut cands = Vec::new();
    for x in &all {
        match verdict(x) {
            Some(w) => cands.push((x.clone(), w)),
            None => return Outcome::fail("generated password has an unexpected stored form", format!("{db:?}")),
        }
    }
    let mut log = CaseLog::new();
    if !cands[0].1 {
        log.fail(
            format!("stored key is not the KDF output of the cleartext: {format}"),
            format!("{db:?}"),
        );
    }
    judge(&mut log, "", format, &p, &cands);
    match Password::try_from(db) {
        Ok(p2) => judge(&mut log, "after DbPasswordV1 round trip: ", format, &p2, &cands),
        Err(()) => log.fail(format!("DbPasswordV1 round trip fails: {format}"), ""),
    }
    let e = Entry {
        format: format.to_string(),
        encoded: String::new(),
        cleartext: c.cleartext.clone(),
        cands,
    };
    classes(&mut log, &e);
    log.nontrivial();
    log.finish()
}

fn arb_text() -> impl Strategy<Value = String> {
    prop_oneof![
        3 => "[a-zA-Z0-9 ]{0,24}",
        2 => "\\PC{0,16}",
        1 => Just(String::new()),
        1 => (0usize..3).prop_map(|i| ["x".repeat(512), "x".repeat(513), "é".repeat(256)][i].clone()),
        1 => "[a-z]{1,8}\u{0}[a-z]{0,4}",
    ]
}

fn arb_gen() -> impl Strategy<Value = GenCase> {
    (
        0u8..3,
        arb_text(),
        any::<u16>(),
        any::<u32>(),
        any::<u32>(),
        1u32..3,
        proptest::collection::vec(any::<u8>(), 8..32),
        any::<u8>(),
        arb_text(),
    )
        .prop_map(|(kind, cleartext, sel, m, t, p, salt, keylen, other)| {
            let mut cands = vec![format!("{cleartext} "), format!("{cleartext}\0"), cleartext.to_uppercase(), other];
            if !cleartext.is_empty() {
                let mut cs: Vec<char> = cleartext.chars().collect();
                let i = sel as usize % cs.len();
                cs[i] = if cs[i] == 'Q' { 'R' } else { 'Q' };
                cands.push(cs.into_iter().collect());
                cands.push(cleartext.chars().skip(1).collect());
            }
            GenCase {
                kind,
                cleartext,
                cands,
                m,
                t,
                p,
                salt,
                keylen,
            }
        })
}

fn main() {
    let cx = Check::from_args("C30", "exploration");
    cx.rule(
        "(a) seeded corpus of hashes made by independent code (glibc crypt(3) $1$/$5$/$6$ with default and explicit rounds, hashlib PBKDF2 for Django and OpenLDAP sha1/sha256/sha512 in ab64 / padded / unpadded base64, \
         {SHA}/{SSHA}/{SHA256}/{SSHA256}/{SHA512}/{SSHA512}, pure-Python MD4 for ipaNTHash/sambaNTPassword); cleartexts ASCII/multi-byte/combining/NFC-NFD, lengths 0,1,..,512(,513,1024), embedded NUL, whitespace; \
         each hash is judged on the right cleartext and up to 6 near-misses (truncation, case flip, one char changed, added space, doubled, NFC/NFD twin, trailing NUL, +600 bytes) with the reference's own verdict, before and after a DbPasswordV1 round trip; \
         (b) kanidm-generated Argon2id and PBKDF2 and imported {ARGON2} strings judged against a recomputation from the stored parameters. non-trivial = hash judged on >=3 candidates; corpus entries distinct by construction, generated cases by hash",
    );
    cx.assume("glibc/libxcrypt crypt(3), Python hashlib and the RustCrypto argon2 primitive are correct; no second Argon2 implementation exists in this image, so Argon2id is checked for parameter plumbing only");
    cx.assume("candidates the reference itself cannot judge (crypt(3) refuses passphrases >= 512 bytes and embedded NUL) are not generated for those formats");
    // ---- (a)
    let path = cx.root.join("target").join(format!("c30-corpus-{}-{}.json", cx.seed, cx.tier.as_str()));
    if cx.replay.is_none() {
        let corpus: Corpus = match std::fs::read_to_string(&path).map_err(|e| e.to_string()).and_then(|s| serde_json::from_str(&s).map_err(|e| e.to_string())) {
            Ok(c) => c,
            Err(e) => {
                cx.inconclusive(&format!("corpus {} unreadable: {e} (checks/pre-c30.sh generates it)", path.display()));
                cx.finish();
            }
        };
        let entries = &corpus.entries;
        cx.enumerate("corpus", entries.len() as u64, |i| entries[i as usize].clone(), || (), |_, e| check_entry(e));
    } else {
        cx.enumerate("corpus", 0, |_| Entry { format: String::new(), encoded: String::new(), cleartext: String::new(), cands: vec![] }, || (), |_, e| check_entry(e));
    }
    cx.not_exhaustive();
    // committed regression inputs (corpus entries) are replayed through this empty random sub-check
    cx.prop(
        "corpus-regress",
        PropCfg::new(0),
        || Just(Entry { format: String::new(), encoded: String::new(), cleartext: String::new(), cands: vec![] }),
        || (),
        |_, e| check_entry(e),
    );
    // ---- (b)
    let n = cx.tier.pick(600, 20_000);
    cx.prop("generated-and-argon2", PropCfg::new(n).shrink(200), arb_gen, || (), |_, c| check_gen(c));
    for f in [
        "crypt-md5", "crypt-sha256", "crypt-sha512", "django-pbkdf2-sha256", "oldap-pbkdf2", "oldap-pbkdf2-sha1", "oldap-pbkdf2-sha256",
        "oldap-pbkdf2-sha512", "ds-sha", "ds-ssha", "ds-sha256", "ds-ssha256", "ds-sha512", "ds-ssha512", "nt-ipa", "nt-samba",
        "generated-argon2id", "generated-pbkdf2", "imported-argon2id",
    ] {
        cx.require_class(&format!("format:{f}"), 20);
    }
    cx.require_class("near-miss-accepted-by-reference", 20);
    cx.require_class("cleartext:non-ascii", 100);
    cx.finish();
}
