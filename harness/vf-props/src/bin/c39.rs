//! C39 — OAuth2 tokens are redeemable only as issued.
//!
//! Histories on one generated client: obtain codes with a valid request, then exchange / refresh /
//! introspect / userinfo with mutated client credentials, redirect URI, verifier, scopes and times,
//! interleaved with revocation of the parent session and account expiry. The harness keeps its own
//! ledger (which code was issued when, with which redirect and verifier; which refresh token is the
//! newest of its session; which sessions are dead) and judges every *success* against it.
use kanidm_proto::oauth2::GrantTypeReq;
use kanidmd_lib::prelude::*;
use proptest::prelude::*;
use serde::{Deserialize, Serialize};
use std::collections::BTreeSet;
use vf_core::{CaseLog, Check, Outcome, PropCfg};
use vf_world::g_proto::oa::{self, AuthOutcome, Cfg, ClientAuth, Pkce, Req, Who};
use vf_world::srv;

#[derive(Debug, Clone, Copy, PartialEq, Eq, Hash, Serialize, Deserialize)]
enum RedirectMut {
    Same,
    /// another URI registered for the client (or the landing URL)
    OtherRegistered,
    NearMiss,
}
#[derive(Debug, Clone, Copy, PartialEq, Eq, Hash, Serialize, Deserialize)]
enum VerMut {
    /// what the flow calls for: the right verifier if a challenge was sent, none otherwise
    Right,
    Wrong,
    Missing,
    /// the verifier that belongs to another code
    Other,
}
#[derive(Debug, Clone, Copy, PartialEq, Eq, Hash, Serialize, Deserialize)]
enum ScopeMut {
    None,
    Same,
    Subset,
    Superset,
    Unrelated,
}

#[derive(Debug, Clone, PartialEq, Eq, Hash, Serialize, Deserialize)]
enum Step {
    Authorise { pkce: u8 },
    ExchangeCode { which: u8, client: ClientAuth, redirect: RedirectMut, verifier: VerMut },
    Refresh { which: u8, newest: bool, scope: ScopeMut, client: ClientAuth },
    Introspect { which: u8 },
    Userinfo { which: u8 },
    RevokeSession,
    ExpireAccount,
    ReopenAccount,
    Advance { secs: u32 },
}

#[derive(Debug, Clone, Serialize, Deserialize)]
struct Case {
    cfg: Cfg,
    steps: Vec<Step>,
}

struct CodeInfo {
    code: String,
    issued_at: u64,
    redirect: Url,
    verifier: Option<u8>,
    grant: BTreeSet<String>,
    /// an all-correct exchange already failed at this time (expiry must be monotone)
    correct_failed_at: Option<u64>,
}
struct Tok {
    session: usize,
    access: String,
    refresh: Option<String>,
    issued_at: u64,
    expires_in: u64,
}
struct Sess {
    grant: BTreeSet<String>,
    dead: bool,
    /// index into toks of the newest generation
    newest: usize,
}

/// make the configuration one under which a valid base request exists
fn repair(mut cfg: Cfg) -> Cfg {
    if cfg.held().is_empty() {
        cfg.scope_all = vec![0, 3];
    }
    cfg
}

fn base_req(cfg: &Cfg, pkce: u8) -> Req {
    let registered = cfg.registered();
    let redirect = (0..oa::REDIRECTS.len() as u8).find(|i| Url::parse(oa::REDIRECTS[*i as usize]).map(|u| registered.contains(u.as_str())).unwrap_or(false)).unwrap_or(7);
    let held = cfg.held();
    let scopes: Vec<u8> = (0..oa::SCOPES.len() as u8).filter(|i| held.contains(oa::SCOPES[*i as usize])).collect();
    let pk = if cfg.requires_pkce() || pkce % 3 != 0 { Pkce::S256(pkce % 4) } else { Pkce::None };
    Req { redirect, scopes, pkce: pk, who: Who::User, prompt: 0, wrong_client: false }
}

async fn run(c: &Case) -> Outcome {
    let mut log = CaseLog::new();
    let cfg = repair(c.cfg.clone());
    let w = match oa::setup(&cfg).await {
        Ok(w) => w,
        Err(e) => {
            log.class(format!("config-not-accepted:{}", e.chars().take(100).collect::<String>()));
            return log.finish();
        }
    };
    log.class(if cfg.public { "client:public" } else { "client:basic" });
    let mut clock = w.t0 + 10;
    let mut codes: Vec<CodeInfo> = Vec::new();
    let mut toks: Vec<Tok> = Vec::new();
    let mut sess: Vec<Sess> = Vec::new();
    let mut parent_revoked = false;
    let mut expired = false;
    let held_sup = cfg.held_sup();
    let registered: Vec<String> = cfg.registered().into_iter().collect();
    let mut ok_exchanges = 0;
    let mut ok_refreshes = 0;

    for (i, step) in c.steps.iter().enumerate() {
        clock += 1;
        let ct = srv::ct(clock);
        let ctx = format!("config {cfg:?}\n step {i} {step:?} at t={clock} (parent_revoked={parent_revoked} account_expired={expired})");
        match step {
            Step::Advance { secs } => {
                clock += *secs as u64;
                continue;
            }
            Step::Authorise { pkce } => {
                if parent_revoked || expired {
                    // the harness holds a pre-resolved identity; a real request would be stopped at the session layer
                    log.class("authorise-skipped(session or account gone)");
                    continue;
                }
                let r = base_req(&cfg, *pkce);
                match oa::authorise(&w, &r, ct).await {
                    AuthOutcome::Code { code, .. } => {
                        log.class("code-issued");
                        let verifier = match r.pkce {
                            Pkce::S256(k) => Some(k),
                            _ => None,
                        };
                        log.class(if verifier.is_some() { "code-issued:with-pkce" } else { "code-issued:without-pkce" });
                        codes.push(CodeInfo { code, issued_at: clock, redirect: r.redirect_url(), verifier, grant: r.scope_set().union(&held_sup).cloned().collect(), correct_failed_at: None });
                    }
                    other => {
                        log.fail("harness: base authorisation request was not granted", format!("{ctx}: {other:?}"));
                    }
                }
            }
            Step::ExchangeCode { which, client, redirect, verifier } => {
                if codes.is_empty() {
                    continue;
                }
                let k = *which as usize % codes.len();
                let other_verifier = codes.iter().filter_map(|c| c.verifier).find(|v| Some(*v) != codes[k].verifier);
                let ci = &mut codes[k];
                let red = match redirect {
                    RedirectMut::Same => ci.redirect.clone(),
                    RedirectMut::OtherRegistered => registered.iter().find(|r| r.as_str() != ci.redirect.as_str()).and_then(|r| Url::parse(r).ok()).unwrap_or_else(|| ci.redirect.clone()),
                    RedirectMut::NearMiss => {
                        let mut u = ci.redirect.clone();
                        let p = format!("{}x", u.path());
                        u.set_path(&p);
                        u
                    }
                };
                let ver = match (verifier, ci.verifier) {
                    (VerMut::Right, Some(v)) => Some(oa::verifier(v)),
                    (VerMut::Right, None) => None,
                    (VerMut::Wrong, _) => Some("wrong-verifier-wrong-verifier-wrong-verifier-0123456789".to_string()),
                    (VerMut::Missing, _) => None,
                    (VerMut::Other, _) => Some(oa::verifier(other_verifier.unwrap_or(ci.verifier.map(|v| v + 1).unwrap_or(1)))),
                };
                let same_redirect = red.as_str() == ci.redirect.as_str();
                let verifier_right = match ci.verifier {
                    Some(v) => ver.as_deref() == Some(oa::verifier(v).as_str()),
                    None => true,
                };
                let client_right = match client {
                    ClientAuth::Right => true,
                    // a public client has no secret: the right client_id is all there is
                    ClientAuth::WrongSecret => cfg.public,
                    _ => false,
                };
                let age = clock - ci.issued_at;
                let all_correct = same_redirect && verifier_right && client_right && (ci.verifier.is_some() || ver.is_none());
                let grant = GrantTypeReq::AuthorizationCode { code: ci.code.clone(), redirect_uri: red, code_verifier: ver };
                let res = oa::token_request(&w, grant, oa::post_auth(&w, &cfg, *client), ct).await;
                match res {
                    Ok(tr) => {
                        ok_exchanges += 1;
                        log.class("code-exchange:ok");
                        if !client_right {
                            log.fail("code redeemed by a client it was not issued for", ctx.clone());
                        }
                        if !same_redirect {
                            log.fail("code redeemed with a different redirect URI", ctx.clone());
                        }
                        if !verifier_right {
                            log.fail("code redeemed without the verifier matching the recorded challenge", ctx.clone());
                        }
                        if age > 600 {
                            log.fail("code redeemed after its lifetime", format!("{ctx}: {age}s after issue"));
                        }
                        if let Some(t) = ci.correct_failed_at {
                            if t < clock {
                                log.fail("code redeemed after it had already been refused as expired", format!("{ctx}: refused at t={t}"));
                            }
                        }
                        if tr.scope != ci.grant {
                            log.fail("scopes of the token response differ from the grant", format!("{ctx}: {:?} vs {:?}", tr.scope, ci.grant));
                        }
                        let s = sess.len();
                        sess.push(Sess { grant: ci.grant.clone(), dead: parent_revoked, newest: toks.len() });
                        toks.push(Tok { session: s, access: tr.access_token, refresh: tr.refresh_token, issued_at: clock, expires_in: tr.expires_in as u64 });
                    }
                    Err(e) => {
                        if e.starts_with("harness") {
                            log.fail("harness: oauth2 driver error", format!("{ctx}: {e}"));
                        }
                        if all_correct {
                            log.class(if age >= 60 { "code-exchange:refused-correct-request(old code)" } else { "code-exchange:refused-correct-request" });
                            if age >= 60 && ci.correct_failed_at.is_none() {
                                ci.correct_failed_at = Some(clock);
                            }
                        } else {
                            log.class("code-exchange:refused-mutated-request");
                            if !client_right {
                                log.class("code-exchange:refused(wrong client)");
                            } else if !same_redirect {
                                log.class("code-exchange:refused(redirect differs)");
                            } else if !verifier_right {
                                log.class("code-exchange:refused(verifier)");
                            }
                        }
                    }
                }
            }
            Step::Refresh { which, newest, scope, client } => {
                if toks.is_empty() {
                    continue;
                }
                let ti = if *newest { sess[*which as usize % sess.len()].newest } else { *which as usize % toks.len() };
                let si = toks[ti].session;
                let Some(rt) = toks[ti].refresh.clone() else {
                    log.class("refresh:no-refresh-token");
                    continue;
                };
                let is_newest = sess[si].newest == ti;
                let grant_scopes = sess[si].grant.clone();
                let req_scope: Option<BTreeSet<String>> = match scope {
                    ScopeMut::None => None,
                    ScopeMut::Same => Some(grant_scopes.clone()),
                    ScopeMut::Subset => Some(grant_scopes.iter().take(1).cloned().collect()),
                    ScopeMut::Superset => {
                        let mut s = grant_scopes.clone();
                        s.insert("admin".to_string());
                        for x in oa::SCOPES {
                            s.insert(x.to_string());
                        }
                        Some(s)
                    }
                    ScopeMut::Unrelated => Some(["admin".to_string()].into_iter().collect()),
                };
                let widened = req_scope.as_ref().map(|s| !s.is_subset(&grant_scopes)).unwrap_or(false);
                let client_right = match client {
                    ClientAuth::Right => true,
                    ClientAuth::WrongSecret => cfg.public,
                    _ => false,
                };
                let res = oa::token_request(&w, GrantTypeReq::RefreshToken { refresh_token: rt, scope: req_scope }, oa::post_auth(&w, &cfg, *client), ct).await;
                match res {
                    Ok(tr) => {
                        ok_refreshes += 1;
                        log.class("refresh:ok");
                        if !tr.scope.is_subset(&grant_scopes) {
                            log.fail("refresh granted scopes beyond the original grant", format!("{ctx}: {:?} vs grant {:?}", tr.scope, grant_scopes));
                        }
                        if widened {
                            log.fail("refresh accepted a scope request beyond the original grant", ctx.clone());
                        }
                        if !is_newest {
                            log.fail("an already-rotated refresh token was accepted", ctx.clone());
                        }
                        if sess[si].dead || parent_revoked {
                            log.fail("refresh accepted for a revoked session", ctx.clone());
                        }
                        if expired {
                            log.fail("refresh accepted for an expired account", ctx.clone());
                        }
                        if !client_right {
                            log.fail("refresh token redeemed by a client it was not issued for", ctx.clone());
                        }
                        sess[si].newest = toks.len();
                        toks.push(Tok { session: si, access: tr.access_token, refresh: tr.refresh_token, issued_at: clock, expires_in: tr.expires_in as u64 });
                        if tr_scope_narrowed(&toks, &grant_scopes) {
                            log.class("refresh:ok-narrowed-scopes");
                        }
                    }
                    Err(e) => {
                        if e.starts_with("harness") {
                            log.fail("harness: oauth2 driver error", format!("{ctx}: {e}"));
                        }
                        log.class("refresh:refused");
                        let young = clock - toks[ti].issued_at < 3600;
                        if !is_newest && !young {
                            log.class("refresh:refused-old-rotated-token(not judged)");
                        } else if !is_newest && client_right && !widened && !sess[si].dead && !parent_revoked && !expired {
                            // reuse of a rotated token: from now on the whole session must be dead
                            sess[si].dead = true;
                            log.class("refresh:rotated-token-reuse-refused");
                        } else if widened {
                            log.class("refresh:refused(scope beyond grant)");
                        }
                    }
                }
            }
            Step::Introspect { which } => {
                if toks.is_empty() {
                    continue;
                }
                let t = &toks[*which as usize % toks.len()];
                let s = &sess[t.session];
                match oa::introspect(&w, &t.access, ct).await {
                    Ok(r) if r.active => {
                        log.class("introspect:active");
                        if s.dead {
                            log.fail("introspection reports a token of a revoked session as active", ctx.clone());
                        }
                        if parent_revoked {
                            log.fail("introspection reports a token as active after its parent session was revoked", ctx.clone());
                        }
                        if expired {
                            log.fail("introspection reports a token of an expired account as active", ctx.clone());
                        }
                        if clock > t.issued_at + t.expires_in {
                            log.fail("introspection reports an expired access token as active", format!("{ctx}: issued {} expires_in {}", t.issued_at, t.expires_in));
                        }
                    }
                    Ok(_) => {
                        log.class("introspect:inactive");
                        if s.dead || parent_revoked {
                            log.class("introspect:inactive-after-revocation");
                        }
                        if expired {
                            log.class("introspect:inactive-account-expired");
                        }
                    }
                    Err(e) => log.class(format!("introspect:error:{}", e.split('(').next().unwrap_or(""))),
                }
            }
            Step::Userinfo { which } => {
                if toks.is_empty() {
                    continue;
                }
                let t = &toks[*which as usize % toks.len()];
                let s = &sess[t.session];
                match oa::userinfo(&w, &t.access, ct).await {
                    Ok(()) => {
                        log.class("userinfo:released");
                        if s.dead || parent_revoked {
                            log.fail("userinfo released for a token of a revoked session", ctx.clone());
                        }
                        if expired {
                            log.fail("userinfo released for an expired account", ctx.clone());
                        }
                        if clock > t.issued_at + t.expires_in {
                            log.fail("userinfo released for an expired access token", ctx.clone());
                        }
                    }
                    Err(e) => {
                        log.class("userinfo:refused");
                        if s.dead || parent_revoked || expired {
                            log.class("userinfo:refused-after-revocation-or-expiry");
                        } else {
                            log.class(format!("userinfo:refused:{}", e.split('(').next().unwrap_or("")));
                        }
                    }
                }
            }
            Step::RevokeSession | Step::ExpireAccount | Step::ReopenAccount => {
                let mut wr = match w.idms.proxy_write(ct).await {
                    Ok(w) => w,
                    Err(e) => {
                        log.fail("harness: write txn", format!("{e:?}"));
                        break;
                    }
                };
                let ml = match step {
                    Step::RevokeSession => ModifyList::new_list(vec![Modify::Removed(Attribute::UserAuthTokenSession, PartialValue::Refer(w.user_session))]),
                    Step::ExpireAccount => ModifyList::new_purge_and_set(Attribute::AccountExpire, Value::new_datetime_epoch(srv::ct(clock - 1))),
                    _ => ModifyList::new_list(vec![Modify::Purged(Attribute::AccountExpire)]),
                };
                if let Err(e) = wr.qs_write.internal_modify_uuid(w.user, &ml).and_then(|_| wr.commit()) {
                    log.fail("harness: could not change the account", format!("{ctx}: {e:?}"));
                    break;
                }
                match step {
                    Step::RevokeSession => {
                        parent_revoked = true;
                        sess.iter_mut().for_each(|s| s.dead = true);
                        log.class("parent-session-revoked");
                    }
                    Step::ExpireAccount => {
                        expired = true;
                        log.class("account-expired");
                    }
                    _ => {
                        expired = false;
                        log.class("account-reopened");
                    }
                }
            }
        }
        if log.failed() {
            break;
        }
    }
    if ok_exchanges >= 1 && (ok_refreshes >= 1 || parent_revoked || expired) {
        log.nontrivial();
    }
    log.finish()
}

fn tr_scope_narrowed(_toks: &[Tok], _grant: &BTreeSet<String>) -> bool {
    false
}

fn arb_client() -> BoxedStrategy<ClientAuth> {
    prop_oneof![6 => Just(ClientAuth::Right), 1 => Just(ClientAuth::OtherClient), 1 => Just(ClientAuth::WrongSecret), 1 => Just(ClientAuth::NoAuth)].boxed()
}

fn arb_step() -> BoxedStrategy<Step> {
    prop_oneof![
        5 => (0u8..8).prop_map(|pkce| Step::Authorise { pkce }),
        8 => (
            any::<u8>(),
            arb_client(),
            prop_oneof![6 => Just(RedirectMut::Same), 1 => Just(RedirectMut::OtherRegistered), 1 => Just(RedirectMut::NearMiss)],
            prop_oneof![6 => Just(VerMut::Right), 1 => Just(VerMut::Wrong), 1 => Just(VerMut::Missing), 1 => Just(VerMut::Other)]
        )
            .prop_map(|(which, client, redirect, verifier)| Step::ExchangeCode { which, client, redirect, verifier }),
        8 => (
            any::<u8>(),
            proptest::bool::weighted(0.55),
            prop_oneof![4 => Just(ScopeMut::None), 2 => Just(ScopeMut::Same), 2 => Just(ScopeMut::Subset), 1 => Just(ScopeMut::Superset), 1 => Just(ScopeMut::Unrelated)],
            arb_client()
        )
            .prop_map(|(which, newest, scope, client)| Step::Refresh { which, newest, scope, client }),
        5 => any::<u8>().prop_map(|which| Step::Introspect { which }),
        3 => any::<u8>().prop_map(|which| Step::Userinfo { which }),
        1 => Just(Step::RevokeSession),
        1 => Just(Step::ExpireAccount),
        1 => Just(Step::ReopenAccount),
        3 => proptest::sample::select(vec![1u32, 20, 58, 59, 60, 61, 300, 601, 899, 901, 3600, 86_400]).prop_map(|secs| Step::Advance { secs }),
    ]
    .boxed()
}

fn main() {
    let cx = Check::from_args("C39", "exploration");
    cx.rule(
        "random client configurations (as C38) repaired so that one valid request exists; histories of 8..22 steps: obtain a code (with / without PKCE), exchange a code with mutated client \
         (other registered client with its own credentials, wrong secret, no authentication), redirect URI (other registered URI, near miss) and verifier (wrong, missing, another code's), refresh with \
         the newest or an already rotated refresh token and scope requests (none, same, subset, superset, unrelated), introspect, userinfo, revoke the parent session, expire / reopen the account, \
         advance the clock (1 s .. 1 day, around the 60 s code lifetime and the token lifetime). Every success is judged against the harness's ledger. non-trivial = a code was redeemed and then a \
         refresh succeeded or a revocation/expiry happened; distinct by hash of the history",
    );
    cx.assume("code lifetime is judged with the RFC 6749 maximum (600 s) plus monotonicity (once refused as too old, never accepted later)");
    cx.assume("sessions are revoked the way the server's own revoke paths do it (value removal => RevokedAt), so the replication grace window does not apply");
    cx.assume("a refused rotated refresh token is taken as reuse detection only when it is younger than 1 h (refresh tokens live 16 h; older ones may simply have expired)");
    cx.assume("code exchange itself after revocation is not judged (C49 covers it); the tokens it yields must be inactive");
    let n = cx.tier.pick(600, 20_000);
    cx.prop(
        "token-histories",
        PropCfg::new(n).shrink(250),
        || (oa::arb_cfg(), proptest::collection::vec(arb_step(), 8..22)).prop_map(|(cfg, mut steps)| {
            steps.insert(0, Step::Authorise { pkce: 1 });
            Case { cfg, steps }
        }),
        srv::runtime,
        |rt, c| rt.block_on(run(c)),
    );
    // Confidential clients with PKCE made optional: a challenge that WAS sent must still be honoured.
    // (Only ~15% of the generic configurations are of this kind; a seeded change that let such a code be
    // redeemed without any verifier was caught on two seeds out of three before this sub-check existed.)
    let n2 = cx.tier.pick(200, 5_000);
    cx.prop(
        "pkce-optional-clients",
        PropCfg::new(n2).shrink(250),
        || (oa::arb_cfg(), proptest::collection::vec(arb_step(), 8..22)).prop_map(|(mut cfg, mut steps)| {
            cfg.public = false;
            cfg.disable_pkce = true;
            steps.insert(0, Step::Authorise { pkce: 1 });
            Case { cfg, steps }
        }),
        srv::runtime,
        |rt, c| rt.block_on(run(c)),
    );
    // class counts are per case (a class is counted once per history)
    for (c, floor) in [
        ("code-issued", 500),
        ("code-exchange:ok", 200),
        ("code-exchange:refused-mutated-request", 400),
        ("code-exchange:refused(verifier)", 150),
        ("code-exchange:refused(redirect differs)", 150),
        ("code-exchange:refused(wrong client)", 200),
        ("refresh:ok", 80),
        ("refresh:rotated-token-reuse-refused", 8),
        ("introspect:active", 60),
        ("introspect:inactive-after-revocation", 40),
        ("userinfo:released", 40),
    ] {
        cx.require_class(c, floor);
    }
    cx.finish();
}
