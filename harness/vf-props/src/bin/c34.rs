//! C34 — Revoked keys never verify.
//!
//! Two real replicas share one key object (ES256 + HS256 signing, A128GCM encryption). Random
//! histories of rotate (now / future-dated), revoke by key id, sign / encrypt, reload (any change of
//! the key object re-derives the in-memory key set from the stored entry), incremental replication
//! and refresh, clock steps. After every step every token produced so far is verified / decrypted
//! on BOTH replicas.
//!
//! Model (harness): per replica the set of key ids it has been told to revoke (own revocations and
//! those received by successful replication) and the set of key ids it has been given.
//!  * never: a token whose key id a replica knows to be revoked verifies / decrypts there;
//!  * never: the stored record of such a key id says anything but `revoked`;
//!  * signer: the key id of a fresh token is the newest stored non-revoked key of that usage whose
//!    valid_from has started (computed from the stored entry + model, compared both ways);
//!  * rotation keeps old tokens alive: a token whose key id was never revoked anywhere and which
//!    the replica has been given must verify / decrypt there.
use kanidmd_lib::modify::{Modify, ModifyList};
use kanidmd_lib::prelude::*;
use kanidmd_lib::value::Value;
use kanidmd_lib::verif_hooks::repl as hrepl;
use kanidmd_lib::verif_hooks::session::keys as hk;
use proptest::prelude::*;
use serde::{Deserialize, Serialize};
use std::collections::{BTreeMap, BTreeSet};
use vf_core::{pick_idx, CaseLog, Check, Outcome, PropCfg};
use vf_world::g_session as gs;
use vf_world::pop;
use vf_world::repl::{Cluster, ReplResult};
use vf_world::srv::{self, ct};

#[derive(Debug, Clone, Copy, PartialEq, Eq, PartialOrd, Ord, Serialize, Deserialize)]
enum Usage {
    Es256,
    Hs256,
    Jwe,
}
impl Usage {
    fn stored(&self) -> &'static str {
        match self {
            Usage::Es256 => "es256",
            Usage::Hs256 => "hs256",
            Usage::Jwe => "a128gcm",
        }
    }
}

#[derive(Debug, Clone, PartialEq, Eq, Serialize, Deserialize)]
enum Op {
    Rotate { n: u8, delay: u16 },
    /// revoke the key id of token k
    RevokeTokenKey { n: u8, k: u16 },
    /// revoke a stored key of replica n by index (may hit keys no token uses yet, also future keys)
    RevokeStored { n: u8, k: u16 },
    Sign { n: u8, usage: Usage },
    /// touch the key object (forces the in-memory key set to be re-derived from the entry)
    Reload { n: u8 },
    Repl { from: u8, to: u8 },
    Refresh { from: u8, to: u8 },
    Advance { secs: u16 },
}

#[derive(Debug, Clone, Serialize, Deserialize)]
struct Case {
    ops: Vec<Op>,
}

fn arb_usage() -> impl Strategy<Value = Usage> {
    prop_oneof![3 => Just(Usage::Es256), 1 => Just(Usage::Hs256), 2 => Just(Usage::Jwe)]
}

fn arb_op() -> impl Strategy<Value = Op> {
    prop_oneof![
        5 => (0u8..2, prop_oneof![Just(0u16), Just(1u16), 2u16..600]).prop_map(|(n, delay)| Op::Rotate { n, delay }),
        4 => (0u8..2, any::<u16>()).prop_map(|(n, k)| Op::RevokeTokenKey { n, k }),
        2 => (0u8..2, any::<u16>()).prop_map(|(n, k)| Op::RevokeStored { n, k }),
        10 => (0u8..2, arb_usage()).prop_map(|(n, usage)| Op::Sign { n, usage }),
        3 => (0u8..2).prop_map(|n| Op::Reload { n }),
        6 => (0u8..2).prop_map(|from| Op::Repl { from, to: 1 - from }),
        1 => (0u8..2).prop_map(|from| Op::Refresh { from, to: 1 - from }),
        5 => prop_oneof![Just(1u16), Just(2u16), 3u16..700].prop_map(|secs| Op::Advance { secs }),
    ]
}

struct Tok {
    tok: String,
    usage: Usage,
    kid: String,
    payload: Vec<u8>,
}

fn key_uuid() -> Uuid {
    pop::uuid_of(pop::Kind::Other, 0x34)
}

async fn modify_key(cl: &mut Cluster, n: usize, now: u64, m: Modify) -> Result<(), OperationError> {
    let mut w = cl.nodes[n].qs.write(ct(now)).await?;
    w.internal_modify_uuid(key_uuid(), &ModifyList::new_list(vec![m]))?;
    w.commit()
}

async fn stored(cl: &Cluster, n: usize) -> Vec<(String, String, u64, String)> {
    let mut r = cl.nodes[n].qs.read().await.expect("read");
    match r.internal_search_uuid(key_uuid()) {
        Ok(e) => hk::stored_keys(&e),
        Err(_) => Vec::new(),
    }
}

/// Known finding (see known_findings.d/C34.json): a replica that merged a concurrent key-object
/// change keeps the other replica's change id on the merged attribute, so the merge result (the
/// revocation, the replacement key) never travels back to the replica that made the newer change.
const SIG_LOST_MERGE: &str = "key state lost in replication: merged key set carries only the other replica's change id";

/// change id of the key_internal_data attribute on replica n
async fn key_attr_cid(cl: &Cluster, n: usize) -> Option<String> {
    let mut r = cl.nodes[n].qs.read().await.ok()?;
    let e = r.internal_search_uuid(key_uuid()).ok()?;
    vf_world::dump::dump_entry(&e).changes.get("key_internal_data").cloned()
}

/// True when replica n lacks the state of `kid` that the other replica m holds although the key
/// attribute on m (and on n) is stamped with a change id that replica n itself made.
async fn is_lost_merge(cl: &Cluster, n: usize, kid: &str, server_uuids: &[Uuid; 2]) -> bool {
    let m = 1 - n;
    let (sn, sm) = (stored(cl, n).await, stored(cl, m).await);
    let st_n = sn.iter().find(|k| k.0 == kid).map(|k| k.3.clone());
    let st_m = sm.iter().find(|k| k.0 == kid).map(|k| k.3.clone());
    if st_m.is_none() || st_n == st_m {
        return false;
    }
    let (cn, cm) = (key_attr_cid(cl, n).await, key_attr_cid(cl, m).await);
    // replica m holds more key state than n, yet the change id on m's attribute is one that n made
    // (m merged n's newer change and kept n's change id), so m can never supply its own part.
    // (the server uuid is read afresh: a refresh gives the consumer a new one)
    let own = {
        let _ = server_uuids;
        match cl.nodes[n].qs.write(ct(cl.nodes[n].clock)).await {
            Ok(w) => hrepl::server_uuid(&w).to_string(),
            Err(_) => return false,
        }
    };
    match (cn, cm) {
        (Some(a), Some(b)) => a.ends_with(&own) && b.ends_with(&own),
        _ => false,
    }
}

fn run(rt: &tokio::runtime::Runtime, c: &Case) -> Outcome {
    let mut log = CaseLog::new();
    rt.block_on(async {
        let mut cl = Cluster::new(2).await;
        let mut now: u64 = 1000;
        // the shared key object, created on replica 0 and handed to replica 1 by refresh
        {
            let mut e: pop::NewEntry = kanidmd_lib::entry::Entry::new();
            e.add_ava(Attribute::Class, EntryClass::Object.to_value());
            e.add_ava(Attribute::Class, EntryClass::KeyObject.to_value());
            e.add_ava(Attribute::Class, EntryClass::KeyObjectJwtEs256.to_value());
            e.add_ava(Attribute::Class, EntryClass::KeyObjectJwtHs256.to_value());
            e.add_ava(Attribute::Class, EntryClass::KeyObjectJweA128GCM.to_value());
            e.add_ava(Attribute::Uuid, Value::Uuid(key_uuid()));
            let mut w = cl.nodes[0].qs.write(ct(now)).await.expect("write");
            if let Err(err) = w.internal_create(vec![e]).and_then(|_| w.commit()) {
                log.fail("harness: key object creation failed", format!("{err:?}"));
                return;
            }
            now += 1;
            cl.nodes[1].clock = now;
            if let Err(err) = cl.refresh(0, 1).await {
                log.fail("harness: initial refresh failed", format!("{err:?}"));
                return;
            }
        }
        let mut server_uuids = [Uuid::nil(); 2];
        for n in 0..2 {
            let w = cl.nodes[n].qs.write(ct(now)).await.expect("write");
            server_uuids[n] = hrepl::server_uuid(&w);
        }
        let mut known: Option<String> = None;
        // (replica, kid) pairs whose revocation is known to be lost by the known finding
        let mut lost: BTreeSet<(usize, String)> = BTreeSet::new();
        // (replica, kid) pairs of keys the known finding failed to deliver
        let mut missing: BTreeSet<(usize, String)> = BTreeSet::new();
        let mut toks: Vec<Tok> = Vec::new();
        // per replica: key ids it knows to be revoked / key ids it has been given
        let mut revoked: [BTreeSet<String>; 2] = [BTreeSet::new(), BTreeSet::new()];
        let mut given: [BTreeSet<String>; 2] = [BTreeSet::new(), BTreeSet::new()];
        for n in 0..2 {
            for (kid, ..) in stored(&cl, n).await {
                given[n].insert(kid);
            }
        }
        let mut counter: u32 = 0;
        let (mut n_rev, mut n_repl, mut n_rot, mut n_checked_after_rot) = (0, 0, 0, 0);

        for (step, op) in c.ops.iter().enumerate() {
            now = (now + 1).max(cl.nodes[0].clock).max(cl.nodes[1].clock);
            for n in 0..2 {
                cl.nodes[n].clock = now;
            }
            match op {
                Op::Rotate { n, delay } => {
                    let n = *n as usize % 2;
                    let at = now + *delay as u64;
                    if modify_key(&mut cl, n, now, Modify::Present(Attribute::KeyActionRotate, Value::new_datetime_epoch(ct(at)))).await.is_ok() {
                        n_rot += 1;
                        log.class(if *delay > 1 { "op:rotate-future" } else { "op:rotate-now" });
                    }
                }
                Op::RevokeTokenKey { n, k } => {
                    let n = *n as usize % 2;
                    if !toks.is_empty() {
                        let kid = toks[pick_idx(*k, toks.len())].kid.clone();
                        if modify_key(&mut cl, n, now, Modify::Present(Attribute::KeyActionRevoke, Value::HexString(kid.clone()))).await.is_ok() {
                            revoked[n].insert(kid);
                            n_rev += 1;
                            log.class("op:revoke-token-key");
                        } else {
                            log.class("op:revoke-refused");
                        }
                    }
                }
                Op::RevokeStored { n, k } => {
                    let n = *n as usize % 2;
                    // deterministic choice: order by (usage, valid_from, status), never by the random key id
                    let mut keys = stored(&cl, n).await;
                    keys.sort_by(|a, b| (&a.1, a.2, &a.3).cmp(&(&b.1, b.2, &b.3)));
                    if !keys.is_empty() {
                        let kid = keys[pick_idx(*k, keys.len())].0.clone();
                        if modify_key(&mut cl, n, now, Modify::Present(Attribute::KeyActionRevoke, Value::HexString(kid.clone()))).await.is_ok() {
                            revoked[n].insert(kid);
                            n_rev += 1;
                            log.class("op:revoke-stored-key");
                        }
                    }
                }
                Op::Sign { n, usage } => {
                    let n = *n as usize % 2;
                    counter += 1;
                    let payload = format!("payload-{counter}").into_bytes();
                    let keys = stored(&cl, n).await;
                    let r = {
                        let rd = cl.nodes[n].qs.read().await.expect("read");
                        match usage {
                            Usage::Es256 => hk::es256_sign(&rd, key_uuid(), payload.clone(), ct(now)),
                            Usage::Hs256 => hk::hs256_sign(&rd, key_uuid(), payload.clone(), ct(now)),
                            Usage::Jwe => hk::jwe_encrypt(&rd, key_uuid(), payload.clone(), ct(now)),
                        }
                    };
                    // expected signer from the stored records + the model
                    let mut cands: Vec<(u64, &str)> = keys
                        .iter()
                        .filter(|(kid, u, vf, st)| {
                            u == usage.stored() && *vf <= srv::T0_SECS + now && st == "valid" && (!revoked[n].contains(kid) || lost.contains(&(n, kid.clone())))
                        })
                        .map(|(kid, _, vf, _)| (*vf, kid.as_str()))
                        .collect();
                    cands.sort();
                    let top = cands.last().map(|(vf, _)| *vf);
                    let ambiguous = cands.iter().filter(|(vf, _)| Some(*vf) == top).count() > 1;
                    match r {
                        Ok(t) => {
                            let Some(kid) = gs::token_parts(&t).and_then(|p| p.kid) else {
                                log.fail("harness: produced token has no key id", t);
                                return;
                            };
                            if revoked[n].contains(&kid) && !lost.contains(&(n, kid.clone())) {
                                log.fail(
                                    "new token produced with a revoked key",
                                    format!("step {step} {op:?} t={now}: replica {n} signed with kid {kid} which it revoked earlier"),
                                );
                                return;
                            }
                            if !ambiguous {
                                match cands.last() {
                                    Some((_, exp)) if *exp == kid => log.class(format!("signer-is-newest-started:{usage:?}")),
                                    Some((vf, exp)) => {
                                        log.fail(
                                            "signer is not the newest non-revoked started key",
                                            format!("step {step} {op:?} t={now}: replica {n} used kid {kid}, expected {exp} (valid_from {vf}); stored {keys:?}"),
                                        );
                                        return;
                                    }
                                    None => {
                                        log.fail(
                                            "signer is not a stored valid key",
                                            format!("step {step} {op:?} t={now}: replica {n} used kid {kid}; stored {keys:?}"),
                                        );
                                        return;
                                    }
                                }
                            }
                            given[n].insert(kid.clone());
                            toks.push(Tok { tok: t, usage: *usage, kid, payload });
                        }
                        Err(e) => {
                            if !cands.is_empty() {
                                log.fail(
                                    "no signature although a started non-revoked key exists",
                                    format!("step {step} {op:?} t={now}: replica {n} -> {e:?}; stored {keys:?}"),
                                );
                                return;
                            }
                            log.class("sign-refused-no-key");
                        }
                    }
                }
                Op::Reload { n } => {
                    let n = *n as usize % 2;
                    let d = format!("touch {step}");
                    if modify_key(&mut cl, n, now, Modify::Present(Attribute::Description, Value::new_utf8s(&d))).await.is_ok() {
                        log.class("op:reload");
                    }
                }
                Op::Repl { from, to } => {
                    let (f, t) = (*from as usize % 2, *to as usize % 2);
                    if f != t {
                        match cl.replicate(f, t).await {
                            ReplResult::Applied => {
                                let (rf, gf) = (revoked[f].clone(), given[f].clone());
                                revoked[t].extend(rf);
                                given[t].extend(gf);
                                n_repl += 1;
                                log.class("op:replication-applied");
                                // Delivery audit at the moment of replication: key state the supplier
                                // holds and the consumer still lacks is either the known finding
                                // (classified by the change ids, excluded from further judgement until
                                // it arrives) or is left to the token checks below.
                                let (sf, st) = (stored(&cl, f).await, stored(&cl, t).await);
                                for (kid, _, _, status_f) in &sf {
                                    let status_t = st.iter().find(|k| &k.0 == kid).map(|k| k.3.as_str());
                                    if status_t == Some(status_f.as_str()) || status_t == Some("revoked") {
                                        continue;
                                    }
                                    if is_lost_merge(&cl, t, kid, &server_uuids).await {
                                        if status_f == "revoked" {
                                            lost.insert((t, kid.clone()));
                                        } else {
                                            missing.insert((t, kid.clone()));
                                        }
                                        known.get_or_insert(format!(
                                            "after step {step} {op:?}: replica {f} holds kid {kid} as {status_f}, replica {t} has {status_t:?} after an applied replication; change ids {:?} / {:?}",
                                            key_attr_cid(&cl, f).await,
                                            key_attr_cid(&cl, t).await
                                        ));
                                        log.class("known-finding:lost-merge");
                                    }
                                }
                            }
                            ReplResult::NoChanges => log.class("op:replication-nochange"),
                            o => log.class(format!("op:replication-{}", format!("{o:?}").split('(').next().unwrap_or("other"))),
                        }
                    }
                }
                Op::Refresh { from, to } => {
                    let (f, t) = (*from as usize % 2, *to as usize % 2);
                    if f != t && cl.refresh(f, t).await.is_ok() {
                        revoked[t] = revoked[f].clone();
                        given[t] = given[f].clone();
                        lost = lost.iter().filter(|(n, _)| *n == f).flat_map(|(_, k)| [(f, k.clone()), (t, k.clone())]).collect();
                        missing = missing.iter().filter(|(n, _)| *n == f).flat_map(|(_, k)| [(f, k.clone()), (t, k.clone())]).collect();
                        log.class("op:refresh");
                    }
                }
                Op::Advance { secs } => now += *secs as u64,
            }
            if std::env::var("VERIF_DEBUG").is_ok() {
                println!("--- step {step} {op:?} now={now}");
                for n in 0..2 {
                    println!("  node {n}: cid {:?} keys {:?}", key_attr_cid(&cl, n).await, stored(&cl, n).await.iter().filter(|k| k.1 == "es256").collect::<Vec<_>>());
                }
            }
            // keys a replica creates by itself (rotation, replacement after revoke) count as given
            for n in 0..2 {
                for (kid, ..) in stored(&cl, n).await {
                    missing.remove(&(n, kid.clone()));
                    given[n].insert(kid);
                }
            }
            let revoked_anywhere: BTreeSet<&String> = revoked[0].iter().chain(revoked[1].iter()).collect();

            // ---- verify / decrypt everything on both replicas; check stored status
            for n in 0..2 {
                let keys: BTreeMap<String, String> = stored(&cl, n).await.into_iter().map(|(k, _, _, st)| (k, st)).collect();
                for kid in &revoked[n] {
                    if let Some(st) = keys.get(kid) {
                        if st == "revoked" {
                            lost.remove(&(n, kid.clone()));
                        } else if lost.contains(&(n, kid.clone())) {
                            continue;
                        } else if is_lost_merge(&cl, n, kid, &server_uuids).await {
                            lost.insert((n, kid.clone()));
                            known.get_or_insert(format!(
                                "after step {step} {op:?}: replica {n} stores kid {kid} as {st}, replica {} stores it as revoked, both under change id {:?}",
                                1 - n,
                                key_attr_cid(&cl, n).await
                            ));
                            log.class("known-finding:lost-merge");
                        } else {
                            log.fail(
                                "revoked key stored with a non-revoked status",
                                format!("after step {step} {op:?}: replica {n} stores kid {kid} as {st}"),
                            );
                            return;
                        }
                    }
                }
                // one read transaction at a time (the in-memory backend has a single connection)
                let results: Vec<Result<Vec<u8>, OperationError>> = {
                    let rd = cl.nodes[n].qs.read().await.expect("read");
                    toks.iter()
                        .map(|t| match t.usage {
                            Usage::Jwe => hk::jwe_decrypt(&rd, key_uuid(), &t.tok),
                            _ => hk::jws_verify(&rd, key_uuid(), &t.tok),
                        })
                        .collect()
                };
                for ((i, t), r) in toks.iter().enumerate().zip(results.into_iter()) {
                    let ok = matches!(&r, Ok(p) if *p == t.payload);
                    if r.is_ok() && !ok {
                        log.fail("token verified to a different payload", format!("token #{i} on replica {n}"));
                        return;
                    }
                    if lost.contains(&(n, t.kid.clone())) {
                        log.class("not-judged (known finding: revocation lost in merge)");
                    } else if revoked[n].contains(&t.kid) {
                        if ok {
                            log.fail(
                                format!("token of a revoked key accepted ({:?})", t.usage),
                                format!("after step {step} {op:?} t={now}: replica {n} accepts token #{i} (kid {}) although it knows the key as revoked", t.kid),
                            );
                            return;
                        }
                        log.class(format!("revoked-rejected:{:?}", t.usage));
                    } else if missing.contains(&(n, t.kid.clone())) {
                        log.class("not-judged (known finding: key not delivered by merge)");
                    } else if !revoked_anywhere.contains(&t.kid) && given[n].contains(&t.kid) {
                        if !ok && is_lost_merge(&cl, n, &t.kid, &server_uuids).await {
                            known.get_or_insert(format!(
                                "after step {step} {op:?}: replica {n} lacks key {} that replica {} holds, both under change id {:?}",
                                t.kid,
                                1 - n,
                                key_attr_cid(&cl, n).await
                            ));
                            given[n].remove(&t.kid);
                            log.class("known-finding:lost-merge");
                            continue;
                        }
                        if !ok {
                            log.fail(
                                format!("token of a live key refused ({:?})", t.usage),
                                format!("after step {step} {op:?} t={now}: replica {n} refuses token #{i} (kid {}): {:?}; stored {keys:?}", t.kid, r.err()),
                            );
                            return;
                        }
                        if n_rot > 0 {
                            n_checked_after_rot += 1;
                        }
                        log.class(format!("live-accepted:{:?}", t.usage));
                    } else {
                        log.class("not-judged (revocation or key not yet replicated here)");
                    }
                }
            }
        }
        if n_rev > 0 && n_repl > 0 && n_checked_after_rot > 0 {
            log.nontrivial();
        }
        if n_rev > 0 && n_repl > 0 {
            log.class("history:revoke+replication");
        }
        if let Some(msg) = known {
            log.fail(SIG_LOST_MERGE, msg);
        }
    });
    log.finish()
}

fn main() {
    let cx = Check::from_args("C34", "exploration");
    cx.rule(
        "random histories (quick 8-40 ops) on 2 replicas sharing one key object (ES256, HS256, A128GCM): rotate now/future-dated, revoke by key id (of a token or of any stored key), sign/encrypt, touch (re-derive key set from the entry), \
         incremental replication, refresh, clock steps; after every op all tokens are verified/decrypted on both replicas. non-trivial = at least one revocation, one applied replication and one token checked after a rotation; distinct by hash of the history",
    );
    cx.assume("a replica is only expected to refuse a revoked key once it has been told (own revocation, applied incremental replication, or refresh from a replica that knew)");
    cx.assume("restart on the same database file is represented by the re-derivation of the in-memory key set from the stored entry that every key-object change and every replication apply performs; OAuth2 client and sync-token key objects use the same key object code and are not driven separately");
    cx.assume("when two stored keys of a usage share the newest valid_from the expected signer is not judged");
    let n = cx.tier.pick(300, 8_000);
    let len = cx.tier.pick(8..41usize, 10..100usize);
    cx.prop(
        "key-histories",
        PropCfg::new(n).shrink(250),
        || prop::collection::vec(arb_op(), len.clone()).prop_map(|ops| Case { ops }),
        srv::runtime,
        |rt, c| run(rt, c),
    );
    for (l, floor) in [
        ("revoked-rejected:Es256", 50),
        ("revoked-rejected:Jwe", 20),
        ("revoked-rejected:Hs256", 10),
        ("live-accepted:Es256", 100),
        ("live-accepted:Jwe", 50),
        ("signer-is-newest-started:Es256", 100),
        ("op:rotate-future", 50),
        ("op:replication-applied", 100),
        ("history:revoke+replication", 50),
    ] {
        cx.require_class(l, floor);
    }
    cx.finish();
}
