//! C04 — Failed or abandoned write transactions leave no trace.
//!
//! Fault enumeration: for each transaction template, EVERY storage statement reached by the
//! transaction (operations, reloads and the whole commit path down to SQLite COMMIT) is made to fail
//! once; separately the transaction is abandoned at every operation boundary. Oracle: a snapshot of
//! everything readers use (canonical dump of all stored entries + schema, access decision, domain
//! display name, loaded key ids, OAuth2 client configuration served by the IDM layer) taken before,
//! is identical after the failed/abandoned transaction; the database file (own raw SQLite dump) is
//! unchanged; the next transactions work; a server reopened on the file shows the same snapshot.
use kanidmd_lib::prelude::*;
use kanidmd_lib::verif_hooks::fault::{self as hfault, Plan};
use proptest::prelude::*;
use proptest::strategy::ValueTree;
use proptest::test_runner::{Config, RngAlgorithm, RngSeed, TestRunner};
use serde::{Deserialize, Serialize};
use std::time::Duration;
use vf_core::{Check, Outcome};
use vf_world::dump::{self, DiffOpts};
use vf_world::g_fault::{self, Scratch, Snapshot, Srv, TOp, Template};
use vf_world::ops::{AttrK, Op, Ref};
use vf_world::srv::{self, ct};

#[derive(Debug, Clone, Serialize, Deserialize)]
struct FaultCase {
    /// 0 = template database at the target domain level, 1 = at the previous level (for DomainRaise)
    #[serde(default)]
    base: u8,
    ops: Vec<TOp>,
    /// 1-based index of the storage point that fails; 0 = fault-free run
    n: u32,
    /// when set, `n` is resolved by a dry run: the first storage point with this name
    #[serde(default)]
    at: Option<String>,
}

#[derive(Debug, Clone, Serialize, Deserialize)]
struct DropCase {
    #[serde(default)]
    base: u8,
    ops: Vec<TOp>,
    /// abandon after this many operations
    b: u32,
}

// ---------------------------------------------------------------------------------------------
// templates

fn fixed_templates() -> Vec<Vec<TOp>> {
    vec![
        // entry create / modify / delete
        vec![TOp::E(Op::CreatePerson { i: 3, name: 9 })],
        vec![TOp::E(Op::SetAttr { t: Ref::G(2), attr: AttrK::Description, vals: vec![1] })],
        vec![TOp::E(Op::AddMember { g: Ref::G(2), m: Ref::P(2) })],
        vec![TOp::E(Op::Delete { t: Ref::P(2) })],
        vec![TOp::E(Op::Rename { t: Ref::P(1), name: 10 })],
        // schema
        vec![TOp::SchemaAttr { n: 1, indexed: true }],
        vec![TOp::SchemaClass { n: 2, with_attr: false }],
        // access controls
        vec![TOp::AcpAddAttr { attr: 0 }],
        vec![TOp::AcpCreate { n: 0, attr: 1 }],
        vec![TOp::AcpDelete],
        // OAuth2 client configuration
        vec![TOp::E(Op::CreateOAuth2 { i: 1, name: 7, group: Ref::G(1) })],
        vec![TOp::OAuth2Pkce { i: 0, disable: true }],
        vec![TOp::E(Op::SetScopeMap { o: 0, group: Ref::G(1) })],
        // domain settings
        vec![TOp::DomainDisplay { v: 1 }],
        // key material
        vec![TOp::KeyRotate { i: 0 }],
        // mixes
        vec![
            TOp::E(Op::CreateGroup { i: 3, name: 11, members: vec![Ref::P(0), Ref::G(1)] }),
            TOp::AcpAddAttr { attr: 1 },
            TOp::DomainDisplay { v: 2 },
        ],
        vec![TOp::SchemaAttr { n: 3, indexed: false }, TOp::E(Op::Delete { t: Ref::G(0) }), TOp::KeyRotate { i: 0 }],
        // operation-level failure in the middle (never reaches commit)
        vec![
            TOp::DomainDisplay { v: 1 },
            TOp::AcpAddAttr { attr: 0 },
            TOp::E(Op::BadUnknownClass { t: Ref::P(0) }),
            TOp::E(Op::CreatePerson { i: 3, name: 9 }),
        ],
    ]
}

fn known_reproductions() -> Vec<FaultCase> {
    let fc = |base: u8, ops: Vec<TOp>, at: &str| FaultCase { base, ops, n: 1, at: Some(at.to_string()) };
    vec![
        fc(1, vec![TOp::DomainRaise], "write_db_ruv"),
        fc(0, vec![TOp::AcpAddAttr { attr: 0 }], "write_db_ruv"),
        fc(0, vec![TOp::DomainDisplay { v: 1 }], "write_db_ruv"),
        fc(0, vec![TOp::KeyRotate { i: 0 }], "write_db_ruv"),
        fc(0, vec![TOp::OAuth2Pkce { i: 0, disable: true }], "write_db_ruv"),
        fc(0, vec![TOp::OAuth2Pkce { i: 0, disable: true }], "set_db_ts_max"),
        fc(0, vec![TOp::E(Op::SetAttr { t: Ref::G(2), attr: AttrK::Description, vals: vec![1] })], "commit_exec"),
    ]
}

fn arb_top() -> impl Strategy<Value = TOp> {
    let r = prop_oneof![(0u8..4).prop_map(Ref::P), (0u8..4).prop_map(Ref::G)];
    let g = (0u8..4).prop_map(Ref::G);
    prop_oneof![
        2 => (0u8..2, 8u8..14).prop_map(|(i, name)| TOp::E(Op::CreatePerson { i: 3 + i, name })),
        2 => (r.clone(), 0u8..4).prop_map(|(t, v)| TOp::E(Op::SetAttr { t, attr: AttrK::Description, vals: vec![v] })),
        2 => (g.clone(), r.clone()).prop_map(|(g, m)| TOp::E(Op::AddMember { g, m })),
        1 => (g.clone(), r.clone()).prop_map(|(g, m)| TOp::E(Op::RemoveMember { g, m })),
        1 => r.clone().prop_map(|t| TOp::E(Op::Delete { t })),
        1 => (r.clone(), 8u8..14).prop_map(|(t, name)| TOp::E(Op::Rename { t, name })),
        1 => (0u8..4, any::<bool>()).prop_map(|(n, indexed)| TOp::SchemaAttr { n, indexed }),
        1 => (0u8..4, any::<bool>()).prop_map(|(n, with_attr)| TOp::SchemaClass { n, with_attr }),
        2 => (0u8..4).prop_map(|attr| TOp::AcpAddAttr { attr }),
        1 => (0u8..3, 0u8..4).prop_map(|(n, attr)| TOp::AcpCreate { n, attr }),
        1 => Just(TOp::AcpDelete),
        1 => g.clone().prop_map(|group| TOp::E(Op::CreateOAuth2 { i: 1, name: 7, group })),
        1 => any::<bool>().prop_map(|disable| TOp::OAuth2Pkce { i: 0, disable }),
        1 => g.prop_map(|group| TOp::E(Op::SetScopeMap { o: 0, group })),
        2 => (0u8..3).prop_map(|v| TOp::DomainDisplay { v }),
        1 => Just(TOp::KeyRotate { i: 0 }),
        1 => r.prop_map(|t| TOp::E(Op::BadSingleMulti { t })),
    ]
}

fn random_templates(seed: u64, count: usize) -> Vec<Vec<TOp>> {
    let mut config = Config::default();
    config.rng_algorithm = RngAlgorithm::ChaCha;
    config.rng_seed = RngSeed::Fixed(seed ^ 0xC04C_04C0_4C04);
    config.failure_persistence = None;
    let mut runner = TestRunner::new(config);
    let strat = proptest::collection::vec(arb_top(), 1..5);
    (0..count)
        .map(|_| strat.new_tree(&mut runner).expect("tree").current())
        .collect()
}

// ---------------------------------------------------------------------------------------------
// running

struct Refs {
    /// snapshot of a server reopened (at CT_REOPEN) on the untouched template database after the
    /// follow-up transaction of `next_txn_works`: what a reopened server must show when the
    /// failed transaction left nothing behind
    reopened: Snapshot,
    /// the same without the follow-up transaction
    reopened_plain: Snapshot,
    /// entries the start-up sequence itself rewrites on every start
    startup_touched: Vec<Uuid>,
}
struct Base {
    level: u32,
    tpl: Template,
    refs: Refs,
}
type St = (tokio::runtime::Runtime, Vec<Option<Base>>);

fn level_of(base: u8) -> u32 {
    if base == 0 {
        DOMAIN_TGT_LEVEL
    } else {
        DOMAIN_PREVIOUS_TGT_LEVEL
    }
}

fn init() -> St {
    (srv::runtime(), vec![None, None])
}

fn base_of<'a>(rt: &tokio::runtime::Runtime, bases: &'a mut [Option<Base>], base: u8) -> &'a Base {
    let slot = &mut bases[(base as usize).min(1)];
    if slot.is_none() {
        *slot = Some(build_base(rt, level_of(base)));
    }
    slot.as_ref().expect("base")
}

fn build_base(rt: &tokio::runtime::Runtime, level: u32) -> Base {
    let tpl = Template::build_level(rt, level, g_fault::populate);
    let scratch = Scratch::new();
    let file = scratch.file("ref.db");
    tpl.instantiate(&file);
    let s = rt.block_on(g_fault::open_srv_level(Some(&file), 2, ct(CT_OPEN), level)).expect("ref open");
    let before = rt.block_on(g_fault::snapshot(&s)).expect("ref snapshot");
    let mut f = Vec::new();
    next_txn_works(rt, &s, &mut f, "reference");
    assert!(f.is_empty(), "reference follow-up transaction failed: {}", f[0].msg);
    drop(s);
    let s2 = rt.block_on(g_fault::open_srv_level(Some(&file), 2, ct(CT_REOPEN), level)).expect("ref reopen");
    let reopened = rt.block_on(g_fault::snapshot(&s2)).expect("ref snapshot 2");
    let startup_touched = reopened
        .dump
        .iter()
        .filter(|(u, e)| before.dump.get(*u) != Some(*e))
        .map(|(u, _)| *u)
        .collect();
    let file2 = scratch.file("ref2.db");
    tpl.instantiate(&file2);
    let s = rt.block_on(g_fault::open_srv_level(Some(&file2), 2, ct(CT_OPEN), level)).expect("ref open");
    drop(s);
    let s2 = rt.block_on(g_fault::open_srv_level(Some(&file2), 2, ct(CT_REOPEN), level)).expect("ref reopen");
    let reopened_plain = rt.block_on(g_fault::snapshot(&s2)).expect("ref snapshot 3");
    drop(s2);
    Base { level, tpl, refs: Refs { reopened, reopened_plain, startup_touched } }
}

const CT_OPEN: u64 = 10;
const CT_TXN: u64 = 100;
const CT_NEXT: u64 = 200;
const CT_REOPEN: u64 = 300;

async fn run_txn(s: &Srv, ops: &[TOp], upto: usize, commit: bool, when: Duration) -> Result<(), OperationError> {
    let mut pw = s.idms.proxy_write(when).await?;
    for op in ops.iter().take(upto) {
        g_fault::apply_top(&mut pw.qs_write, op, when)?;
    }
    if commit {
        pw.commit()
    } else {
        drop(pw);
        Ok(())
    }
}

struct Finding {
    sig: String,
    msg: String,
}

/// Compare two snapshots; every difference is a finding of the given flavour.
fn compare(flavour: &str, before: &Snapshot, after: &Snapshot, skip: &[Uuid], out: &mut Vec<Finding>, ctx: &str) {
    // a comparison of a running server with a reopened one ("reopened server disagrees" / "memory and
    // disk disagree") must tolerate the change identifiers the start-up sequence itself adds
    let vs_reopened = flavour.contains("disagree");
    for (kind, detail) in g_fault::settings_diff(&before.settings, &after.settings) {
        if vs_reopened && kind == "replication update vector" {
            let live: std::collections::BTreeSet<&String> = before.settings.ruv.iter().collect();
            let re: std::collections::BTreeSet<&String> = after.settings.ruv.iter().collect();
            if live.is_subset(&re) {
                continue;
            }
        }
        out.push(Finding {
            sig: format!("{flavour}: {kind} differ from the state before"),
            msg: format!("{ctx}: {kind}: {detail}"),
        });
    }
    let mut b = before.dump.clone();
    let mut a = after.dump.clone();
    for u in skip {
        b.remove(u);
        a.remove(u);
    }
    let d = dump::diff(&b, &a, &DiffOpts { skip_attrs: &[], ids: true, changestate: true });
    if !d.is_empty() {
        out.push(Finding {
            sig: format!("{flavour}: stored entries differ from the state before"),
            msg: format!("{ctx}: {:?}", &d[..d.len().min(5)]),
        });
    }
}

/// Which part of the transaction the failing point belongs to.
fn phase(trace: &[&'static str], fired_idx: usize) -> &'static str {
    let upto = &trace[..fired_idx.min(trace.len())];
    if upto.iter().any(|n| *n == "write_db_ruv") {
        // write_db_ruv is the first statement of BackendWriteTransaction::commit
        if upto.iter().any(|n| *n == "commit") {
            "sqlite-commit"
        } else {
            "backend-commit"
        }
    } else if fired_idx >= 1 && upto.last() == Some(&"set_db_ts_max") {
        // the first storage statement of QueryServerWriteTransaction::commit
        "qs-commit-entry"
    } else {
        "operations-or-reload"
    }
}

fn report(cx: &Check, findings: Vec<Finding>, pass: Outcome) -> Outcome {
    if findings.is_empty() {
        return pass;
    }
    // report an unknown finding first so that known ones cannot mask it
    let f = findings.iter().find(|f| !cx.is_known(&f.sig)).unwrap_or(&findings[0]);
    let all: Vec<&str> = findings.iter().map(|f| f.sig.as_str()).collect();
    let mut o = Outcome::fail(f.sig.clone(), format!("{} [all findings of this case: {all:?}]", f.msg));
    o.classes = pass.classes;
    o
}

/// The server still works: a reader and a writer can be open at the same time (pool of 2), the
/// write commits and is visible.
fn next_txn_works(rt: &tokio::runtime::Runtime, s: &Srv, findings: &mut Vec<Finding>, ctx: &str) -> bool {
    let r: Result<(), String> = rt.block_on(async {
        let rd = s.qs.read().await.map_err(|e| format!("read: {e:?}"))?;
        let mut w = s.qs.write(ct(CT_NEXT)).await.map_err(|e| format!("write while a reader is open: {e:?}"))?;
        g_fault::apply_top(
            &mut w,
            &TOp::E(Op::SetAttr { t: Ref::G(2), attr: AttrK::LegalName, vals: vec![] }),
            ct(CT_NEXT),
        )
        .ok();
        g_fault::apply_top(
            &mut w,
            &TOp::E(Op::SetAttr { t: Ref::G(2), attr: AttrK::Description, vals: vec![3] }),
            ct(CT_NEXT),
        )
        .map_err(|e| format!("modify: {e:?}"))?;
        w.commit().map_err(|e| format!("commit: {e:?}"))?;
        drop(rd);
        let mut rd = s.qs.read().await.map_err(|e| format!("read: {e:?}"))?;
        let e = rd.internal_search_uuid(Ref::G(2).uuid()).map_err(|e| format!("search: {e:?}"))?;
        if dump::proto_values(&e, Attribute::Description) != vec!["Zed".to_string()] {
            return Err("committed change not visible".into());
        }
        Ok(())
    });
    if let Err(e) = r {
        let sig = if ctx.contains("`commit_exec`") {
            SIG_CONN_LOST
        } else {
            "after a failed transaction the server cannot serve a reader and the next writer"
        };
        findings.push(Finding {
            sig: sig.into(),
            msg: format!("{ctx}: {e}"),
        });
        return false;
    }
    true
}

/// Known finding (one signature per kind of state): QueryServerWriteTransaction::commit and
/// IdmServerProxyWriteTransaction::commit publish the in-memory state before be_txn.commit().
const FLAVOUR_PUBLISHED: &str = "storage failure inside the backend commit (after the in-memory publication step): readers of the running server see changes";

/// Known finding (OAuth2 client configuration only): IdmServerProxyWriteTransaction::commit publishes
/// the IDM-layer state before calling qs_write.commit() at all.
const FLAVOUR_IDM_PUBLISHED: &str = "storage failure on entering the query server commit (after the IDM-layer publication step): readers of the running server see changes";

/// Known finding: `IdlSqliteWriteTransaction::commit` drops the connection when COMMIT fails
/// instead of returning it to the pool.
const SIG_CONN_LOST: &str = "a failed SQLite COMMIT removes its connection from the pool: a reader and the next writer can no longer be served together";

fn run_fault(cx: &Check, st: &mut St, c: &FaultCase) -> Outcome {
    let (rt, bases) = st;
    let rt = &*rt;
    let Base { level, tpl, refs } = base_of(rt, bases, c.base);
    let level = *level;
    // reopening happens at the level the database is at after a successful commit
    let level_after = if c.ops.contains(&TOp::DomainRaise) { DOMAIN_TGT_LEVEL } else { level };
    let scratch = Scratch::new();
    let file = scratch.file("c04.db");
    tpl.instantiate(&file);
    let s = match rt.block_on(g_fault::open_srv_level(Some(&file), 2, ct(CT_OPEN), level)) {
        Ok(s) => s,
        Err(e) => {
            cx.inconclusive(&format!("harness: cannot open server: {e:?}"));
            return Outcome::discard();
        }
    };
    let before = rt.block_on(g_fault::snapshot(&s)).expect("snapshot before");
    let raw_before = g_fault::raw_dump(&file).expect("raw before");

    let mut n = c.n;
    if let Some(name) = &c.at {
        // resolve the named point by a fault-free run on another copy
        let file2 = scratch.file("c04-dry.db");
        tpl.instantiate(&file2);
        let s2 = rt.block_on(g_fault::open_srv_level(Some(&file2), 2, ct(CT_OPEN), level)).expect("open dry");
        hfault::arm(Plan::Count);
        let _ = rt.block_on(run_txn(&s2, &c.ops, c.ops.len(), true, ct(CT_TXN)));
        let rep = hfault::disarm();
        match rep.trace.iter().position(|p| p == name) {
            Some(i) => n = i as u32 + 1,
            None => {
                cx.inconclusive(&format!("harness: storage point {name} not reached by {:?}", c.ops));
                return Outcome::discard();
            }
        }
    }
    hfault::arm(if n == 0 { Plan::Count } else { Plan::FailAt(n as u64) });
    let res = rt.block_on(run_txn(&s, &c.ops, c.ops.len(), true, ct(CT_TXN)));
    let rep = hfault::disarm();

    let mut findings = Vec::new();
    let mut out = Outcome::pass(false);
    match (&rep.fired, &res) {
        (Some((idx, name)), _) if *name == "commit_done" => {
            // the SQLite COMMIT has already succeeded here; an error at this point is not a storage
            // failure of the commit (the point exists for crash injection only)
            let _ = idx;
            return Outcome::discard().class("skipped:after-sqlite-commit");
        }
        (Some((idx, name)), Err(_)) => {
            let ph = phase(&rep.trace, *idx as usize);
            let ctx = format!("template {:?}, storage point #{idx} `{name}` ({ph}) failed", c.ops);
            out = out.class(format!("fault:{ph}")).class(format!("point:{name}"));
            let after = rt.block_on(g_fault::snapshot(&s)).expect("snapshot after");
            let flavour = if ph == "operations-or-reload" {
                "storage failure before the commit publication step, yet readers of the running server see changes"
            } else if ph == "qs-commit-entry" {
                FLAVOUR_IDM_PUBLISHED
            } else {
                FLAVOUR_PUBLISHED
            };
            compare(flavour, &before, &after, &[], &mut findings, &ctx);
            let raw_after = g_fault::raw_dump(&file).expect("raw after");
            let rd = g_fault::raw_diff(&raw_before, &raw_after);
            if !rd.is_empty() {
                findings.push(Finding {
                    sig: "after a failed commit the database file content changed".into(),
                    msg: format!("{ctx}: {:?}", &rd[..rd.len().min(4)]),
                });
            }
            let next_ok = next_txn_works(rt, &s, &mut findings, &ctx);
            drop(s);
            match rt.block_on(g_fault::open_srv_level(Some(&file), 2, ct(CT_REOPEN), level)) {
                Ok(s2) => {
                    let re = rt.block_on(g_fault::snapshot(&s2)).expect("snapshot reopened");
                    let reference = if next_ok { &refs.reopened } else { &refs.reopened_plain };
                    compare("after a failed commit, a server reopened on the database shows changes", reference, &re, &[], &mut findings, &ctx);
                }
                Err(e) => findings.push(Finding {
                    sig: "after a failed commit the database cannot be reopened".into(),
                    msg: format!("{ctx}: {e:?}"),
                }),
            }
            if ph == "backend-commit" || ph == "sqlite-commit" {
                out.nontrivial = true;
            }
        }
        (Some((idx, name)), Ok(())) => {
            // commit reported success although a storage statement failed: then the transaction
            // must be completely visible, in memory and on disk alike
            let ctx = format!("template {:?}, storage point #{idx} `{name}` failed but commit returned Ok", c.ops);
            out = out.class("fault-swallowed");
            let live = rt.block_on(g_fault::snapshot(&s)).expect("snapshot");
            drop(s);
            let s2 = rt.block_on(g_fault::open_srv_level(Some(&file), 2, ct(CT_REOPEN), level_after)).expect("reopen");
            let re = rt.block_on(g_fault::snapshot(&s2)).expect("snapshot reopened");
            compare("commit reported success after a storage failure but memory and disk disagree", &live, &re, &refs.startup_touched, &mut findings, &ctx);
            if live == before {
                findings.push(Finding {
                    sig: "commit reported success after a storage failure but nothing became visible".into(),
                    msg: ctx,
                });
            }
        }
        (None, Ok(())) => {
            // fault-free (or n beyond the last point): the commit must be visible and durable
            let ctx = format!("template {:?}, no fault", c.ops);
            out = out.class("no-fault-commit");
            let live = rt.block_on(g_fault::snapshot(&s)).expect("snapshot");
            for (kind, _) in g_fault::settings_diff(&before.settings, &live.settings) {
                out = out.class(format!("effect:{kind}"));
            }
            if live.dump != before.dump {
                out = out.class("effect:entries");
            }
            if live == before {
                out = out.class("effect:none");
            }
            drop(s);
            let s2 = rt.block_on(g_fault::open_srv_level(Some(&file), 2, ct(CT_REOPEN), level_after)).expect("reopen");
            let re = rt.block_on(g_fault::snapshot(&s2)).expect("snapshot reopened");
            // the start-up sequence at the raised level rewrites many more entries than at the old one
            let skip: Vec<Uuid> = if c.ops.contains(&TOp::DomainRaise) {
                live.dump.keys().chain(re.dump.keys()).cloned().collect()
            } else {
                refs.startup_touched.clone()
            };
            compare("after a successful commit a reopened server disagrees with the running one", &live, &re, &skip, &mut findings, &ctx);
            out = out.sample(serde_json::json!({"template": c.ops, "storage_points": rep.count, "trace": rep.trace}));
        }
        (None, Err(e)) => {
            // the template fails by itself (ill-typed operation): nothing may remain
            let ctx = format!("template {:?} rejected with {e:?}", c.ops);
            out = out.class("operation-rejected");
            let after = rt.block_on(g_fault::snapshot(&s)).expect("snapshot after");
            compare("after a rejected operation, readers of the running server see changes", &before, &after, &[], &mut findings, &ctx);
            next_txn_works(rt, &s, &mut findings, &ctx);
            if c.ops.len() > 1 {
                out.nontrivial = true;
            }
        }
    }
    report(cx, findings, out)
}

fn run_drop(cx: &Check, st: &mut St, c: &DropCase) -> Outcome {
    let (rt, bases) = st;
    let rt = &*rt;
    let Base { level, tpl, .. } = base_of(rt, bases, c.base);
    let level = *level;
    let scratch = Scratch::new();
    let file = scratch.file("c04d.db");
    tpl.instantiate(&file);
    let s = match rt.block_on(g_fault::open_srv_level(Some(&file), 2, ct(CT_OPEN), level)) {
        Ok(s) => s,
        Err(e) => {
            cx.inconclusive(&format!("harness: cannot open server: {e:?}"));
            return Outcome::discard();
        }
    };
    let before = rt.block_on(g_fault::snapshot(&s)).expect("snapshot before");
    let raw_before = g_fault::raw_dump(&file).expect("raw before");
    let res = rt.block_on(run_txn(&s, &c.ops, c.b as usize, false, ct(CT_TXN)));
    let mut findings = Vec::new();
    let ctx = format!("template {:?} abandoned after {} operations ({res:?})", c.ops, c.b);
    let after = rt.block_on(g_fault::snapshot(&s)).expect("snapshot after");
    compare("after an abandoned transaction, readers of the running server see changes", &before, &after, &[], &mut findings, &ctx);
    let raw_after = g_fault::raw_dump(&file).expect("raw after");
    let rd = g_fault::raw_diff(&raw_before, &raw_after);
    if !rd.is_empty() {
        findings.push(Finding {
            sig: "after an abandoned transaction the database file content changed".into(),
            msg: format!("{ctx}: {:?}", &rd[..rd.len().min(4)]),
        });
    }
    next_txn_works(rt, &s, &mut findings, &ctx);
    let out = Outcome::pass(c.b > 0 && res.is_ok()).class(if res.is_ok() { "abandoned" } else { "abandoned-after-rejected-op" });
    report(cx, findings, out)
}

/// Number of storage points each template reaches in a fault-free run.
fn count_points(templates: &[(u8, Vec<TOp>)], threads: usize) -> Vec<u32> {
    let next = std::sync::atomic::AtomicUsize::new(0);
    let out = std::sync::Mutex::new(vec![0u32; templates.len()]);
    std::thread::scope(|sc| {
        for _ in 0..threads.max(1) {
            sc.spawn(|| {
                let (rt, mut bases) = init();
                loop {
                    let i = next.fetch_add(1, std::sync::atomic::Ordering::SeqCst);
                    if i >= templates.len() {
                        break;
                    }
                    let scratch = Scratch::new();
                    let file = scratch.file("count.db");
                    let (base, ops) = &templates[i];
                    let b = base_of(&rt, &mut bases, *base);
                    b.tpl.instantiate(&file);
                    let s = rt.block_on(g_fault::open_srv_level(Some(&file), 2, ct(CT_OPEN), b.level)).expect("open");
                    hfault::arm(Plan::Count);
                    let _ = rt.block_on(run_txn(&s, ops, ops.len(), true, ct(CT_TXN)));
                    let rep = hfault::disarm();
                    out.lock().unwrap()[i] = rep.count as u32;
                }
            });
        }
    });
    out.into_inner().unwrap()
}

fn main() {
    let cx = Check::from_args("C04", "fault_enumeration");
    g_fault::sweep_stale_scratch();
    cx.rule(
        "transaction templates = 18 hand-written ones covering every kind the property names (entry create/modify/delete/rename, schema attribute and class creation, \
         access-control profile create/modify/delete, OAuth2 client create/modify, domain display name, key rotation, multi-op mixes, an ill-typed op in the middle) \
         + seed-generated random mixes of 1..4 such operations; each runs through the IDM write transaction on a fresh byte-identical copy of a populated file-backed database. \
         Sub-check fault-points enumerates EVERY (template, n): the n-th storage statement reached by the transaction (all IdlSqliteWriteTransaction mutators, commit entry, SQLite COMMIT) returns an error once. \
         Sub-check abandon enumerates every (template, b): drop after b operations. Sub-check fault-free runs each template unfaulted and records which observable it changes. \
         non-trivial = the failing statement lies inside BackendWriteTransaction::commit or later (after the in-memory publication step), or an operation was rejected mid-template, or >=1 op ran before abandoning.",
    );
    cx.assume("storage failures are modelled as an error returned by one storage statement (SqliteError); the failing statement has no effect; a failing COMMIT drops its connection exactly as the real error path does");
    cx.assume("observables: canonical dump of all entries, schema attr/class presence, attributes of one group visible to one person, domain display name, loaded ES256 key ids of the OAuth2 clients, OAuth2 discovery document; other in-memory state (dyngroup cache, system config, filter cache) is not probed");

    // minimal reproductions of the known findings (one per signature); the committed files under
    // replays/regress/C04 are replayed first by this sub-check
    let known = known_reproductions();
    let kn = known.len() as u64;
    cx.prop(
        "known-finding-reproductions",
        vf_core::PropCfg::new(kn).threads(1),
        || (0..known_reproductions().len()).prop_map(|i| known_reproductions()[i].clone()),
        init,
        |st, c| run_fault(&cx, st, c),
    );

    if cx.replay.is_some() {
        cx.enumerate("fault-points", 0, |_| FaultCase { base: 0, ops: vec![], n: 0, at: None }, init, |st, c| run_fault(&cx, st, c));
        cx.enumerate("fault-free", 0, |_| FaultCase { base: 0, ops: vec![], n: 0, at: None }, init, |st, c| run_fault(&cx, st, c));
        cx.enumerate("abandon", 0, |_| DropCase { base: 0, ops: vec![], b: 0 }, init, |st, c| run_drop(&cx, st, c));
        cx.finish();
    }

    let mut templates: Vec<(u8, Vec<TOp>)> = fixed_templates().into_iter().map(|t| (0u8, t)).collect();
    templates.extend(random_templates(cx.seed, cx.tier.pick(6, 280)).into_iter().map(|t| (0u8, t)));
    // the transaction that changes the in-memory schema: raising the domain level (on a database
    // created at the previous level); alone and combined with another setting change
    templates.push((1, vec![TOp::DomainRaise]));
    if cx.tier == vf_core::Tier::Thorough {
        templates.push((1, vec![TOp::DomainDisplay { v: 1 }, TOp::DomainRaise]));
    }
    let ks = count_points(&templates, cx.threads);
    cx.extra("templates", serde_json::json!(templates.len()));
    cx.extra("storage_points_per_template", serde_json::json!(ks));

    let tl = &templates;
    cx.enumerate(
        "fault-free",
        templates.len() as u64,
        |i| FaultCase { base: tl[i as usize].0, ops: tl[i as usize].1.clone(), n: 0, at: None },
        init,
        |st, c| run_fault(&cx, st, c),
    );

    // Every storage point of every template; templates that trigger a full reindex reach ~2000
    // points (one per index table / key), of which the first `head`, the last `tail` (the commit
    // path proper) and a stride of the middle are taken — those templates are then not exhaustive.
    let (head, tail, middle) = cx.tier.pick((8u32, 36u32, 8u32), (200, 200, 600));
    let mut flat: Vec<(usize, u32)> = Vec::new();
    let mut sampled_templates = 0u32;
    for (i, k) in ks.iter().enumerate() {
        let k = *k;
        if k <= head + tail + middle {
            for n in 1..=k {
                flat.push((i, n));
            }
        } else {
            sampled_templates += 1;
            let mid_lo = head + 1;
            let mid_hi = k - tail;
            let step = ((mid_hi - mid_lo + 1) as f64 / middle as f64).max(1.0);
            let mut picks: std::collections::BTreeSet<u32> = (1..=head).chain(mid_hi + 1..=k).collect();
            let mut x = mid_lo as f64;
            while (x as u32) <= mid_hi {
                picks.insert(x as u32);
                x += step;
            }
            for n in picks {
                flat.push((i, n));
            }
        }
    }
    cx.extra("templates_with_sampled_fault_points", serde_json::json!(sampled_templates));
    let fl = &flat;
    cx.enumerate(
        "fault-points",
        flat.len() as u64,
        |i| {
            let (t, n) = fl[i as usize];
            FaultCase { base: tl[t].0, ops: tl[t].1.clone(), n, at: None }
        },
        init,
        |st, c| run_fault(&cx, st, c),
    );

    let mut dflat: Vec<(usize, u32)> = Vec::new();
    for (i, t) in templates.iter().enumerate() {
        for b in 0..=t.1.len() as u32 {
            dflat.push((i, b));
        }
    }
    let dl = &dflat;
    cx.enumerate(
        "abandon",
        dflat.len() as u64,
        |i| {
            let (t, b) = dl[i as usize];
            DropCase { base: tl[t].0, ops: tl[t].1.clone(), b }
        },
        init,
        |st, c| run_drop(&cx, st, c),
    );

    if sampled_templates > 0 {
        cx.not_exhaustive();
    }
    for k in ["schema", "access controls", "domain settings", "key material", "oauth2 client configuration"] {
        cx.require_class(&format!("effect:{k}"), 1);
    }
    cx.require_class("fault:backend-commit", 30);
    cx.require_class("fault:sqlite-commit", 10);
    cx.require_class("fault:operations-or-reload", 10);
    cx.require_class("fault:qs-commit-entry", 10);
    cx.require_class("operation-rejected", 1);
    cx.finish();
}
