//! C27 — Authentication needs every factor, and denial is final.
//!
//! Bounded-exhaustive step sequences against the real `IdmServer::auth`, judged by a reference
//! state machine of the documented flows. The oracle is one-directional, as the property is:
//!   * `Continue` after Begin  => session alive, no mechanism chosen yet, mechanism legitimate for the
//!     account (never password-only when the password credential has a second factor);
//!   * `Continue` after a credential => alive and that credential was the right next (non-final) factor;
//!   * `Success` => alive, every earlier factor verified in order, this credential is the right final
//!     factor, account inside its validity window (at session start and at the moment of success);
//!   * after `Denied` or `Success` the same session never again answers `Continue`/`Success`;
//!   * the mechanisms offered for an account with TOTP never include password-only.
use kanidm_proto::v1::AuthMech;
use kanidmd_lib::idm::authentication::{AuthState, AuthStep};
use kanidmd_lib::prelude::*;
use kanidmd_lib::value::Value;
use proptest::prelude::*;
use serde::{Deserialize, Serialize};
use std::time::Duration;
use vf_core::{CaseLog, Check, Outcome, PropCfg};
use vf_world::g_auth::{person_name, ref_totp_code, uuid_filter, Cred, PersonSpec, World};
use vf_world::{pop, srv};

const PW: &str = "the Right passw0rd for vperson!";
const SECRET: &[u8] = b"c27-totp-secret-0123456789abcdef";
const STEP: u64 = 30;
const CODE_A: &str = "aaaaa-bbbbb-ccccc-ddddd";
const CODE_B: &str = "eeeee-fffff-ggggg-hhhhh";
const CODE_USED: &str = "uuuuu-sssss-eeeee-ddddd";

#[derive(Debug, Clone, Copy, Serialize, Deserialize, PartialEq, Eq)]
enum Acct {
    Pw,
    GenPw,
    PwTotp,
    PwTotpBackup,
    NoCred,
    Anonymous,
    /// password account whose validity starts in the far future
    PwNotYet,
    /// password+TOTP account that expired long ago
    PwTotpExpired,
    /// password account that expires 60 s after the session starts
    PwExpiresSoon,
    /// password+TOTP account that expires 60 s after the session starts
    PwTotpExpiresSoon,
}

impl Acct {
    fn idx(self) -> u32 {
        match self {
            Acct::Pw => 0,
            Acct::GenPw => 1,
            Acct::PwTotp => 2,
            Acct::PwTotpBackup => 3,
            Acct::NoCred => 4,
            Acct::Anonymous => 99,
            Acct::PwNotYet => 5,
            Acct::PwTotpExpired => 6,
            Acct::PwExpiresSoon => 7,
            Acct::PwTotpExpiresSoon => 8,
        }
    }
    fn name(self) -> String {
        if self == Acct::Anonymous {
            "anonymous".to_string()
        } else {
            person_name(self.idx())
        }
    }
    fn has_totp(self) -> bool {
        matches!(self, Acct::PwTotp | Acct::PwTotpBackup | Acct::PwTotpExpired | Acct::PwTotpExpiresSoon)
    }
    fn has_pw(self) -> bool {
        !matches!(self, Acct::NoCred | Acct::Anonymous)
    }
    /// mechanisms that may legitimately be begun for this account
    fn legit(self, m: M) -> bool {
        match m {
            M::Anonymous => self == Acct::Anonymous,
            M::Password => self.has_pw() && !self.has_totp(),
            M::PasswordTotp => self.has_totp(),
            M::PasswordBackupCode => self == Acct::PwTotpBackup,
            M::Passkey => false,
        }
    }
}

#[derive(Debug, Clone, Copy, Serialize, Deserialize, PartialEq, Eq)]
enum M {
    Anonymous,
    Password,
    PasswordTotp,
    PasswordBackupCode,
    Passkey,
}
impl M {
    fn real(self) -> AuthMech {
        match self {
            M::Anonymous => AuthMech::Anonymous,
            M::Password => AuthMech::Password,
            M::PasswordTotp => AuthMech::PasswordTotp,
            M::PasswordBackupCode => AuthMech::PasswordBackupCode,
            M::Passkey => AuthMech::Passkey,
        }
    }
}

#[derive(Debug, Clone, Copy, Serialize, Deserialize, PartialEq, Eq)]
enum Tk {
    Current,
    Previous,
    Older,
    Next,
    Wrong,
}
#[derive(Debug, Clone, Copy, Serialize, Deserialize, PartialEq, Eq)]
enum Bk {
    Right,
    Wrong,
    Used,
}

#[derive(Debug, Clone, Copy, Serialize, Deserialize, PartialEq, Eq)]
enum St {
    Begin(M),
    Pw(bool),
    Totp(Tk),
    Backup(Bk),
    Anon,
    /// let this many seconds pass
    Wait(u32),
}

#[derive(Debug, Clone, Serialize, Deserialize)]
struct Case {
    acct: Acct,
    steps: Vec<St>,
}

struct Thread {
    rt: tokio::runtime::Runtime,
    w: World,
    /// next free virtual day
    day: u64,
}

fn setup() -> Thread {
    let rt = srv::runtime();
    let w = rt.block_on(async {
        let mut w = World::new().await;
        let far = srv::T0_SECS + 300 * 365 * 86_400; // three centuries: beyond any virtual day a run can reach
        let specs = vec![
            PersonSpec { idx: 0, password: Some(PW.into()), ..Default::default() },
            PersonSpec { idx: 1, password: Some(PW.into()), generated: true, ..Default::default() },
            PersonSpec { idx: 2, password: Some(PW.into()), totp: Some((SECRET.to_vec(), STEP)), ..Default::default() },
            PersonSpec {
                idx: 3,
                password: Some(PW.into()),
                totp: Some((SECRET.to_vec(), STEP)),
                backup_codes: vec![CODE_A.into(), CODE_B.into(), CODE_USED.into()],
                ..Default::default()
            },
            PersonSpec { idx: 4, ..Default::default() },
            PersonSpec { idx: 5, password: Some(PW.into()), valid_from: Some(far), ..Default::default() },
            PersonSpec { idx: 6, password: Some(PW.into()), totp: Some((SECRET.to_vec(), STEP)), expire: Some(srv::T0_SECS + 5), ..Default::default() },
            PersonSpec { idx: 7, password: Some(PW.into()), ..Default::default() },
            PersonSpec { idx: 8, password: Some(PW.into()), totp: Some((SECRET.to_vec(), STEP)), ..Default::default() },
        ];
        for s in &specs {
            w.create_person(srv::ct(1), s).await.expect("create person");
        }
        // consume CODE_USED of person 3 in a real login and apply the queued removal
        let ct = srv::ct(3600);
        let a = w
            .web_attempt(
                &person_name(3),
                AuthMech::PasswordBackupCode,
                &[Cred::Backup(CODE_USED.into()), Cred::Password(PW.into())],
                ct,
            )
            .await;
        assert!(matches!(a, vf_world::g_auth::Attempt::Success), "setup login with backup code: {a:?}");
        w.drain_delayed(ct + Duration::from_secs(1), true).await;
        w
    });
    Thread { rt, w, day: 2 }
}

#[derive(Debug, PartialEq, Clone, Copy)]
enum Resp {
    Choose,
    Continue,
    Success,
    Denied,
    Err,
}

fn check(th: &mut Thread, case: &Case) -> Outcome {
    let mut log = CaseLog::new();
    let day = th.day;
    th.day += 2;
    let acct = case.acct;
    let mut now = srv::T0_SECS as u128 * 1_000_000_000 + (day as u128 * 86_400 + 40_000) * 1_000_000_000;
    let w = &mut th.w;
    let expires_soon = matches!(acct, Acct::PwExpiresSoon | Acct::PwTotpExpiresSoon);
    let expire_at = (now / 1_000_000_000) as u64 + 60;
    let res: Result<(), String> = th.rt.block_on(async {
        let dur = |n: u128| Duration::new((n / 1_000_000_000) as u64, (n % 1_000_000_000) as u32);
        if expires_soon {
            let u = pop::person_uuid(acct.idx());
            w.write(dur(now), |t| {
                t.qs_write.internal_modify(
                    &uuid_filter(u),
                    &ModifyList::new_list(vec![
                        Modify::Purged(Attribute::AccountExpire),
                        Modify::Present(Attribute::AccountExpire, Value::new_datetime_epoch(Duration::from_secs(expire_at))),
                    ]),
                )
            })
            .await
            .map_err(|e| format!("set expiry: {e:?}"))?;
            now += 1_000_000;
        }
        let in_window_at = |n: u128| -> bool {
            match acct {
                Acct::PwNotYet | Acct::PwTotpExpired => false,
                Acct::PwExpiresSoon | Acct::PwTotpExpiresSoon => (n / 1_000_000_000) as u64 <= expire_at,
                _ => true,
            }
        };
        // ---------------- Init
        let r = w.auth_step(None, AuthStep::Init(acct.name()), dur(now)).await.map_err(|e| format!("init: {e:?}"))?;
        let sid = r.sessionid;
        let mut alive;
        match &r.state {
            AuthState::Choose(mechs) => {
                alive = true;
                if !in_window_at(now) {
                    log.fail(
                        "session offered to an account outside its validity window",
                        format!("{acct:?}: Choose({mechs:?})"),
                    );
                }
                if acct.has_totp() && mechs.iter().any(|m| matches!(m, AuthMech::Password)) {
                    log.fail(
                        "password-only login offered to an account with a second factor",
                        format!("{acct:?}: offered {mechs:?}"),
                    );
                }
                if mechs.iter().any(|m| matches!(m, AuthMech::Anonymous)) && acct != Acct::Anonymous {
                    log.fail("anonymous mechanism offered to a named account", format!("{acct:?}: offered {mechs:?}"));
                }
                log.class("init:choose");
            }
            AuthState::Denied(_) => {
                alive = false;
                log.class("init:denied");
            }
            s => return Err(format!("init: unexpected state {s:?}")),
        }
        // ---------------- model
        let mut mech: Option<M> = None;
        let mut verified_mfa = false;
        let mut succeeded = false;
        let mut complete_right_sequence = alive;
        let mut model_expect_success = false;
        for (i, st) in case.steps.iter().enumerate() {
            now += 1_000_000; // 1 ms between steps
            let ct = dur(now);
            let (step, desc): (Option<AuthStep>, String) = match st {
                St::Wait(s) => {
                    now += *s as u128 * 1_000_000_000;
                    (None, String::new())
                }
                St::Begin(m) => (Some(AuthStep::Begin(m.real())), format!("{st:?}")),
                St::Pw(right) => (
                    Some(AuthStep::Cred(Cred::Password(if *right { PW.into() } else { "definitely not the passw0rd".into() }).real())),
                    format!("{st:?}"),
                ),
                St::Anon => (Some(AuthStep::Cred(Cred::Anonymous.real())), format!("{st:?}")),
                St::Totp(k) => {
                    let cur = ref_totp_code(SECRET, STEP, ct, 0).unwrap_or(0);
                    let code = match k {
                        Tk::Current => cur,
                        Tk::Previous => ref_totp_code(SECRET, STEP, ct, 1).unwrap_or(0),
                        Tk::Older => ref_totp_code(SECRET, STEP, ct, 2).unwrap_or(0),
                        Tk::Next => vf_world::g_auth::ref_hotp(vf_world::g_auth::RefAlgo::Sha256, SECRET, ct.as_secs() / STEP + 1, 6),
                        Tk::Wrong => (cur + 500_000) % 1_000_000,
                    };
                    (Some(AuthStep::Cred(Cred::Totp(code).real())), format!("{st:?}={code}"))
                }
                St::Backup(k) => {
                    let code = match k {
                        Bk::Right => CODE_A,
                        Bk::Wrong => "zzzzz-zzzzz-zzzzz-zzzzz",
                        Bk::Used => CODE_USED,
                    };
                    (Some(AuthStep::Cred(Cred::Backup(code.into()).real())), format!("{st:?}"))
                }
            };
            let Some(step) = step else { continue };
            // is the presented credential "right" by value, for the model?
            let totp_right = |ct: Duration, code_kind: &Tk| -> bool {
                let cur = ref_totp_code(SECRET, STEP, ct, 0);
                let prev = ref_totp_code(SECRET, STEP, ct, 1);
                let code = match code_kind {
                    Tk::Current => cur,
                    Tk::Previous => prev,
                    Tk::Older => ref_totp_code(SECRET, STEP, ct, 2),
                    Tk::Next => Some(vf_world::g_auth::ref_hotp(vf_world::g_auth::RefAlgo::Sha256, SECRET, ct.as_secs() / STEP + 1, 6)),
                    Tk::Wrong => cur.map(|c| (c + 500_000) % 1_000_000),
                };
                code.is_some() && (code == cur || code == prev)
            };
            let resp = match w.auth_step(Some(sid), step, ct).await {
                Ok(r) => match r.state {
                    AuthState::Choose(_) => Resp::Choose,
                    AuthState::Continue(_) => Resp::Continue,
                    AuthState::Success(..) => Resp::Success,
                    AuthState::Denied(_) => Resp::Denied,
                    AuthState::External(_) => Resp::Err,
                },
                Err(_) => Resp::Err,
            };
            // ---- what the model allows
            // (factor kind presented, is it right)
            let (is_begin, next_ok, final_ok): (bool, bool, bool) = match (st, mech) {
                (St::Begin(m), None) => (true, alive && acct.legit(*m), false),
                (St::Begin(_), Some(_)) => (true, false, false),
                (_, None) => (false, false, false),
                (St::Anon, Some(M::Anonymous)) => (false, false, alive),
                (St::Pw(r), Some(M::Password)) => (false, false, alive && *r),
                (St::Totp(k), Some(M::PasswordTotp)) if !verified_mfa => (false, alive && totp_right(ct, k), false),
                (St::Backup(k), Some(M::PasswordBackupCode)) if !verified_mfa => (false, alive && *k == Bk::Right, false),
                (St::Pw(r), Some(M::PasswordTotp | M::PasswordBackupCode)) if verified_mfa => (false, false, alive && *r),
                _ => (false, false, false),
            };
            match resp {
                Resp::Continue => {
                    if !alive {
                        log.fail(
                            "session continues after it was denied or had succeeded",
                            format!("{acct:?} step {i} {desc}: Continue"),
                        );
                    } else if is_begin && !next_ok {
                        let sig = if matches!(st, St::Begin(M::Password)) && acct.has_totp() {
                            "password-only mechanism begun on an account with a second factor"
                        } else {
                            "mechanism begun that the account must not use (or a second mechanism in one session)"
                        };
                        log.fail(sig, format!("{acct:?} step {i} {desc}: Continue"));
                    } else if !is_begin && !next_ok {
                        log.fail(
                            "session continues after a wrong, out-of-order or mistyped factor",
                            format!("{acct:?} step {i} {desc}: Continue (mech {mech:?}, mfa verified {verified_mfa})"),
                        );
                    }
                    if let St::Begin(m) = st {
                        mech = Some(*m);
                    } else {
                        verified_mfa = true;
                    }
                }
                Resp::Success => {
                    if !alive {
                        log.fail(
                            "token issued by a session that was denied or had already succeeded",
                            format!("{acct:?} step {i} {desc}: Success"),
                        );
                    } else if !final_ok {
                        log.fail(
                            "token issued without every factor verified in order",
                            format!("{acct:?} step {i} {desc}: Success (mech {mech:?}, mfa verified {verified_mfa})"),
                        );
                    } else if !in_window_at(now) {
                        log.fail(
                            "token issued although the account left its validity window during the session",
                            format!("{acct:?} step {i} {desc}: Success at {} s, account expired at {expire_at} s", now / 1_000_000_000),
                        );
                    }
                    succeeded = true;
                    alive = false;
                }
                Resp::Denied => {
                    alive = false;
                }
                Resp::Choose => {
                    log.fail("session went back to mechanism choice", format!("{acct:?} step {i} {desc}"));
                }
                Resp::Err => {
                    // an error answer must not have moved the session forward; nothing to demand
                }
            }
            // bookkeeping for the non-vacuity classes: would the strict reading accept here?
            // expectation (non-vacuity bookkeeping only): exact to the nanosecond, like the server
            let strictly_in_window = !expires_soon || now <= expire_at as u128 * 1_000_000_000;
            if final_ok && in_window_at(now) && strictly_in_window {
                model_expect_success = true;
                if resp != Resp::Success {
                    log.class("model-valid-sequence-not-successful");
                }
            }
            if !(next_ok || final_ok) {
                complete_right_sequence = false;
            }
            if log.failed() {
                break;
            }
        }
        let _ = complete_right_sequence;
        if succeeded {
            log.class("success");
            log.class(format!("success:{:?}", mech));
        }
        if model_expect_success {
            log.class("model-accepts");
        }
        if mech.is_some() && !succeeded {
            log.class("begun-but-not-successful");
        }
        // drop queued delayed actions (backup code removal, session records): never applied, so the
        // account keeps its codes for the next sequence
        w.drain_delayed(dur(now), false).await;
        Ok(())
    });
    if let Err(e) = res {
        return Outcome::discard().class(format!("harness-error:{}", e.chars().take(50).collect::<String>()));
    }
    log.class(format!("acct:{acct:?}"));
    // non-trivial: a mechanism was begun and at least one credential step followed
    let begun = case.steps.iter().position(|s| matches!(s, St::Begin(_)));
    if let Some(b) = begun {
        if case.steps.len() > b + 1 {
            log.nontrivial();
        }
    }
    log.finish()
}

fn alphabet(acct: Acct) -> Vec<St> {
    use St::*;
    match acct {
        Acct::Pw | Acct::GenPw => vec![
            Begin(M::Password), Begin(M::PasswordTotp), Begin(M::Anonymous), Pw(true), Pw(false), Totp(Tk::Current), Backup(Bk::Right), Anon,
        ],
        Acct::PwTotp => vec![
            Begin(M::Password), Begin(M::PasswordTotp), Begin(M::PasswordBackupCode), Begin(M::Anonymous), Pw(true), Pw(false),
            Totp(Tk::Current), Totp(Tk::Previous), Totp(Tk::Older), Totp(Tk::Next), Totp(Tk::Wrong), Backup(Bk::Wrong), Anon,
        ],
        Acct::PwTotpBackup => vec![
            Begin(M::Password), Begin(M::PasswordTotp), Begin(M::PasswordBackupCode), Begin(M::Passkey), Pw(true), Pw(false),
            Totp(Tk::Current), Totp(Tk::Previous), Totp(Tk::Older), Totp(Tk::Wrong), Backup(Bk::Right), Backup(Bk::Wrong), Backup(Bk::Used), Anon,
        ],
        Acct::NoCred => vec![Begin(M::Password), Begin(M::Anonymous), Pw(true), Anon],
        Acct::Anonymous => vec![Begin(M::Anonymous), Begin(M::Password), Anon, Pw(true), Totp(Tk::Current)],
        Acct::PwNotYet => vec![Begin(M::Password), Pw(true), Anon],
        Acct::PwTotpExpired => vec![Begin(M::PasswordTotp), Begin(M::Password), Totp(Tk::Current), Pw(true)],
        Acct::PwExpiresSoon => vec![Begin(M::Password), Pw(true), Pw(false), Wait(30), Wait(90)],
        Acct::PwTotpExpiresSoon => vec![Begin(M::PasswordTotp), Totp(Tk::Current), Totp(Tk::Previous), Pw(true), Wait(31), Wait(90)],
    }
}

const ACCTS: [Acct; 10] = [
    Acct::Pw, Acct::GenPw, Acct::PwTotp, Acct::PwTotpBackup, Acct::NoCred, Acct::Anonymous, Acct::PwNotYet, Acct::PwTotpExpired,
    Acct::PwExpiresSoon, Acct::PwTotpExpiresSoon,
];

fn all_cases(maxlen: usize) -> Vec<Case> {
    let mut out = Vec::new();
    for acct in ACCTS {
        let a = alphabet(acct);
        let extra = if matches!(acct, Acct::PwExpiresSoon | Acct::PwTotpExpiresSoon) { 1 } else { 0 };
        for len in 0..=(maxlen + extra) {
            let total = (a.len() as u64).pow(len as u32);
            for mut i in 0..total {
                let mut steps = Vec::with_capacity(len);
                for _ in 0..len {
                    steps.push(a[(i % a.len() as u64) as usize]);
                    i /= a.len() as u64;
                }
                out.push(Case { acct, steps });
            }
        }
    }
    out
}

fn arb_case() -> impl Strategy<Value = Case> {
    let st = prop_oneof![
        3 => prop_oneof![Just(M::Anonymous), Just(M::Password), Just(M::PasswordTotp), Just(M::PasswordBackupCode), Just(M::Passkey)].prop_map(St::Begin),
        3 => any::<bool>().prop_map(St::Pw),
        4 => prop_oneof![Just(Tk::Current), Just(Tk::Previous), Just(Tk::Older), Just(Tk::Next), Just(Tk::Wrong)].prop_map(St::Totp),
        3 => prop_oneof![Just(Bk::Right), Just(Bk::Wrong), Just(Bk::Used)].prop_map(St::Backup),
        1 => Just(St::Anon),
        1 => prop_oneof![Just(1u32), Just(29), Just(31), Just(61), Just(90)].prop_map(St::Wait),
    ];
    let free = (proptest::sample::select(ACCTS.to_vec()), proptest::collection::vec(st.clone(), 3..=6)).prop_map(|(acct, steps)| Case { acct, steps });
    // a sequence the model accepts, with one step replaced, inserted or appended (one step away from acceptance)
    let templates: Vec<(Acct, Vec<St>)> = vec![
        (Acct::Pw, vec![St::Begin(M::Password), St::Pw(true)]),
        (Acct::GenPw, vec![St::Begin(M::Password), St::Pw(true)]),
        (Acct::PwTotp, vec![St::Begin(M::PasswordTotp), St::Totp(Tk::Current), St::Pw(true)]),
        (Acct::PwTotp, vec![St::Begin(M::PasswordTotp), St::Totp(Tk::Previous), St::Pw(true)]),
        (Acct::PwTotpBackup, vec![St::Begin(M::PasswordTotp), St::Totp(Tk::Current), St::Pw(true)]),
        (Acct::PwTotpBackup, vec![St::Begin(M::PasswordBackupCode), St::Backup(Bk::Right), St::Pw(true)]),
        (Acct::Anonymous, vec![St::Begin(M::Anonymous), St::Anon]),
        (Acct::PwTotpExpiresSoon, vec![St::Begin(M::PasswordTotp), St::Totp(Tk::Current), St::Pw(true)]),
    ];
    let near = (proptest::sample::select(templates), 0u8..4, any::<u8>(), st).prop_map(|((acct, mut steps), how, pos, other)| {
        let i = pos as usize % (steps.len() + 1);
        match how {
            0 => {}
            1 => {
                let j = i.min(steps.len() - 1);
                steps[j] = other;
            }
            2 => steps.insert(i, other),
            _ => steps.push(other),
        }
        Case { acct, steps }
    });
    prop_oneof![1 => free, 1 => near]
}

fn main() {
    let cx = Check::from_args("C27", "exploration");
    cx.rule(
        "every sequence (session start + up to 3 further steps quick / 4 thorough; +1 for the expiring accounts) over a per-account alphabet of \
         {Begin(each mechanism incl. ones not offered and Passkey), password right/wrong, TOTP current/previous/older/next/wrong, backup code right/wrong/already used, anonymous, wait 30/31/90 s} \
         for accounts: password, generated password, password+TOTP, password+TOTP+backup codes, no credential, anonymous, not yet valid, expired, expiring 60 s after session start; \
         plus random sequences of 3..6 steps over the full alphabet. One server per worker, every sequence on its own virtual day (soft locks reset), delayed actions dropped. \
         oracle = reference state machine, one-directional (Continue/Success only when the model allows it; finality after Denied/Success). \
         non-trivial = a mechanism was begun and at least one credential step followed; distinct by construction / by hash",
    );
    cx.assume("passkey / security-key factors are not exercised (the soft authenticator is a dev-dependency that the harness does not link)");
    cx.assume("an error answer (Err) is taken as 'no progress'; the model then expects the session state unchanged only in the sense that later Continue/Success must still be justified");
    let cases = all_cases(cx.tier.pick(3, 4));
    let cref = &cases;
    cx.enumerate("exhaustive-sequences", cases.len() as u64, |i| cref[i as usize].clone(), setup, |th, c| check(th, c));
    // committed regression inputs of the enumerated part are replayed through this empty sub-check
    cx.prop("sequences-regress", PropCfg::new(0), || Just(Case { acct: Acct::Pw, steps: vec![] }), setup, |th, c| check(th, c));
    let n = cx.tier.pick(1_500, 60_000);
    cx.prop("random-sequences", PropCfg::new(n).shrink(200), arb_case, setup, |th, c| check(th, c));
    cx.require_class("success", 100);
    cx.require_class("success:Some(PasswordTotp)", 20);
    cx.require_class("success:Some(PasswordBackupCode)", 20);
    cx.require_class("success:Some(Password)", 20);
    cx.require_class("success:Some(Anonymous)", 3);
    cx.require_class("init:denied", 20);
    if cx.class_count("model-valid-sequence-not-successful") > 0 {
        cx.inconclusive("a sequence the model accepts was not successful (harness or soft-lock interference)");
    }
    cx.finish();
}
