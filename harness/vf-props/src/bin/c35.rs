//! C35 — Account policy resolution is order-independent and strictest.
//!
//! The real `ResolvedAccountPolicy::fold_from` is applied to EVERY permutation of a generated
//! multiset of (at most 5) group policies. Oracle (written from the property text):
//!   * all permutations give the same resolved policy (trust sets of the CA list compared as sets),
//!   * session/privilege expiry <= every input, password minimum >= every input, credential type
//!     >= every input, the CA list trusts only what every policy that provides a list trusts,
//!   * credential type below MFA  =>  password minimum >= the single-factor minimum,
//!   * "strictest": the strictness fields are exactly the min/max of the inputs and the system
//!     bound, and the CA list is exactly the intersection (not merely a subset).
use kanidm_lib_crypto::{PW_MFA_MIN_LENGTH, PW_SFA_MIN_LENGTH_NIST};
use kanidmd_lib::constants::{MAXIMUM_AUTH_PRIVILEGE_EXPIRY, MAXIMUM_AUTH_SESSION_EXPIRY};
use kanidmd_lib::value::CredentialType;
use kanidmd_lib::verif_hooks::auth::accountpolicy as hook;
use proptest::prelude::*;
use serde::{Deserialize, Serialize};
use std::collections::{BTreeMap, BTreeSet};
use uuid::Uuid;
use vf_core::{Check, Outcome, PropCfg};

const PEMS: [&str; 4] = [
    include_str!("../../data/ca0.pem"),
    include_str!("../../data/ca1.pem"),
    include_str!("../../data/ca2.pem"),
    include_str!("../../data/ca3.pem"),
];

const CRED_TYPES: [CredentialType; 7] = [
    CredentialType::Any,
    CredentialType::External,
    CredentialType::Mfa,
    CredentialType::Passkey,
    CredentialType::AttestedPasskey,
    CredentialType::AttestedResidentkey,
    CredentialType::Invalid,
];

/// One CA of a list: index into PEMS, and None = blanket allow / Some(non-empty device indices).
type CaEnt = (u8, Option<Vec<u8>>);

#[derive(Debug, Clone, Serialize, Deserialize, PartialEq)]
struct Pol {
    privilege_expiry: u32,
    authsession_expiry: u32,
    pw_min_length: u32,
    cred: u8,
    ca: Option<Vec<CaEnt>>,
    lim_filter: Option<u64>,
    lim_results: Option<u64>,
    fallback: Option<bool>,
}

#[derive(Debug, Clone, Serialize, Deserialize)]
struct Case {
    pols: Vec<Pol>,
}

fn aaguid(i: u8) -> Uuid {
    Uuid::from_u128(0xaaaa_0000_0000_4000_8000_0000_0000_0000u128 + i as u128)
}

#[derive(Debug, Clone, PartialEq, Eq)]
enum Trust {
    Blanket,
    Devices(BTreeSet<u8>),
}

/// Canonical trust map of one generated list (later duplicates of a CA index are ignored, empty
/// device sets mean the CA is not in the list).
fn trust_of(list: &[CaEnt]) -> BTreeMap<u8, Trust> {
    let mut m = BTreeMap::new();
    for (ca, devs) in list {
        let ca = ca % 4;
        if m.contains_key(&ca) {
            continue;
        }
        match devs {
            None => {
                m.insert(ca, Trust::Blanket);
            }
            Some(d) if d.is_empty() => {}
            Some(d) => {
                m.insert(ca, Trust::Devices(d.iter().map(|x| x % 6).collect()));
            }
        }
    }
    m
}

fn to_spec(p: &Pol) -> hook::PolicySpec {
    hook::PolicySpec {
        privilege_expiry: p.privilege_expiry,
        authsession_expiry: p.authsession_expiry,
        pw_min_length: p.pw_min_length,
        credential_policy: CRED_TYPES[p.cred as usize % 7],
        ca_list: p.ca.as_ref().map(|l| {
            trust_of(l)
                .into_iter()
                .map(|(ca, t)| hook::CaSpec {
                    pem: PEMS[ca as usize].as_bytes().to_vec(),
                    aaguids: match t {
                        Trust::Blanket => None,
                        Trust::Devices(d) => Some(d.into_iter().map(aaguid).collect()),
                    },
                })
                .collect()
        }),
        limit_search_max_filter_test: p.lim_filter,
        limit_search_max_results: p.lim_results,
        allow_primary_cred_fallback: p.fallback,
    }
}

struct Ctx {
    /// key id (as reported by the real list) -> our CA index
    kids: BTreeMap<Vec<u8>, u8>,
}

fn ctx() -> Ctx {
    let mut kids = BTreeMap::new();
    for (i, pem) in PEMS.iter().enumerate() {
        let l = hook::build_ca_list(&[hook::CaSpec {
            pem: pem.as_bytes().to_vec(),
            aaguids: None,
        }])
        .expect("embedded CA parses");
        let d = hook::dump_ca_list(&l);
        assert_eq!(d.len(), 1);
        kids.insert(d[0].0.clone(), i as u8);
    }
    assert_eq!(kids.len(), 4, "embedded CAs must be distinct");
    Ctx { kids }
}

fn observed_trust(cx: &Ctx, d: &hook::CaDump) -> Result<BTreeMap<u8, Trust>, String> {
    let mut m = BTreeMap::new();
    for (kid, blanket, ids) in d {
        let Some(ca) = cx.kids.get(kid) else {
            return Err(format!("unknown CA key id {kid:?}"));
        };
        let t = if *blanket {
            Trust::Blanket
        } else {
            let mut s = BTreeSet::new();
            for id in ids {
                let off = id.as_u128().wrapping_sub(aaguid(0).as_u128());
                if off >= 6 {
                    return Err(format!("unknown device {id}"));
                }
                s.insert(off as u8);
            }
            Trust::Devices(s)
        };
        m.insert(*ca, t);
    }
    Ok(m)
}

/// Is (ca, device) trusted by this trust map? device None = "any device of that CA".
fn trusts(m: &BTreeMap<u8, Trust>, ca: u8, dev: u8) -> bool {
    match m.get(&ca) {
        Some(Trust::Blanket) => true,
        Some(Trust::Devices(d)) => d.contains(&dev),
        None => false,
    }
}

fn permutations(n: usize) -> Vec<Vec<usize>> {
    fn rec(cur: &mut Vec<usize>, used: &mut Vec<bool>, n: usize, out: &mut Vec<Vec<usize>>) {
        if cur.len() == n {
            out.push(cur.clone());
            return;
        }
        for i in 0..n {
            if !used[i] {
                used[i] = true;
                cur.push(i);
                rec(cur, used, n, out);
                cur.pop();
                used[i] = false;
            }
        }
    }
    let mut out = Vec::new();
    rec(&mut Vec::new(), &mut vec![false; n], n, &mut out);
    out
}

fn check(cx: &Ctx, case: &Case) -> Outcome {
    let n = case.pols.len();
    if n > 5 {
        return Outcome::discard();
    }
    let built: Vec<hook::Policy> = match case
        .pols
        .iter()
        .map(|p| hook::build_policy(&to_spec(p)))
        .collect::<Result<Vec<_>, _>>()
    {
        Ok(b) => b,
        // a harness problem is never a violation: discard, and main() turns it into "inconclusive"
        Err(e) => return Outcome::discard().class(format!("harness-error:{}", e.chars().take(60).collect::<String>())),
    };
    // ---- every permutation through the real fold
    let perms = permutations(n);
    let mut first: Option<hook::ResolvedDump> = None;
    for perm in &perms {
        let order: Vec<hook::Policy> = perm.iter().map(|i| built[*i].clone()).collect();
        let r = hook::fold_built(order);
        match &first {
            None => first = Some(r),
            Some(f) => {
                if *f != r {
                    return Outcome::fail(
                        "resolved policy depends on group order",
                        format!("identity order -> {f:?}\norder {perm:?} -> {r:?}"),
                    );
                }
            }
        }
    }
    let r = first.expect("at least the empty permutation");

    // ---- reference, from the property text
    let creds: Vec<CredentialType> = case.pols.iter().map(|p| CRED_TYPES[p.cred as usize % 7]).collect();
    for (i, p) in case.pols.iter().enumerate() {
        if r.privilege_expiry > p.privilege_expiry {
            return Outcome::fail(
                "less strict than an input: privilege expiry",
                format!("policy {i} has {} resolved {}", p.privilege_expiry, r.privilege_expiry),
            );
        }
        if r.authsession_expiry > p.authsession_expiry {
            return Outcome::fail(
                "less strict than an input: session expiry",
                format!("policy {i} has {} resolved {}", p.authsession_expiry, r.authsession_expiry),
            );
        }
        if r.pw_min_length < p.pw_min_length {
            return Outcome::fail(
                "less strict than an input: password minimum length",
                format!("policy {i} has {} resolved {}", p.pw_min_length, r.pw_min_length),
            );
        }
        if r.credential_policy < creds[i] {
            return Outcome::fail(
                "less strict than an input: credential type minimum",
                format!("policy {i} has {:?} resolved {:?}", creds[i], r.credential_policy),
            );
        }
    }
    let sfa_possible = r.credential_policy < CredentialType::Mfa;
    if sfa_possible && r.pw_min_length < PW_SFA_MIN_LENGTH_NIST {
        return Outcome::fail(
            "single-factor minimum length not enforced",
            format!("credential type {:?} pw_min {}", r.credential_policy, r.pw_min_length),
        );
    }
    // CA lists
    let lists: Vec<BTreeMap<u8, Trust>> = case
        .pols
        .iter()
        .filter_map(|p| p.ca.as_ref().map(|l| trust_of(l)))
        .collect();
    let got_ca = match &r.ca_list {
        None => None,
        Some(d) => match observed_trust(cx, d) {
            Ok(m) => Some(m),
            Err(e) => return Outcome::fail("resolved CA list names an unknown authority", e),
        },
    };
    let mut inter_empty = false;
    let mut inter_nonempty = false;
    match (&got_ca, lists.is_empty()) {
        (None, true) => {}
        (None, false) => {
            return Outcome::fail(
                "attestation CA lists dropped",
                format!("{} policies restrict attestation CAs but the resolved policy has no list", lists.len()),
            )
        }
        (Some(g), true) => {
            return Outcome::fail(
                "attestation CA list invented",
                format!("no policy has a list, resolved {g:?}"),
            )
        }
        (Some(g), false) => {
            for ca in 0..4u8 {
                for dev in 0..6u8 {
                    let all = lists.iter().all(|l| trusts(l, ca, dev));
                    let res = trusts(g, ca, dev);
                    if res && !all {
                        return Outcome::fail(
                            "resolved CA list trusts an authority/device not trusted by all",
                            format!("ca {ca} device {dev}: lists {lists:?} resolved {g:?}"),
                        );
                    }
                    if all && !res {
                        return Outcome::fail(
                            "resolved CA list is not the intersection (drops a commonly trusted device)",
                            format!("ca {ca} device {dev}: lists {lists:?} resolved {g:?}"),
                        );
                    }
                    inter_nonempty |= all;
                }
                // blanket must only survive when every list is blanket for that CA
                let all_blanket = lists.iter().all(|l| l.get(&ca) == Some(&Trust::Blanket));
                let res_blanket = g.get(&ca) == Some(&Trust::Blanket);
                if res_blanket && !all_blanket {
                    return Outcome::fail(
                        "resolved CA list trusts an authority/device not trusted by all",
                        format!("ca {ca} blanket allow survived: lists {lists:?} resolved {g:?}"),
                    );
                }
                if all_blanket && !res_blanket {
                    return Outcome::fail(
                        "resolved CA list is not the intersection (drops a commonly trusted device)",
                        format!("ca {ca} blanket allow lost: lists {lists:?} resolved {g:?}"),
                    );
                }
                inter_nonempty |= all_blanket;
            }
            inter_empty = !inter_nonempty;
            if inter_empty && !g.is_empty() {
                return Outcome::fail(
                    "resolved CA list trusts an authority/device not trusted by all",
                    format!("intersection is empty, resolved {g:?}"),
                );
            }
        }
    }
    // strictest-of-inputs (tightness)
    let want_priv = case
        .pols
        .iter()
        .map(|p| p.privilege_expiry)
        .min()
        .unwrap_or(u32::MAX)
        .min(MAXIMUM_AUTH_PRIVILEGE_EXPIRY);
    let want_sess = case
        .pols
        .iter()
        .map(|p| p.authsession_expiry)
        .min()
        .unwrap_or(u32::MAX)
        .min(MAXIMUM_AUTH_SESSION_EXPIRY);
    let want_cred = creds.iter().copied().max().unwrap_or(CredentialType::Any);
    let mut want_pw = case
        .pols
        .iter()
        .map(|p| p.pw_min_length)
        .max()
        .unwrap_or(0)
        .max(PW_MFA_MIN_LENGTH);
    let raised = want_cred < CredentialType::Mfa && want_pw < PW_SFA_MIN_LENGTH_NIST;
    if raised {
        want_pw = PW_SFA_MIN_LENGTH_NIST;
    }
    if (r.privilege_expiry, r.authsession_expiry, r.pw_min_length, r.credential_policy)
        != (want_priv, want_sess, want_pw, want_cred)
    {
        return Outcome::fail(
            "resolved policy is not the strictest of the inputs",
            format!(
                "want priv {want_priv} sess {want_sess} pw {want_pw} cred {want_cred:?}; got {} {} {} {:?}",
                r.privilege_expiry, r.authsession_expiry, r.pw_min_length, r.credential_policy
            ),
        );
    }

    // ---- classes
    let differ = n >= 2
        && case.pols.iter().any(|p| {
            let q = &case.pols[0];
            (p.privilege_expiry, p.authsession_expiry, p.pw_min_length, p.cred % 7, p.ca.as_ref().map(|l| trust_of(l)))
                != (q.privilege_expiry, q.authsession_expiry, q.pw_min_length, q.cred % 7, q.ca.as_ref().map(|l| trust_of(l)))
        });
    let mut o = Outcome::pass(differ).class(format!("policies:{n}"));
    o = o.class(match lists.len() {
        0 => "ca-lists:0",
        1 => "ca-lists:1",
        _ => "ca-lists:>=2",
    });
    if lists.len() >= 2 {
        o = o.class_if(inter_empty, "ca-intersection-empty");
        o = o.class_if(inter_nonempty, "ca-intersection-nonempty");
        let mixed = (0..4u8).any(|ca| {
            lists.iter().any(|l| l.get(&ca) == Some(&Trust::Blanket))
                && lists.iter().any(|l| matches!(l.get(&ca), Some(Trust::Devices(_))))
        });
        o = o.class_if(mixed, "ca-blanket-meets-devices");
    }
    o = o.class_if(raised, "single-factor-minimum-raised");
    o = o.class_if(want_cred >= CredentialType::Mfa, "mfa-required");
    o = o.class_if(
        case.pols.iter().any(|p| p.privilege_expiry > MAXIMUM_AUTH_PRIVILEGE_EXPIRY),
        "input-above-system-maximum",
    );
    o = o.class_if(lists.len() < case.pols.len() && !lists.is_empty(), "some-policies-without-ca-list");
    o
}

fn arb_u32() -> impl Strategy<Value = u32> {
    prop_oneof![
        6 => proptest::sample::select(vec![
            0u32, 1, 9, 10, 11, 14, 15, 16, 127, 128, 129, 599, 600, 601, 3599, 3600, 3601, 86_399, 86_400,
            86_401, u32::MAX - 1, u32::MAX,
        ]),
        2 => 0u32..64,
        1 => any::<u32>(),
    ]
}

fn arb_ca_list() -> impl Strategy<Value = Option<Vec<CaEnt>>> {
    let ent = (
        0u8..4,
        prop_oneof![
            1 => Just(None),
            3 => proptest::collection::vec(0u8..6, 1..=3).prop_map(Some),
        ],
    );
    prop_oneof![
        2 => Just(None),
        5 => proptest::collection::vec(ent, 0..=4).prop_map(Some),
    ]
}

fn arb_pol() -> impl Strategy<Value = Pol> {
    (
        arb_u32(),
        arb_u32(),
        arb_u32(),
        0u8..7,
        arb_ca_list(),
        proptest::option::of(prop_oneof![Just(0u64), Just(1), Just(128), Just(u32::MAX as u64), any::<u64>()]),
        proptest::option::of(prop_oneof![Just(0u64), Just(1), Just(128), Just(u32::MAX as u64), any::<u64>()]),
        proptest::option::of(any::<bool>()),
    )
        .prop_map(
            |(privilege_expiry, authsession_expiry, pw_min_length, cred, ca, lim_filter, lim_results, fallback)| Pol {
                privilege_expiry,
                authsession_expiry,
                pw_min_length,
                cred,
                ca,
                lim_filter,
                lim_results,
                fallback,
            },
        )
}

fn arb_case() -> impl Strategy<Value = Case> {
    proptest::collection::vec(arb_pol(), 0..=5).prop_map(|pols| Case { pols })
}

/// Alphabet of the bounded-exhaustive part: every CA-list shape over 2 CAs x 2 devices, crossed
/// with {single factor allowed, MFA required}.
fn alphabet() -> Vec<Pol> {
    let shapes: Vec<Option<Option<Vec<u8>>>> = vec![
        None,                   // CA absent from the list
        Some(None),             // blanket
        Some(Some(vec![0])),    // {a}
        Some(Some(vec![1])),    // {b}
        Some(Some(vec![0, 1])), // {a,b}
    ];
    let mut lists: Vec<Option<Vec<CaEnt>>> = vec![None];
    for s0 in &shapes {
        for s1 in &shapes {
            let mut l = Vec::new();
            if let Some(d) = s0 {
                l.push((0u8, d.clone()));
            }
            if let Some(d) = s1 {
                l.push((1u8, d.clone()));
            }
            lists.push(Some(l));
        }
    }
    let mut out = Vec::new();
    for l in lists {
        for (cred, pw, pe) in [(0u8, 12u32, 600u32), (2u8, 20u32, 4000u32)] {
            out.push(Pol {
                privilege_expiry: pe,
                authsession_expiry: pe * 10,
                pw_min_length: pw,
                cred,
                ca: l.clone(),
                lim_filter: None,
                lim_results: Some(pw as u64),
                fallback: if cred == 0 { None } else { Some(true) },
            });
        }
    }
    out
}

/// i-th multiset (with repetition) of size k over an alphabet of size a, as non-decreasing indices.
fn multisets(a: usize, k: usize) -> Vec<Vec<usize>> {
    fn rec(start: usize, a: usize, k: usize, cur: &mut Vec<usize>, out: &mut Vec<Vec<usize>>) {
        if cur.len() == k {
            out.push(cur.clone());
            return;
        }
        for i in start..a {
            cur.push(i);
            rec(i, a, k, cur, out);
            cur.pop();
        }
    }
    let mut out = Vec::new();
    rec(0, a, k, &mut Vec::new(), &mut out);
    out
}

fn main() {
    let cx = Check::from_args("C35", "exploration");
    cx.rule(
        "every permutation (<=120) of a multiset of <=5 group policies goes through the real ResolvedAccountPolicy::fold_from; \
         random multisets with boundary-heavy values (0,1,9..16,127..129,600,3600,86400 +-1,u32::MAX), all 7 credential types, optional CA lists over 4 embedded CAs x 6 devices \
         (blanket-allow and device-restricted), optional limits; plus bounded-exhaustive: all multisets of size <=3 (thorough <=4) over a 52-policy alphabet covering every CA-list shape over 2 CAs x 2 devices. \
         oracle from the property text: all orders equal; expiry <= each input, password minimum and credential type >= each input, single-factor minimum when credential type < MFA, CA trust = intersection of the provided lists. \
         non-trivial = >=2 policies that differ in a strictness field; distinct by hash (random) / by construction (enumerated)",
    );
    cx.assume("attestation CA lists are compared by what they trust (CA key id, blanket flag, device ids); device description strings are ignored");
    cx.assume("'strictest' is read as: expiry = min(inputs, system maximum), password minimum = max(inputs, MFA minimum) then raised to the single-factor minimum, credential type = max(inputs)");
    let alpha = alphabet();
    let kmax = cx.tier.pick(3usize, 4usize);
    for k in 1..=kmax {
        let ms = multisets(alpha.len(), k);
        let (ms, alpha) = (&ms, &alpha);
        cx.enumerate(
            &format!("exhaustive-multisets-{k}"),
            ms.len() as u64,
            |i| Case {
                pols: ms[i as usize].iter().map(|j| alpha[*j].clone()).collect(),
            },
            ctx,
            |c, v| check(c, v),
        );
    }
    let n = cx.tier.pick(40_000, 1_000_000);
    cx.prop("random-multisets", PropCfg::new(n), arb_case, ctx, |c, v| check(c, v));
    cx.require_class("ca-intersection-empty", 50);
    cx.require_class("ca-intersection-nonempty", 50);
    cx.require_class("ca-blanket-meets-devices", 50);
    cx.require_class("single-factor-minimum-raised", 50);
    cx.require_class("policies:5", 50);
    if cx.class_count("discarded") > 0 {
        cx.inconclusive("some generated policies could not be built (harness problem)");
    }
    cx.finish();
}
