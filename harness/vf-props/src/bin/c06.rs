//! C06 — Read transactions see one consistent committed state.
//!
//! Harness-owned schedules: one reader thread and one writer thread on a file-backed server with a
//! connection pool of 2. Both stop at every pause point (added statements between the snapshot
//! acquisitions of `QueryServer::read` / `IdlArcSqlite::read` and between the publication steps of
//! `QueryServerWriteTransaction::commit` / `BackendWriteTransaction::commit` /
//! `IdlArcSqliteWriteTransaction::commit`, plus harness points before the reader's first query and
//! between its observations); a scheduler releases them one step at a time following the generated
//! schedule. The writer's transaction flips a generation bit in two related entries (rename of a
//! person + member list of a group), an access control profile and the domain display name.
//! Oracle: every observation of the reader carries the generation bit; all observations of one read
//! transaction must carry the same bit, and the repeated round must equal the first.
use kanidmd_lib::modify::{Modify, ModifyList};
use kanidmd_lib::prelude::*;
use kanidmd_lib::value::{PartialValue, Value};
use kanidmd_lib::verif_hooks::fault::{self as hfault, Sched};
use kanidmd_lib::verif_hooks::ident;
use proptest::prelude::*;
use serde::{Deserialize, Serialize};
use std::collections::BTreeSet;
use std::sync::Arc;
use std::time::Duration;
use vf_core::{Check, Outcome, PropCfg};
use vf_world::g_fault::{self, Scratch, Template};
use vf_world::ops::{Ref, NAMES};
use vf_world::srv::{self, ct};

#[derive(Debug, Clone, Serialize, Deserialize)]
struct Case {
    /// sequential (read everything, then flip the generation) rounds run first on the fresh server:
    /// they warm the caches and give them a history
    #[serde(default)]
    warm: u8,
    /// reopen the server first (cold caches: reads go to SQLite)
    cold: bool,
    /// true = writer takes the next step, false = reader; a finished role is skipped
    steps: Vec<bool>,
    /// when the schedule is exhausted: who runs to completion first
    writer_first_at_end: bool,
}

const STEP_TIMEOUT: Duration = Duration::from_secs(20);

const NAME: [u8; 2] = [0, 10]; // anna <-> kim
const DISPLAY: [&str; 2] = ["Gen Zero", "Gen One"];

fn p0() -> Uuid {
    Ref::P(0).uuid()
}
fn g2() -> Uuid {
    Ref::G(2).uuid()
}

/// Put the server into generation `g` (one transaction, committed by the caller).
fn apply_gen(w: &mut QueryServerWriteTransaction<'_>, g: usize) -> Result<(), OperationError> {
    let name = NAMES[NAME[g] as usize];
    w.internal_modify_uuid(
        p0(),
        &ModifyList::new_list(vec![
            Modify::Purged(Attribute::Name),
            Modify::Present(Attribute::Name, Value::new_iname(name)),
            Modify::Purged(Attribute::DisplayName),
            Modify::Present(Attribute::DisplayName, Value::new_utf8s(&format!("gen{g}"))),
        ]),
    )?;
    let mut gm = vec![Modify::Purged(Attribute::Member), Modify::Purged(Attribute::Description)];
    gm.push(Modify::Present(Attribute::Description, Value::new_utf8s(&format!("gen{g}"))));
    if g == 1 {
        gm.push(Modify::Present(Attribute::Member, Value::Refer(p0())));
    }
    w.internal_modify_uuid(g2(), &ModifyList::new_list(gm))?;
    let acp = if g == 1 {
        vec![Modify::Present(Attribute::AcpSearchAttr, Value::new_iutf8("description"))]
    } else {
        vec![Modify::Removed(Attribute::AcpSearchAttr, PartialValue::new_iutf8("description"))]
    };
    w.internal_modify_uuid(g_fault::acp_uuid(0), &ModifyList::new_list(acp))?;
    w.set_domain_display_name(DISPLAY[g])
}

/// One round of observations; each is (layer, name, generation bit or 9 = neither).
type Obs = Vec<(&'static str, &'static str, u8)>;

fn observe(r: &mut QueryServerReadTransaction<'_>, pause: bool) -> Obs {
    let mut o: Obs = Vec::new();
    let step = |o: &mut Obs, layer: &'static str, name: &'static str, v: u8| {
        o.push((layer, name, v));
        if pause {
            hfault::pause_point("r.h.obs");
        }
    };
    let names = [NAMES[NAME[0] as usize], NAMES[NAME[1] as usize]];
    // entry by uuid
    let e = r.internal_search_uuid(p0()).ok();
    let v = e
        .as_ref()
        .and_then(|e| e.get_ava_single_proto_string(Attribute::Name))
        .map(|n| if n == names[0] { 0 } else if n == names[1] { 1 } else { 9 })
        .unwrap_or(9);
    step(&mut o, "entry", "p0.name by uuid", v);
    let v = e
        .as_ref()
        .map(|e| vf_world::dump::proto_values(e, Attribute::MemberOf).iter().any(|m| m.contains(&g2().to_string()) || m.starts_with(NAMES[6])))
        .map(|b| b as u8)
        .unwrap_or(9);
    step(&mut o, "entry", "p0.memberof has g2", v);
    // index searches
    let by = |r: &mut QueryServerReadTransaction<'_>, n: &str| {
        r.internal_search(Filter::new(f_eq(Attribute::Name, PartialValue::new_iname(n))))
            .map(|v| v.iter().any(|e| e.get_uuid() == p0()))
            .unwrap_or(false)
    };
    let (old, new) = (by(r, names[0]), by(r, names[1]));
    let v = match (old, new) {
        (true, false) => 0,
        (false, true) => 1,
        _ => 9,
    };
    step(&mut o, "index", "search name=", v);
    let v = r
        .internal_search(Filter::new(f_eq(Attribute::MemberOf, PartialValue::Refer(g2()))))
        .map(|v| v.iter().any(|e| e.get_uuid() == p0()) as u8)
        .unwrap_or(9);
    step(&mut o, "index", "search memberof=g2", v);
    // name maps
    let (old, new) = (r.name_to_uuid(names[0]).ok() == Some(p0()), r.name_to_uuid(names[1]).ok() == Some(p0()));
    let v = match (old, new) {
        (true, false) => 0,
        (false, true) => 1,
        _ => 9,
    };
    step(&mut o, "namemap", "name_to_uuid", v);
    let v = r
        .uuid_to_spn(p0())
        .ok()
        .flatten()
        .map(|s| {
            let s = format!("{s:?}");
            let s = s.as_str();
            if s.contains(&format!("{}@", names[0])) || s.contains(&format!("\"{}\"", names[0])) {
                0
            } else if s.contains(&format!("{}@", names[1])) || s.contains(&format!("\"{}\"", names[1])) {
                1
            } else {
                9
            }
        })
        .unwrap_or(9);
    step(&mut o, "namemap", "uuid_to_spn", v);
    // the related entry
    let g = r.internal_search_uuid(g2()).ok();
    let v = g
        .as_ref()
        .map(|e| vf_world::dump::proto_values(e, Attribute::Member).iter().any(|m| m.contains(&p0().to_string()) || m.starts_with(names[0]) || m.starts_with(names[1])) as u8)
        .unwrap_or(9);
    step(&mut o, "entry", "g2.member has p0", v);
    let v = g
        .as_ref()
        .and_then(|e| e.get_ava_single_proto_string(Attribute::Description))
        .map(|d| if d == "gen0" { 0 } else if d == "gen1" { 1 } else { 9 })
        .unwrap_or(9);
    step(&mut o, "entry", "g2.description", v);
    // server-wide configuration of this transaction
    let v = if r.get_domain_display_name() == DISPLAY[0] {
        0
    } else if r.get_domain_display_name() == DISPLAY[1] {
        1
    } else {
        9
    };
    step(&mut o, "config", "domain display name", v);
    let v = match e {
        Some(p) => {
            let idn = ident::user_readwrite(p);
            // G1 is never touched by the writer; whether its description is readable depends on the profile only
            let f = Filter::new(f_eq(Attribute::Name, PartialValue::new_iname(NAMES[5]))).validate(r.get_schema());
            match f {
                Ok(f) => {
                    let se = kanidmd_lib::event::SearchEvent::new_impersonate(&idn, f.clone(), f);
                    match r.search_ext(&se) {
                        Ok(res) => res.iter().any(|e| e.get_ava_names().any(|a| a == "description")) as u8,
                        Err(_) => 9,
                    }
                }
                Err(_) => 9,
            }
        }
        None => 9,
    };
    step(&mut o, "config", "access decision", v);
    o
}

struct World {
    _scratch: Scratch,
    file: std::path::PathBuf,
    qs: Option<QueryServer>,
    gen: usize,
    clock: u64,
}

type St = (tokio::runtime::Runtime, Template, Option<World>);

fn init() -> St {
    let rt = srv::runtime();
    let tpl = Template::build(&rt, g_fault::populate);
    (rt, tpl, None)
}

fn fresh_world(rt: &tokio::runtime::Runtime, tpl: &Template) -> World {
    let scratch = Scratch::new();
    let file = scratch.file("c06.db");
    tpl.instantiate(&file);
    let qs = rt.block_on(g_fault::open_qs(Some(&file), 2, ct(10))).expect("open");
    rt.block_on(async {
        let mut w = qs.write(ct(11)).await.expect("write");
        apply_gen(&mut w, 0).expect("gen0");
        w.commit().expect("commit gen0");
    });
    World {
        _scratch: scratch,
        file,
        qs: Some(qs),
        gen: 0,
        clock: 12,
    }
}

enum End {
    Done,
    Blocked(String),
}

fn run_case(cx: &Check, st: &mut St, c: &Case) -> Outcome {
    let (rt, tpl, world) = st;
    // every case starts from a byte-identical fresh server, so that it is a pure function of its value
    *world = Some(fresh_world(rt, tpl));
    let w = world.as_mut().expect("world");
    for round in 0..c.warm.min(3) {
        let qs = w.qs.as_ref().expect("qs");
        let cur = w.gen;
        let o = rt.block_on(async {
            let mut r = qs.read().await.expect("read");
            observe(&mut r, false)
        });
        if let Some((_, name, v)) = o.iter().find(|(_, _, v)| *v != cur as u8) {
            return Outcome::fail(
                "a read transaction that did not overlap the commit mixes committed states",
                format!("warm-up round {round}: `{name}` = {v} but the committed generation is {cur}; all: {o:?}"),
            );
        }
        let when = ct(w.clock);
        w.clock += 1;
        rt.block_on(async {
            let mut wr = qs.write(when).await.expect("write");
            apply_gen(&mut wr, 1 - cur).expect("flip");
            wr.commit().expect("commit flip");
        });
        w.gen = 1 - cur;
    }
    if c.cold {
        w.qs = None;
        w.clock += 10;
        w.qs = Some(rt.block_on(g_fault::open_qs(Some(&w.file), 2, ct(w.clock))).expect("reopen"));
        w.clock += 1;
    }
    let qs = w.qs.as_ref().expect("qs").clone();
    let old = w.gen;
    let new = 1 - old;
    let when = ct(w.clock);
    w.clock += 1;

    let sched = Sched::new();
    let mut interleaved = false;
    let (obs, wres, end, log) = std::thread::scope(|sc| {
        let s0 = sched.clone();
        let q0 = qs.clone();
        let reader = sc.spawn(move || {
            let rt = srv::runtime();
            s0.enter(0);
            let r = rt.block_on(q0.read());
            let out = match r {
                Ok(mut r) => {
                    hfault::pause_point("r.h.first_query");
                    let a = observe(&mut r, true);
                    hfault::pause_point("r.h.repeat");
                    let b = observe(&mut r, true);
                    Ok((a, b))
                }
                Err(e) => Err(format!("{e:?}")),
            };
            s0.leave(0);
            out
        });
        let s1 = sched.clone();
        let q1 = qs.clone();
        let writer = sc.spawn(move || {
            let rt = srv::runtime();
            s1.enter(1);
            let res = rt.block_on(async {
                let mut w = q1.write(when).await.map_err(|e| format!("write: {e:?}"))?;
                apply_gen(&mut w, new).map_err(|e| format!("ops: {e:?}"))?;
                hfault::pause_point("w.h.before_commit");
                w.commit().map_err(|e| format!("commit: {e:?}"))
            });
            s1.leave(1);
            res
        });
        // scheduler
        let mut end = End::Done;
        let mut done = [false, false];
        // both roles first reach their first pause point
        for role in 0..2 {
            match sched.wait_parked(role, STEP_TIMEOUT) {
                Ok(None) => done[role] = true,
                Ok(Some(_)) => {}
                Err(()) => end = End::Blocked(format!("role {role} never reached its first pause point")),
            }
        }
        let mut last_role = None;
        let mut switches = 0;
        if matches!(end, End::Done) {
            let tail: Vec<bool> = if c.writer_first_at_end { vec![true, false] } else { vec![false, true] };
            let mut drive = |role: usize, to_completion: bool, done: &mut [bool; 2], end: &mut End| {
                loop {
                    if done[role] {
                        return;
                    }
                    if last_role != Some(role) {
                        switches += 1;
                        last_role = Some(role);
                    }
                    match sched.step(role, STEP_TIMEOUT) {
                        Ok(None) => done[role] = true,
                        Ok(Some(_)) => {}
                        Err(()) => {
                            *end = End::Blocked(format!("role {role} did not reach the next pause point in time"));
                            return;
                        }
                    }
                    if !to_completion {
                        return;
                    }
                }
            };
            for s in &c.steps {
                if !matches!(end, End::Done) {
                    break;
                }
                drive(*s as usize, false, &mut done, &mut end);
            }
            for r in tail {
                if matches!(end, End::Done) {
                    drive(r as usize, true, &mut done, &mut end);
                }
            }
        }
        interleaved = switches >= 3;
        sched.free_run();
        let obs = reader.join().expect("reader thread");
        let wres = writer.join().expect("writer thread");
        (obs, wres, end, sched.take_log())
    });

    if let End::Blocked(why) = end {
        // a blocked thread is a scheduling problem, never a verdict; start over with a new server
        *world = None;
        cx.inconclusive(&format!("schedule could not be driven: {why} ({c:?})"));
        return Outcome::discard();
    }
    match wres {
        Ok(()) => w.gen = new,
        Err(e) => {
            *world = None;
            cx.inconclusive(&format!("writer failed: {e}"));
            return Outcome::discard();
        }
    }
    let (a, b) = match obs {
        Ok(x) => x,
        Err(e) => {
            *world = None;
            cx.inconclusive(&format!("reader failed: {e}"));
            return Outcome::discard();
        }
    };
    // where did the writer's publication fall relative to the reader?
    let first_w_pub = log.iter().position(|(r, n)| *r == 1 && *n == "w.qs.cid");
    let last_w = log.iter().rposition(|(r, _)| *r == 1);
    let first_r = log.iter().position(|(r, _)| *r == 0);
    let last_r = log.iter().rposition(|(r, _)| *r == 0);
    let overlapping = matches!((first_w_pub, last_w, first_r, last_r), (Some(fw), Some(lw), Some(fr), Some(lr)) if fw < lr && fr < lw);
    let mut out = Outcome::pass(overlapping && interleaved);
    out = out.class(if overlapping { "writer-publication-overlaps-reader" } else { "no-overlap" });
    if c.cold {
        out = out.class("cold-caches");
    }

    // classify the schedule by root cause (from the order in which pause points were passed)
    let pos = |role: usize, name: &str| log.iter().position(|(r, n)| *r == role && *n == name);
    let r_acq = (pos(0, "r.qs.start"), pos(0, "r.qs.be"));
    let w_pub = (pos(1, "w.qs.ts_max"), log.iter().rposition(|(r, _)| *r == 1));
    // a logged point has been PASSED: the statement after it has run by the time the scheduler
    // moves on, so the SQLite COMMIT is done once w.arc.flushed has been passed
    let w_db = pos(1, "w.arc.flushed");
    let r_end = log.iter().rposition(|(r, _)| *r == 0);
    let acquisition_interleaved = matches!((r_acq, w_pub), ((Some(rs), Some(re)), (Some(ws), Some(we))) if ws < re && rs < we);
    let db_commit_during_read = matches!((r_acq.0, w_db, r_end), (Some(rs), Some(db), Some(rl)) if rs < db && db < rl);
    let cause = if acquisition_interleaved {
        out = out.class("acquisition-interleaved-with-publication");
        SIG_ACQ
    } else if db_commit_during_read {
        out = out.class("database-commit-during-read-transaction");
        SIG_DEFERRED
    } else {
        out = out.class("sequential");
        "a read transaction that did not overlap the commit mixes committed states"
    };

    // oracle
    let tag = |v: u8| -> Option<&'static str> {
        if v == old as u8 {
            Some("old")
        } else if v == new as u8 {
            Some("new")
        } else {
            None
        }
    };
    let passed: Vec<String> = log.iter().map(|(r, n)| format!("{}:{n}", if *r == 0 { "R" } else { "W" })).collect();
    let mut olds: BTreeSet<&'static str> = BTreeSet::new();
    let mut news: BTreeSet<&'static str> = BTreeSet::new();
    let mut neither = Vec::new();
    let mut detail = Vec::new();
    for (round, o) in [(1, &a), (2, &b)] {
        for (layer, name, v) in o {
            match tag(*v) {
                Some("old") => {
                    olds.insert(layer);
                }
                Some("new") => {
                    news.insert(layer);
                }
                _ => neither.push(format!("r{round} {name}")),
            }
            detail.push(format!("r{round} {name}={}", tag(*v).unwrap_or("NEITHER")));
        }
    }
    let kind = if !neither.is_empty() {
        Some(format!("observations that match neither committed state: {neither:?}"))
    } else if !olds.is_empty() && !news.is_empty() {
        Some(format!("new in layers {news:?}, old in layers {olds:?}"))
    } else if a != b {
        Some("the repeated round differs from the first".to_string())
    } else {
        None
    };
    if let Some(kind) = kind {
        return Outcome::fail(cause, format!("{kind}; observations {detail:?}; schedule {c:?}; order of passed points {passed:?}"));
    }
    out.class(if news.is_empty() { "reader-saw-old" } else { "reader-saw-new" })
}

/// Known finding: nothing serialises the snapshot acquisitions of a starting read transaction
/// against the publication steps of a commit.
const SIG_ACQ: &str = "read transaction mixes committed states: its snapshot acquisition (QueryServer::read / IdlArcSqlite::read) interleaved with commit publication";
/// Known finding: the SQLite snapshot is deferred to the first statement that reaches SQLite, while
/// the caches and in-memory configuration were fixed at begin.
const SIG_DEFERRED: &str = "read transaction mixes committed states: the database commit happened while the read transaction was open (SQLite snapshot deferred behind independently versioned caches)";

/// reader ~36 points, writer ~24 points
const R_POINTS: u64 = 40;
const W_POINTS: u64 = 26;

fn sweep(i: u64) -> Case {
    // three families laid out consecutively:
    //  A: reader i steps, writer completes, reader completes          (i in 0..R)
    //  B: writer j steps, reader completes, writer completes          (j in 0..W)
    //  C: reader i steps, writer j steps, reader completes, writer completes (i,j) grid, cold and warm
    let cold = i % 2 == 1;
    let i = i / 2;
    let warm = (i % 3) as u8;
    if i < R_POINTS {
        let mut steps = vec![false; i as usize];
        steps.extend(vec![true; W_POINTS as usize + 4]);
        return Case { warm, cold, steps, writer_first_at_end: false };
    }
    let i = i - R_POINTS;
    if i < W_POINTS {
        let mut steps = vec![true; i as usize];
        steps.extend(vec![false; R_POINTS as usize + 4]);
        return Case { warm, cold, steps, writer_first_at_end: false };
    }
    let i = i - W_POINTS;
    let (ri, wj) = (i / W_POINTS, i % W_POINTS);
    let mut steps = vec![false; ri as usize];
    steps.extend(vec![true; wj as usize]);
    Case { warm, cold, steps, writer_first_at_end: false }
}

fn main() {
    let cx = Check::from_args("C06", "exploration");
    g_fault::sweep_stale_scratch();
    cx.rule(
        "schedules of one reader and one writer thread over the pause points of QueryServer::read, IdlArcSqlite::read, QueryServerWriteTransaction::commit, BackendWriteTransaction::commit, \
         IdlArcSqliteWriteTransaction::commit plus harness points before the reader's first query and after each of its 2x10 observations; file-backed server, pool 2, warm or cold (just reopened) caches. \
         Sub-check switch-sweep enumerates: reader i steps then writer to completion; writer j steps then reader to completion; reader i steps, writer j steps, reader to completion (strided in quick). \
         Sub-check random-schedules draws step sequences. non-trivial = the writer's publication steps overlap the reader's transaction and the schedule switches threads >= 3 times; distinct by schedule.",
    );
    cx.assume("acquisitions inside one struct literal / one method chain (d_info..accesscontrols in QueryServer::read, schema..accesscontrols in commit, Backend::read) are one atomic step: hooks are add-only statements");
    cx.assume("a thread that cannot be driven to its next pause point within 20 s makes the run inconclusive, never a violation");
    cx.assume("every schedule starts from a byte-identical fresh file-backed server; 0..2 sequential read+flip rounds first give the caches a history");

    let total_sweep = 2 * (R_POINTS + W_POINTS + R_POINTS * W_POINTS);
    let stride = cx.tier.pick(11u64, 1u64);
    let n_sweep = total_sweep.div_ceil(stride);
    cx.enumerate("switch-sweep", n_sweep, |i| sweep(i * stride), init, |st, c| run_case(&cx, st, c));
    if stride > 1 {
        cx.not_exhaustive();
    }

    let n = cx.tier.pick(300, 20_000);
    cx.prop(
        "random-schedules",
        PropCfg::new(n).shrink(60),
        || {
            (0u8..3, any::<bool>(), proptest::collection::vec(proptest::bool::weighted(0.4), 0..90), any::<bool>())
                .prop_map(|(warm, cold, steps, writer_first_at_end)| Case { warm, cold, steps, writer_first_at_end })
        },
        init,
        |st, c| run_case(&cx, st, c),
    );
    cx.require_class("writer-publication-overlaps-reader", 100);
    cx.finish();
}
