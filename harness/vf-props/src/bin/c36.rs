//! C36 — Removing a credential revokes its sessions.
//!
//! Random histories on one real `IdmServer` for one person: real password logins (session records
//! written by the delayed action), directly written session records (current / earlier / unknown
//! credential id, optional expiry), primary credential replacement and removal, explicit session
//! revocation, OAuth2 session records with a live / revoked / missing / no parent, clock steps
//! around the grace window, unrelated modifications (which run the session-consistency plugin).
//!
//! Oracle, from the stored entry after every commit:
//!  (A) in the commit that removes credential c, every session that was live before the commit and
//!      was issued with c is `RevokedAt(cid of that commit)`;
//!  (A') after any commit no live session refers to a credential that is not on the account;
//!  (B) once strictly past the grace window, an OAuth2 session is usable (the account check used by
//!      OAuth2 refresh and introspection says so) only if it has no parent or its parent login
//!      session is recorded and not revoked.
use kanidmd_lib::constants::*;
use kanidmd_lib::idm::account::DestroySessionTokenEvent;
use kanidmd_lib::idm::server::IdmServerTransaction;
use kanidmd_lib::modify::{Modify, ModifyList};
use kanidmd_lib::prelude::*;
use kanidmd_lib::value::{AuthType, Oauth2Session, Session, SessionState, Value};
use kanidmd_lib::verif_hooks::ident;
use kanidmd_lib::verif_hooks::repl::txn_cid;
use kanidmd_lib::verif_hooks::session as hk;
use proptest::prelude::*;
use serde::{Deserialize, Serialize};
use std::collections::BTreeMap;
use vf_core::{pick_idx, CaseLog, Check, Outcome, PropCfg};
use vf_world::g_session::{self as gs, Login, Mech, World};
use vf_world::ops::{self, Op as WOp, Ref};
use vf_world::pop;
use vf_world::srv::{self, ct};

const GRACE: u64 = 300;

#[derive(Debug, Clone, Copy, PartialEq, Eq, Serialize, Deserialize)]
enum CredSel {
    Current,
    Earlier(u8),
    Unknown,
}

#[derive(Debug, Clone, Copy, PartialEq, Eq, Serialize, Deserialize)]
enum ParentSel {
    Session(u16),
    Missing,
    NoParent,
}

#[derive(Debug, Clone, PartialEq, Eq, Serialize, Deserialize)]
enum Op {
    Login,
    AddSession { cred: CredSel, ttl: Option<u16> },
    ReplacePrimary,
    RemovePrimary,
    RevokeSession { k: u16 },
    Grant { parent: ParentSel },
    Advance { secs: u16 },
    Touch,
}

#[derive(Debug, Clone, Serialize, Deserialize)]
struct Case {
    ops: Vec<Op>,
}

fn arb_op() -> impl Strategy<Value = Op> {
    prop_oneof![
        6 => Just(Op::Login),
        5 => (prop_oneof![4 => Just(CredSel::Current), 2 => (0u8..4).prop_map(CredSel::Earlier), 1 => Just(CredSel::Unknown)], prop::option::weighted(0.5, 1u16..3000))
            .prop_map(|(cred, ttl)| Op::AddSession { cred, ttl }),
        5 => Just(Op::ReplacePrimary),
        2 => Just(Op::RemovePrimary),
        3 => any::<u16>().prop_map(|k| Op::RevokeSession { k }),
        7 => prop_oneof![6 => any::<u16>().prop_map(ParentSel::Session), 1 => Just(ParentSel::Missing), 1 => Just(ParentSel::NoParent)].prop_map(|parent| Op::Grant { parent }),
        8 => prop_oneof![Just(1u16), Just(60), Just(298), Just(299), Just(300), Just(301), 2u16..2000].prop_map(|secs| Op::Advance { secs }),
        3 => Just(Op::Touch),
    ]
}

struct Grant {
    sid: Uuid,
    parent: Option<Uuid>,
    iat: u64,
}

fn det_uuid(kind: u32, n: u32) -> Uuid {
    pop::uuid_of(pop::Kind::Other, (kind << 16) + n)
}

/// After a commit: (A') no live session of a credential that is not on the account.
fn check_live_sessions(e: &kanidmd_lib::entry::EntrySealedCommitted, log: &mut CaseLog, ctx: &str) -> bool {
    let (primary, pk, apk) = hk::credential_ids(e);
    let creds: Vec<Uuid> = primary.into_iter().chain(pk).chain(apk).collect();
    for (sid, s) in hk::uat_sessions(e) {
        if s.revoked_at.is_none() && !creds.contains(&s.cred_id) {
            log.fail(
                "live session refers to a credential that is not on the account",
                format!("{ctx}: session {sid} (cred {}) is {:?} but the account holds {creds:?}", s.cred_id, s),
            );
            return false;
        }
    }
    true
}

fn run(rt: &tokio::runtime::Runtime, c: &Case) -> Outcome {
    let mut log = CaseLog::new();
    rt.block_on(async {
        let mut w = World::new().await;
        let person = pop::person_uuid(0);
        let name = "vperson";
        let rs = Ref::O(0).uuid();
        let setup: Result<Option<Uuid>, OperationError> = async {
            let cid = w.create_person(100, person, name, Some(Mech::Password), gs::PW).await?;
            w.write(101, |t| {
                t.qs_write.internal_create(vec![pop::group(pop::group_uuid(0), "vgroup", &[person])])?;
                ops::apply_in_txn(&mut t.qs_write, &WOp::CreateOAuth2 { i: 0, name: 5, group: Ref::G(0) })
            })
            .await?;
            Ok(cid)
        }
        .await;
        let mut current_cred = match setup {
            Ok(c) => c,
            Err(e) => {
                log.fail("harness: setup failed", format!("{e:?}"));
                return;
            }
        };
        let mut earlier: Vec<Uuid> = Vec::new();
        let mut session_ids: Vec<Uuid> = Vec::new();
        let mut grants: Vec<Grant> = Vec::new();
        let mut now: u64 = 1000;
        let mut counter = 0u32;
        let (mut n_cred_revoked, mut n_b_judged) = (0u32, 0u32);

        for (step, op) in c.ops.iter().enumerate() {
            now += 1;
            let before = w.entry(person).await.ok();
            let before_sessions = before.as_deref().map(hk::uat_sessions).unwrap_or_default();
            // the credential this op removes (if any) and the cid of the removing commit
            let mut removed: Option<(Uuid, Cid)> = None;
            match op {
                Op::Login => {
                    if let Login::Success(t) = w.login(name, Mech::Password, gs::PW, false, now).await {
                        w.process_delayed(now).await;
                        if let Some(u) = gs::token_parts(&t).and_then(|p| serde_json::from_slice::<kanidm_proto::internal::UserAuthToken>(&p.payload).ok()) {
                            session_ids.push(u.session_id);
                        }
                        log.class("op:login");
                    } else {
                        log.class("op:login-refused");
                    }
                }
                Op::AddSession { cred, ttl } => {
                    counter += 1;
                    let sid = det_uuid(1, counter);
                    let cred_id = match cred {
                        CredSel::Current => current_cred.unwrap_or(det_uuid(3, 0)),
                        CredSel::Earlier(k) => {
                            if earlier.is_empty() {
                                det_uuid(3, 1)
                            } else {
                                earlier[*k as usize % earlier.len()]
                            }
                        }
                        CredSel::Unknown => det_uuid(3, 2),
                    };
                    let v = Value::Session(
                        sid,
                        Session {
                            label: "direct".into(),
                            state: ttl.map(|t| SessionState::ExpiresAt(gs::odt(now + t as u64))).unwrap_or(SessionState::NeverExpires),
                            issued_at: gs::odt(now),
                            issued_by: IdentityId::Internal(Uuid::nil()),
                            cred_id,
                            scope: SessionScope::PrivilegeCapable,
                            type_: AuthType::Password,
                            ext_metadata: Default::default(),
                        },
                    );
                    if w.modify(now, person, vec![Modify::Present(Attribute::UserAuthTokenSession, v)]).await.is_ok() {
                        session_ids.push(sid);
                        log.class(format!("op:add-session:{}", match cred {
                            CredSel::Current => "current-cred",
                            CredSel::Earlier(_) => "earlier-cred",
                            CredSel::Unknown => "unknown-cred",
                        }));
                    }
                }
                Op::ReplacePrimary | Op::RemovePrimary => {
                    let replace = matches!(op, Op::ReplacePrimary);
                    let newc = kanidmd_lib::credential::Credential::new_password_only(&kanidm_lib_crypto::CryptoPolicy::danger_test_minimum(), gs::PW, gs::odt(now)).expect("cred");
                    let new_id = hk::credential_uuid(&newc);
                    let r = w
                        .write(now, move |t| {
                            let mut mods = vec![Modify::Purged(Attribute::PrimaryCredential)];
                            if replace {
                                mods.push(Modify::Present(Attribute::PrimaryCredential, Value::new_credential("primary", newc)));
                            }
                            t.qs_write.internal_modify(&gs::uuid_filter(person), &ModifyList::new_list(mods))?;
                            Ok(txn_cid(&t.qs_write))
                        })
                        .await;
                    if let Ok(cid) = r {
                        if let Some(old) = current_cred {
                            removed = Some((old, cid));
                            earlier.push(old);
                        }
                        current_cred = if replace { Some(new_id) } else { None };
                        log.class(if replace { "op:credential-replaced" } else { "op:credential-removed" });
                    }
                }
                Op::RevokeSession { k } => {
                    if !session_ids.is_empty() {
                        let sid = session_ids[pick_idx(*k, session_ids.len())];
                        let ev = DestroySessionTokenEvent { ident: ident::internal(), target: person, token_id: sid };
                        if w.write(now, move |t| t.account_destroy_session_token(&ev)).await.is_ok() {
                            log.class("op:session-revoked");
                        }
                    }
                }
                Op::Grant { parent } => {
                    counter += 1;
                    let sid = det_uuid(2, counter);
                    let p = match parent {
                        ParentSel::Session(k) => {
                            if session_ids.is_empty() {
                                Some(det_uuid(4, 0))
                            } else {
                                Some(session_ids[pick_idx(*k, session_ids.len())])
                            }
                        }
                        ParentSel::Missing => Some(det_uuid(4, counter)),
                        ParentSel::NoParent => None,
                    };
                    let v = Value::Oauth2Session(
                        sid,
                        Oauth2Session {
                            parent: p,
                            state: SessionState::NeverExpires,
                            issued_at: gs::odt(now),
                            rs_uuid: rs,
                        },
                    );
                    if w.modify(now, person, vec![Modify::Present(Attribute::OAuth2Session, v)]).await.is_ok() {
                        grants.push(Grant { sid, parent: p, iat: now });
                        log.class("op:oauth2-grant");
                    }
                }
                Op::Advance { secs } => now += *secs as u64,
                Op::Touch => {
                    let d = format!("touch {step}");
                    let _ = w.modify(now, person, vec![Modify::Purged(Attribute::Description), Modify::Present(Attribute::Description, Value::new_utf8s(&d))]).await;
                }
            }

            let Ok(after) = w.entry(person).await else {
                log.fail("harness: person entry disappeared", format!("step {step}"));
                return;
            };
            let after_sessions = hk::uat_sessions(&after);
            // (A)
            if let Some((old, cid)) = &removed {
                for (sid, s) in &before_sessions {
                    if s.revoked_at.is_none() && s.cred_id == *old {
                        match after_sessions.get(sid).and_then(|a| a.revoked_at.clone()) {
                            Some(rc) if rc == *cid => {
                                n_cred_revoked += 1;
                                log.class("session-revoked-by-credential-removal");
                            }
                            other => {
                                log.fail(
                                    "session of a removed credential not revoked in the same change",
                                    format!(
                                        "step {step} {op:?} t={now}: session {sid} issued with credential {old} is {:?} after the commit {cid:?} (revoked_at {other:?})",
                                        after_sessions.get(sid)
                                    ),
                                );
                                return;
                            }
                        }
                    }
                }
            }
            // (A')
            if !check_live_sessions(&after, &mut log, &format!("after step {step} {op:?}")) {
                return;
            }
            // (B)
            let o2 = hk::oauth2_sessions(&after);
            let apis = hk::api_token_sessions(&after);
            let sess: BTreeMap<Uuid, bool> = after_sessions.iter().map(|(k, v)| (*k, v.revoked_at.is_none())).collect();
            let mut rd = w.idms.proxy_read().await.expect("read");
            for g in &grants {
                let r = rd.check_oauth2_account_uuid_valid(person, g.sid, g.parent, (srv::T0_SECS + g.iat) as i64, ct(now));
                let usable = matches!(r, Ok(Some(_)));
                let past = now > g.iat + GRACE;
                let parent_live = match g.parent {
                    None => true,
                    Some(p) => sess.get(&p).copied().unwrap_or(false) || apis.contains_key(&p),
                };
                if past {
                    n_b_judged += 1;
                    if usable && !parent_live {
                        log.fail(
                            "oauth2 session usable past grace although its parent session is revoked or missing",
                            format!(
                                "after step {step} {op:?} t={now}: oauth2 session {} (iat {}, parent {:?}) accepted; parent state {:?}; stored oauth2 record {:?}",
                                g.sid,
                                g.iat,
                                g.parent,
                                g.parent.and_then(|p| after_sessions.get(&p)),
                                o2.get(&g.sid)
                            ),
                        );
                        return;
                    }
                    log.class(match (usable, parent_live) {
                        (true, _) => "oauth2-past-grace:usable-with-live-parent",
                        (false, false) => "oauth2-past-grace:refused-parent-revoked-or-missing",
                        (false, true) => "oauth2-past-grace:refused-other (not judged)",
                    });
                } else {
                    log.class(if usable { "oauth2-in-grace:usable" } else { "oauth2-in-grace:refused" });
                }
            }
        }
        if n_cred_revoked > 0 && n_b_judged > 0 {
            log.nontrivial();
        }
    });
    log.finish()
}

fn main() {
    let cx = Check::from_args("C36", "exploration");
    cx.rule(
        "random histories (quick 8-40 ops) for one person on a real IdmServer: password logins (session via delayed action), directly written session records (current/earlier/unknown credential id, with or without expiry), \
         primary credential replace/remove, session revoke, OAuth2 session records (parent = some login session / missing id / none), clock steps {1,60,298..301,random}, unrelated modifies; the three oracles run after every op. \
         non-trivial = at least one session was revoked by a credential removal and at least one OAuth2 session was judged past grace; distinct by hash of the history",
    );
    cx.assume("only the primary credential is added/removed (no passkey fixture); OAuth2 sessions are written as stored records and judged through check_oauth2_account_uuid_valid, the account check that OAuth2 refresh and introspection call, not through a full authorisation-code flow");
    cx.assume("inside the grace window and exactly at its end nothing is demanded of OAuth2 sessions");
    let n = cx.tier.pick(320, 8_000);
    let len = cx.tier.pick(8..41usize, 10..100usize);
    cx.prop(
        "credential-session-histories",
        PropCfg::new(n).shrink(150),
        || prop::collection::vec(arb_op(), len.clone()).prop_map(|ops| Case { ops }),
        srv::runtime,
        |rt, c| run(rt, c),
    );
    for (l, floor) in [
        ("session-revoked-by-credential-removal", 150),
        ("op:login", 150),
        ("op:add-session:current-cred", 100),
        ("op:credential-removed", 50),
        ("oauth2-past-grace:usable-with-live-parent", 50),
        ("oauth2-past-grace:refused-parent-revoked-or-missing", 80),
        ("oauth2-in-grace:usable", 80),
    ] {
        cx.require_class(l, floor);
    }
    cx.finish();
}
