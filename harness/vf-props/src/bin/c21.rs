//! C21 — POSIX ids never land in reserved ranges.
//!
//! Oracle: the documented table (book, "GID Number Generation"), written here by hand — never the
//! plugin's constants. Three parts:
//!  * pure: the real plugin transform (`apply_gidnumber`, reached through a verif hook) on a detached
//!    entry, for generated ids (uuid tail -> gid) and user-supplied ids; bounded-exhaustive over all
//!    table boundaries ±k, random, and (thorough) the literal sweep of all 2^32 tails and all 2^32
//!    supplied numbers;
//!  * server: differential histories through a real server (create / modify / batch-modify of posix
//!    accounts and groups) — after every commit every live posix entry has exactly one gidnumber
//!    outside the reserved ranges, and the op's own expectation holds.
use kanidmd_lib::entry::{Entry, EntryInvalid, EntryNew};
use kanidmd_lib::modify::{Modify, ModifyList};
use kanidmd_lib::prelude::*;
use kanidmd_lib::value::Value;
use kanidmd_lib::verif_hooks::export::entry as hentry;
use kanidmd_lib::verif_hooks::{ident, integrity::gidnumber as hgid};
use proptest::prelude::*;
use serde::{Deserialize, Serialize};
use std::collections::BTreeMap;
use std::iter::once;
use vf_core::{CaseLog, Check, Outcome, PropCfg, Tier};
use vf_world::dump::{status_of, Status};
use vf_world::ops::Node;
use vf_world::{dump, pop, srv};

// ------------------------------------------------------------------------------------------------
// the documented table (book/src/accounts/posix_accounts_and_groups.md)

/// Ranges a POSIX id must never land in: system, systemd homed, systemd dynuser, nobody, the
/// 16-bit sentinel, and everything >= 2^31.
fn reserved(g: u32) -> Option<&'static str> {
    match g {
        0..=999 => Some("system 0-999"),
        60001..=60577 => Some("systemd-homed 60001-60577"),
        61184..=65519 => Some("systemd-dynuser 61184-65519"),
        65534 => Some("nobody 65534"),
        65535 => Some("16bit sentinel 65535"),
        0x8000_0000..=u32::MAX => Some("unusable >= 2^31"),
        _ => None,
    }
}

/// Row of the table a non-reserved number falls in (class labels only).
fn allowed_row(g: u32) -> &'static str {
    match g {
        1000..=60000 => "user",
        60578..=61183 => "unused-A",
        65520..=65533 => "unused-B",
        65536..=524287 => "unused-C",
        524288..=1879048191 => "nspawn(accepted for imports)",
        1879048192..=2147483647 => "kanidm-dyn-alloc",
        _ => "reserved",
    }
}

/// Documented generation function: the low 28 bits of the uuid's last four bytes, moved into
/// [0x7000_0000, 0x7fff_ffff].
fn expected_generated(tail: u32) -> u32 {
    0x7000_0000 | (tail & 0x0fff_ffff)
}

/// Every first/last number of a table row.
const EDGES: [u64; 13] = [
    0,
    1000,
    60001,
    60578,
    61184,
    65520,
    65534,
    65535,
    65536,
    524288,
    1879048192,
    2147483648,
    4294967296,
];

fn boundary_values(k: u64) -> Vec<u32> {
    let mut v = Vec::new();
    for e in EDGES {
        let lo = e.saturating_sub(k);
        let hi = (e + k).min(u32::MAX as u64 + 1);
        for x in lo..hi {
            v.push(x as u32);
        }
    }
    // tails whose low 28 bits are extreme, for every value of the 4 masked-out bits
    for top in 0u64..16 {
        let base = top << 28;
        for x in base..(base + k).min(1 << 32) {
            v.push(x as u32);
        }
        let end = base + (1 << 28);
        for x in end.saturating_sub(k)..end {
            v.push(x as u32);
        }
    }
    v.sort_unstable();
    v.dedup();
    v
}

// ------------------------------------------------------------------------------------------------
// pure part

/// Two detached posix entries (an account and a group) reused across calls.
struct Det {
    acct: Entry<EntryInvalid, EntryNew>,
    grp: Entry<EntryInvalid, EntryNew>,
}

fn det() -> Det {
    let cid = ident::cid(Uuid::from_u128(0x5151), srv::t0());
    let mut a = pop::person(pop::person_uuid(0), "anna");
    a.add_ava(Attribute::Class, EntryClass::PosixAccount.to_value());
    let mut g = pop::group(pop::group_uuid(0), "gus", &[]);
    g.add_ava(Attribute::Class, EntryClass::PosixGroup.to_value());
    Det {
        acct: hentry::invalid_new(a, cid.clone()),
        grp: hentry::invalid_new(g, cid),
    }
}

/// uuid whose last four bytes are `tail`; the other twelve bytes vary with `salt` (they must not
/// influence the result).
fn uuid_with_tail(tail: u32, salt: u32) -> Uuid {
    let head = (salt as u128).wrapping_mul(0x9E37_79B9_7F4A_7C15_F39C_C060_5CED_C835) | (1u128 << 127);
    Uuid::from_u128((head & !0xffff_ffffu128) | tail as u128)
}

fn run_generated(e: &mut Entry<EntryInvalid, EntryNew>, uuid: Uuid) -> Result<Option<u32>, OperationError> {
    e.set_ava(&Attribute::Uuid, once(Value::Uuid(uuid)));
    let _ = e.pop_ava(Attribute::GidNumber);
    hgid::transform_new(e)?;
    Ok(e.get_ava_single_uint32(Attribute::GidNumber))
}

fn run_supplied(e: &mut Entry<EntryInvalid, EntryNew>, gid: u32) -> Result<Option<u32>, OperationError> {
    e.set_ava(&Attribute::GidNumber, once(Value::Uint32(gid)));
    hgid::transform_new(e)?;
    Ok(e.get_ava_single_uint32(Attribute::GidNumber))
}

/// Some(signature, message) when the generated id for `tail` is wrong.
fn judge_generated(d: &mut Det, tail: u32, second_run: bool) -> Option<(&'static str, String)> {
    let u1 = uuid_with_tail(tail, tail);
    let got = match run_generated(&mut d.acct, u1) {
        Ok(Some(g)) => g,
        Ok(None) => return Some(("posix entry left without gidnumber", format!("uuid {u1}"))),
        Err(e) => return Some(("generation refused", format!("uuid {u1}: {e:?}"))),
    };
    if let Some(r) = reserved(got) {
        return Some(("generated gid in reserved range", format!("uuid {u1} -> {got} ({r})")));
    }
    if !(0x7000_0000..=0x7fff_ffff).contains(&got) {
        return Some(("generated gid outside the kanidm allocation range", format!("uuid {u1} -> {got}")));
    }
    if got != expected_generated(tail) {
        return Some((
            "generated gid differs from the documented function of the uuid",
            format!("uuid {u1} -> {got:#x}, documented {:#x}", expected_generated(tail)),
        ));
    }
    if !second_run {
        return None;
    }
    // determinism: a different entry kind and different leading uuid bytes, same tail
    let u2 = uuid_with_tail(tail, tail ^ 0xa5a5_5a5a);
    match run_generated(&mut d.grp, u2) {
        Ok(Some(g2)) if g2 == got => None,
        other => Some((
            "generated gid is not a function of the uuid tail",
            format!("{u1} -> {got}, {u2} (group) -> {other:?}"),
        )),
    }
}

/// (accepted?, failure)
fn judge_supplied(d: &mut Det, gid: u32, group: bool) -> (bool, Option<(&'static str, String)>) {
    let e = if group { &mut d.grp } else { &mut d.acct };
    match run_supplied(e, gid) {
        Ok(Some(stored)) => {
            if let Some(r) = reserved(stored) {
                (true, Some(("reserved gid accepted", format!("supplied {gid}, stored {stored} ({r})"))))
            } else if stored != gid {
                (true, Some(("supplied gid silently altered", format!("supplied {gid}, stored {stored}"))))
            } else {
                (true, None)
            }
        }
        Ok(None) => (true, Some(("posix entry left without gidnumber", format!("supplied {gid}")))),
        Err(OperationError::PL0001GidOverlapsSystemRange) => (false, None),
        Err(e) => (false, Some(("unexpected error from the transform", format!("supplied {gid}: {e:?}")))),
    }
}

#[derive(Debug, Clone, Serialize, Deserialize)]
enum Pure {
    Generated { tail: u32 },
    Supplied { gid: u32, group: bool },
}

fn pure(d: &mut Det, c: &Pure) -> Outcome {
    match c {
        Pure::Generated { tail } => match judge_generated(d, *tail, true) {
            Some((s, m)) => Outcome::fail(s, m),
            None => Outcome::pass(true).class("generated").class(format!("generated:top4={:x}", tail >> 28)),
        },
        Pure::Supplied { gid, group } => {
            let (acc, f) = judge_supplied(d, *gid, *group);
            if let Some((s, m)) = f {
                return Outcome::fail(s, m);
            }
            let o = Outcome::pass(true);
            match (reserved(*gid), acc) {
                (Some(r), _) => o.class("supplied-reserved-rejected").class(format!("rejected:{r}")),
                (None, true) => o.class("supplied-allowed-accepted").class(format!("accepted:{}", allowed_row(*gid))),
                // over-refusal is not a violation of this property; it is counted and the floor on
                // `supplied-allowed-accepted` keeps the check from passing vacuously
                (None, false) => o.class(format!("allowed-but-refused:{}", allowed_row(*gid))),
            }
        }
    }
}

/// A contiguous (or strided) block of the literal sweep; one enumerated case = one block.
#[derive(Debug, Clone, Serialize, Deserialize)]
struct Block {
    supplied: bool,
    lo: u32,
    count: u64,
    stride: u64,
}

fn sweep(d: &mut Det, b: &Block) -> Outcome {
    let mut acc = 0u64;
    let mut rej = 0u64;
    for k in 0..b.count {
        let v = b.lo as u64 + k * b.stride;
        if v > u32::MAX as u64 {
            break;
        }
        let v = v as u32;
        if b.supplied {
            let (a, f) = judge_supplied(d, v, k & 1 == 1);
            if let Some((s, m)) = f {
                return Outcome::fail(s, m);
            }
            // exactness of the reject side is the property; the accept side only feeds the floor
            match (reserved(v).is_some(), a) {
                (true, true) => return Outcome::fail("reserved gid accepted", format!("supplied {v}")),
                (_, true) => acc += 1,
                (_, false) => rej += 1,
            }
        } else if let Some((s, m)) = judge_generated(d, v, k % 16 == 0) {
            return Outcome::fail(s, m);
        } else {
            acc += 1;
        }
    }
    let mut o = Outcome::pass(true).class(if b.supplied { "sweep-block:supplied" } else { "sweep-block:generated" });
    if acc > 0 {
        o = o.class("sweep-block:has-accepted");
    }
    if rej > 0 {
        o = o.class("sweep-block:has-rejected");
    }
    o
}

// ------------------------------------------------------------------------------------------------
// server part

#[derive(Debug, Clone, Copy, PartialEq, Eq, Serialize, Deserialize)]
enum K {
    Person,
    Service,
    Group,
}

#[derive(Debug, Clone, Serialize, Deserialize)]
enum POp {
    /// create directly with the posix class (gid supplied or to be generated)
    CreatePosix { kind: K, slot: u8, tail: u32, gid: Option<u32> },
    CreatePlain { kind: K, slot: u8, tail: u32 },
    /// add the posix class by modify
    Enable { slot: u8, gid: Option<u32> },
    /// purge + present
    SetGid { slot: u8, gid: u32 },
    /// present only (second value on a single-value attribute when one exists)
    AddGid { slot: u8, gid: u32 },
    /// purge: a posix entry must get its generated id back
    PurgeGid { slot: u8 },
    /// the same as SetGid through the batch-modify path
    BatchSetGid { slot: u8, gid: u32 },
    BatchPurgeGid { slot: u8 },
    /// whole-attribute replace (`Modify::Set`, what SCIM PUT and assertions produce), plain or batch
    ReplaceGid { slot: u8, gid: u32, batch: bool },
}

#[derive(Debug, Clone, Serialize, Deserialize)]
struct SCase {
    ops: Vec<POp>,
}

const N_SLOT: u8 = 6;

fn slot_uuid(slot: u8, tail: u32) -> Uuid {
    Uuid::from_u128(0xBBBB_0000_0000_4000_8000_0000_0000_0000u128 | ((slot as u128) << 40) | tail as u128)
}

fn arb_gid() -> BoxedStrategy<u32> {
    let b = boundary_values(2);
    prop_oneof![
        6 => proptest::sample::select(b),
        2 => any::<u32>(),
        2 => 1000u32..60001,
        2 => 65536u32..524288,
        1 => 524288u32..1879048192,
        1 => 0x7000_0000u32..0x8000_0000,
        1 => 0u32..70000,
    ]
    .boxed()
}

fn arb_tail() -> BoxedStrategy<u32> {
    let b = boundary_values(2);
    prop_oneof![3 => any::<u32>(), 2 => proptest::sample::select(b)].boxed()
}

fn arb_pop() -> BoxedStrategy<POp> {
    let kind = prop_oneof![Just(K::Person), Just(K::Service), Just(K::Group)];
    let slot = 0..N_SLOT;
    prop_oneof![
        5 => (kind.clone(), slot.clone(), arb_tail(), proptest::option::of(arb_gid()))
            .prop_map(|(kind, slot, tail, gid)| POp::CreatePosix { kind, slot, tail, gid }),
        3 => (kind, slot.clone(), arb_tail()).prop_map(|(kind, slot, tail)| POp::CreatePlain { kind, slot, tail }),
        4 => (slot.clone(), proptest::option::of(arb_gid())).prop_map(|(slot, gid)| POp::Enable { slot, gid }),
        4 => (slot.clone(), arb_gid()).prop_map(|(slot, gid)| POp::SetGid { slot, gid }),
        1 => (slot.clone(), arb_gid()).prop_map(|(slot, gid)| POp::AddGid { slot, gid }),
        2 => slot.clone().prop_map(|slot| POp::PurgeGid { slot }),
        3 => (slot.clone(), arb_gid()).prop_map(|(slot, gid)| POp::BatchSetGid { slot, gid }),
        4 => (slot.clone(), arb_gid(), proptest::bool::ANY).prop_map(|(slot, gid, batch)| POp::ReplaceGid { slot, gid, batch }),
        1 => slot.prop_map(|slot| POp::BatchPurgeGid { slot }),
    ]
    .boxed()
}

fn new_entry(kind: K, uuid: Uuid, slot: u8) -> pop::NewEntry {
    let name = format!("c21e{slot}");
    match kind {
        K::Person => pop::person(uuid, &name),
        K::Service => pop::service(uuid, &name),
        K::Group => pop::group(uuid, &name, &[]),
    }
}

fn posix_class(kind: K) -> EntryClass {
    if kind == K::Group {
        EntryClass::PosixGroup
    } else {
        EntryClass::PosixAccount
    }
}

#[derive(Clone, Copy)]
struct Slot {
    uuid: Uuid,
    tail: u32,
    kind: K,
}

/// What the op itself lets us expect of the target after a successful commit.
enum Expect {
    Nothing,
    /// posix entry, supplied id must be stored as is
    Stored(u32),
    /// posix entry whose id must be the generated one
    Generated,
    /// id untouched by the op
    Kept(u32),
}

fn server(rt: &tokio::runtime::Runtime, c: &SCase) -> Outcome {
    let mut log = CaseLog::new();
    rt.block_on(async {
        let mut node = Node::new().await;
        let mut slots: BTreeMap<u8, Slot> = BTreeMap::new();
        let (mut n_gen, mut n_sup_ok, mut n_res_rej) = (0, 0, 0);
        for (i, op) in c.ops.iter().enumerate() {
            // --- what is supplied, who is the target
            let (slot, supplied): (u8, Option<u32>) = match op {
                POp::CreatePosix { slot, gid, .. } => (*slot, *gid),
                POp::CreatePlain { slot, .. } => (*slot, None),
                POp::Enable { slot, gid } => (*slot, *gid),
                POp::SetGid { slot, gid } | POp::AddGid { slot, gid } | POp::BatchSetGid { slot, gid } | POp::ReplaceGid { slot, gid, .. } => (*slot, Some(*gid)),
                POp::PurgeGid { slot } | POp::BatchPurgeGid { slot } => (*slot, None),
            };
            let (before, prev_gid) = {
                let mut r = node.qs.read().await.expect("read");
                let e = slots.get(&slot).and_then(|s| r.internal_search_uuid(s.uuid).ok());
                (
                    e.as_ref().map(|e| dump::dump_entry(e)),
                    e.as_ref().and_then(|e| e.get_ava_single_uint32(Attribute::GidNumber)),
                )
            };
            let mut w = node.qs.write(node.now()).await.expect("write");
            let mut created: Option<Slot> = None;
            let res: Result<(), OperationError> = match op {
                POp::CreatePosix { kind, slot, tail, gid } => {
                    if slots.contains_key(slot) {
                        Err(OperationError::InvalidState) // harness: slot taken, skip
                    } else {
                        let u = slot_uuid(*slot, *tail);
                        let mut e = new_entry(*kind, u, *slot);
                        e.add_ava(Attribute::Class, posix_class(*kind).to_value());
                        if let Some(g) = gid {
                            e.add_ava(Attribute::GidNumber, Value::Uint32(*g));
                        }
                        created = Some(Slot { uuid: u, tail: *tail, kind: *kind });
                        w.internal_create(vec![e])
                    }
                }
                POp::CreatePlain { kind, slot, tail } => {
                    if slots.contains_key(slot) {
                        Err(OperationError::InvalidState)
                    } else {
                        let u = slot_uuid(*slot, *tail);
                        created = Some(Slot { uuid: u, tail: *tail, kind: *kind });
                        w.internal_create(vec![new_entry(*kind, u, *slot)])
                    }
                }
                _ => match slots.get(&slot) {
                    None => Err(OperationError::NoMatchingEntries),
                    Some(s) => {
                        let mods: Vec<Modify> = match op {
                            POp::Enable { gid, .. } => {
                                let mut m = vec![Modify::Present(Attribute::Class, posix_class(s.kind).to_value())];
                                if let Some(g) = gid {
                                    m.push(Modify::Purged(Attribute::GidNumber));
                                    m.push(Modify::Present(Attribute::GidNumber, Value::Uint32(*g)));
                                }
                                m
                            }
                            POp::SetGid { gid, .. } | POp::BatchSetGid { gid, .. } => vec![
                                Modify::Purged(Attribute::GidNumber),
                                Modify::Present(Attribute::GidNumber, Value::Uint32(*gid)),
                            ],
                            POp::AddGid { gid, .. } => vec![Modify::Present(Attribute::GidNumber, Value::Uint32(*gid))],
                            POp::ReplaceGid { gid, .. } => vec![Modify::Set(
                                Attribute::GidNumber,
                                kanidmd_lib::valueset::from_value_iter(std::iter::once(Value::Uint32(*gid))).expect("valueset"),
                            )],
                            _ => vec![Modify::Purged(Attribute::GidNumber)],
                        };
                        let ml = ModifyList::new_list(mods);
                        if matches!(op, POp::BatchSetGid { .. } | POp::BatchPurgeGid { .. } | POp::ReplaceGid { batch: true, .. }) {
                            w.internal_batch_modify(once((s.uuid, ml)))
                        } else {
                            w.internal_modify_uuid(s.uuid, &ml)
                        }
                    }
                },
            };
            let res = match res {
                Ok(()) => w.commit(),
                Err(e) => {
                    drop(w);
                    Err(e)
                }
            };
            let ok = res.is_ok();
            if ok {
                node.clock += 1;
                if let Some(s) = created {
                    slots.insert(slot, s);
                }
            }
            // --- judge
            let mut r = node.qs.read().await.expect("read");
            if let (Some(g), true) = (supplied, ok) {
                if let Some(row) = reserved(g) {
                    log.fail(
                        "reserved gid accepted by the server",
                        format!("step {i} {op:?}: supplied {g} ({row}) and the operation succeeded"),
                    );
                    break;
                }
            }
            if !ok {
                if supplied.map(|g| reserved(g).is_some()).unwrap_or(false) && !matches!(res, Err(OperationError::InvalidState) | Err(OperationError::NoMatchingEntries)) {
                    n_res_rej += 1;
                }
                // rejected: target unchanged
                let after = slots.get(&slot).and_then(|s| r.internal_search_uuid(s.uuid).ok()).map(|e| dump::dump_entry(&e));
                if before != after {
                    log.fail("rejected operation left a trace", format!("step {i} {op:?} -> {res:?}: {before:?} vs {after:?}"));
                    break;
                }
                continue;
            }
            // every live posix entry in the database
            let all = dump::all_entries(&mut r).expect("entries");
            for e in all.iter().filter(|e| status_of(e) == Status::Live) {
                if e.has_class(&EntryClass::PosixAccount) || e.has_class(&EntryClass::PosixGroup) {
                    let n = e.get_ava_set(Attribute::GidNumber).map(|v| v.len()).unwrap_or(0);
                    match e.get_ava_single_uint32(Attribute::GidNumber) {
                        Some(g) if n == 1 => {
                            if let Some(row) = reserved(g) {
                                log.fail("stored posix entry has a reserved gid", format!("after step {i} {op:?}: {} has {g} ({row})", e.get_uuid()));
                            }
                        }
                        _ => log.fail(
                            "stored posix entry without exactly one gidnumber",
                            format!("after step {i} {op:?}: {} has {n} values", e.get_uuid()),
                        ),
                    }
                }
            }
            // the op's own expectation
            let s = slots[&slot];
            let ent = r.internal_search_uuid(s.uuid).expect("target");
            let is_posix = ent.has_class(&EntryClass::PosixAccount) || ent.has_class(&EntryClass::PosixGroup);
            let exp = match (op, supplied) {
                (POp::AddGid { .. }, _) => Expect::Nothing, // accepted only if it was the same / only value
                (_, Some(g)) => Expect::Stored(g),
                (POp::CreatePlain { .. }, None) => Expect::Nothing,
                // adding the class to an entry that already carries an id keeps that id
                (POp::Enable { .. }, None) if prev_gid.is_some() => Expect::Kept(prev_gid.unwrap_or(0)),
                (_, None) if is_posix => Expect::Generated,
                _ => Expect::Nothing,
            };
            let got = ent.get_ava_single_uint32(Attribute::GidNumber);
            match exp {
                Expect::Stored(g) => {
                    n_sup_ok += 1;
                    if got != Some(g) {
                        log.fail("supplied gid silently altered", format!("step {i} {op:?}: stored {got:?}"));
                    }
                }
                Expect::Generated => {
                    n_gen += 1;
                    if got != Some(expected_generated(s.tail)) {
                        log.fail(
                            "generated gid differs from the documented function of the uuid",
                            format!("step {i} {op:?}: uuid {} stored {got:?}, documented {:#x}", s.uuid, expected_generated(s.tail)),
                        );
                    }
                }
                Expect::Kept(g) => {
                    if got != Some(g) {
                        log.fail("gid changed by an operation that did not touch it", format!("step {i} {op:?}: had {g}, stored {got:?}"));
                    }
                }
                Expect::Nothing => {}
            }
            if log.failed() {
                break;
            }
        }
        if n_gen > 0 {
            log.class("server:generated");
        }
        if n_sup_ok > 0 {
            log.class("server:supplied-accepted");
        }
        if n_res_rej > 0 {
            log.class("server:reserved-rejected");
        }
        if n_gen + n_sup_ok > 0 && n_res_rej > 0 {
            log.nontrivial();
        }
    });
    log.finish()
}

/// The literal sweep (thorough tier only).
fn run_sweep(cx: &Check) {
    if cx.tier == Tier::Thorough {
        let stride: u64 = std::env::var("VERIF_C21_STRIDE").ok().and_then(|s| s.parse().ok()).unwrap_or(1).max(1);
        const BLOCK: u64 = 1 << 20;
        let t_sweep = cx.elapsed_s();
        let values = (1u64 << 32).div_ceil(stride);
        let blocks = values.div_ceil(BLOCK);
        for supplied in [false, true] {
            cx.enumerate(
                if supplied { "sweep-supplied" } else { "sweep-generated" },
                blocks,
                |i| Block {
                    supplied,
                    lo: (i * BLOCK * stride).min(u32::MAX as u64) as u32,
                    count: BLOCK,
                    stride,
                },
                det,
                |d, c| sweep(d, c),
            );
        }
        cx.extra("sweep_wall_s", serde_json::json!((cx.elapsed_s() - t_sweep).round()));
        cx.extra("sweep_stride", serde_json::json!(stride));
        cx.extra("sweep_values_per_side", serde_json::json!(values));
        if stride > 1 {
            cx.not_exhaustive();
        }
    } else {
        // the quick tier enumerates the boundaries only; the 2^32 claim belongs to the thorough tier
        cx.not_exhaustive();
    }

}

fn main() {
    let cx = Check::from_args("C21", "exploration");
    cx.rule(
        "pure part: the real gidnumber transform on a detached posix account/group — every table boundary ±k (k=2 quick, 4096 thorough) and every 2^28 boundary of the uuid tail, enumerated, for generated and supplied ids; \
         random tails/numbers; thorough: literal sweep of all 2^32 uuid tails and all 2^32 supplied numbers in 2^20-value blocks (strided when VERIF_C21_STRIDE>1). \
         server part: histories of create-with-posix / enable-posix / set / add / purge / batch-set gid on persons, service accounts and groups on a real server, gids drawn mostly from boundaries ±2. \
         oracle = documented table (system, homed, dynuser, nobody, 65535, >=2^31 must be rejected; generated = 0x70000000 | low 28 bits of the last four uuid bytes). \
         non-trivial: every pure case (each decides one number); server history with at least one accepted/generated id and one rejected reserved id. distinct by value",
    );
    cx.assume("the nspawn range 524288-1879048191 is deliberately accepted (code comment + book) and is not in the must-reject set");
    cx.assume("over-refusal of a non-reserved number is not a violation of this property; floors on accepted classes keep the check non-vacuous");
    cx.assume("the generation function is pinned to the documented/implemented 28-bit form; its exactness implies determinism across runs and replicas");

    // VERIF_C21_ONLY_SWEEP=1 (thorough): run nothing but the literal sweep (rate measurements)
    let only_sweep = cx.tier == Tier::Thorough && std::env::var("VERIF_C21_ONLY_SWEEP").is_ok();
    if only_sweep {
        run_sweep(&cx);
        cx.finish();
    }
    // --- boundaries, bounded-exhaustive
    let k = cx.tier.pick(2u64, 4096);
    let b = boundary_values(k);
    let bl = b.len() as u64;
    let bref = &b;
    cx.enumerate("boundaries-generated", bl, |i| Pure::Generated { tail: bref[i as usize] }, det, |d, c| pure(d, c));
    cx.enumerate(
        "boundaries-supplied",
        bl * 2,
        |i| Pure::Supplied {
            gid: bref[(i / 2) as usize],
            group: i % 2 == 1,
        },
        det,
        |d, c| pure(d, c),
    );

    // --- random
    let n = cx.tier.pick(40_000, 1_000_000);
    cx.prop(
        "random-pure",
        PropCfg::new(n),
        || prop_oneof![any::<u32>().prop_map(|tail| Pure::Generated { tail }), (arb_gid(), any::<bool>()).prop_map(|(gid, group)| Pure::Supplied { gid, group }),],
        det,
        |d, c| pure(d, c),
    );

    run_sweep(&cx);

    // --- differential histories through a real server
    let n2 = cx.tier.pick(600, 6_000);
    let len = cx.tier.pick(6..22usize, 10..40usize);
    cx.prop(
        "server-histories",
        PropCfg::new(n2).shrink(200),
        || proptest::collection::vec(arb_pop(), len.clone()).prop_map(|ops| SCase { ops }),
        srv::runtime,
        |rt, c| server(rt, c),
    );

    cx.require_class("supplied-allowed-accepted", 500);
    cx.require_class("supplied-reserved-rejected", 500);
    cx.require_class("server:generated", 50);
    cx.require_class("server:supplied-accepted", 50);
    cx.require_class("server:reserved-rejected", 50);
    for row in ["user", "unused-A", "unused-B", "unused-C", "kanidm-dyn-alloc"] {
        cx.require_class(&format!("accepted:{row}"), 4);
    }
    cx.finish();
}
