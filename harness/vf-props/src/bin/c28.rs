//! C28 — Failed credentials are rate limited.
//!
//! Part (i): the real `CredSoftLock` driven with the server's call protocol
//! (`apply_time_step` -> `is_valid` -> attempt -> `record_failure` on a wrong credential) over
//! bounded-exhaustive and long random event sequences. Part (ii): the server paths
//! (`auth` password / password+TOTP, `auth_unix`, LDAP bind) at generated times.
//!
//! Oracle, from the property text (no delay table is assumed):
//!  P1  after a counted failure at t the credential is refused at every probe in [t, t+1s) that is
//!      not after the end of the failure window (UTC day / TOTP step);
//!  P2  inside one window a later failure never produces a shorter lock than an earlier one;
//!  P3  without administrator expiry: <=100 counted failures per UTC day (password),
//!      <=3 per TOTP step (TOTP); successes (time steps without failure) change nothing;
//!  P4  an administrator expiry E cannot change anything at times <= E (differential run against
//!      the same lock without expiry).
use kanidmd_lib::credential::softlock::CredSoftLockPolicy;
use kanidmd_lib::verif_hooks::auth::softlock::SoftLock;
use proptest::prelude::*;
use serde::{Deserialize, Serialize};
use std::collections::BTreeMap;
use std::time::Duration;
use vf_core::{CaseLog, Check, Outcome, PropCfg};

#[path = "c28/server_paths.rs"]
mod server_paths;

const NS: u128 = 1_000_000_000;
const DAY: u64 = 86_400;

#[derive(Debug, Clone, Copy, Serialize, Deserialize, PartialEq)]
enum Pol {
    Password,
    Totp(u64),
    Webauthn,
    Unrestricted,
}

impl Pol {
    fn real(self) -> CredSoftLockPolicy {
        match self {
            Pol::Password => CredSoftLockPolicy::Password,
            Pol::Totp(s) => CredSoftLockPolicy::Totp(s),
            Pol::Webauthn => CredSoftLockPolicy::Webauthn,
            Pol::Unrestricted => CredSoftLockPolicy::Unrestricted,
        }
    }
    /// length of the counting window named by the property (None: no window stated)
    fn window(self) -> Option<u64> {
        match self {
            Pol::Password => Some(DAY),
            Pol::Totp(s) => Some(s),
            _ => None,
        }
    }
    fn bound(self) -> Option<u64> {
        match self {
            Pol::Password => Some(100),
            Pol::Totp(_) => Some(3),
            _ => None,
        }
    }
}

#[derive(Debug, Clone, Copy, Serialize, Deserialize, PartialEq)]
enum Ev {
    /// attempt with a wrong credential now
    Fail,
    /// attempt with the right credential now (time step only; nothing is recorded)
    Good,
    /// advance the clock by this many nanoseconds
    Adv(u64),
    /// advance to the first instant at which the lock lets an attempt through, plus extra ns
    AdvUnlock(u64),
    /// advance to the end of the current window (day / step) plus a signed offset in ns
    AdvWindow(i64),
    /// `n` times: AdvUnlock(extra) then Fail (an attacker hammering as fast as allowed)
    Hammer(u16, u64),
    /// administrator sets the soft-lock expiry to now + offset seconds (may be negative)
    SetExpiry(i64),
}

#[derive(Debug, Clone, Serialize, Deserialize)]
struct Case {
    pol: Pol,
    /// start time, seconds since the unix epoch, and nanos
    start: (u64, u32),
    evs: Vec<Ev>,
}

fn dur(ns: u128) -> Duration {
    Duration::new((ns / NS) as u64, (ns % NS) as u32)
}

/// first instant >= now at which `lock` (no further failures, no expiry) is valid
fn first_valid(lock: &SoftLock, now: u128, expire: Option<Duration>) -> u128 {
    let probe = |t: u128| {
        let mut l = lock.clone();
        l.apply_time_step(dur(t), expire);
        l.is_valid()
    };
    if probe(now) {
        return now;
    }
    let mut lo = now; // invalid
    let mut hi = now + (3 * DAY as u128) * NS;
    if !probe(hi) {
        return hi;
    }
    while hi - lo > 1 {
        let mid = lo + (hi - lo) / 2;
        if probe(mid) {
            hi = mid;
        } else {
            lo = mid;
        }
    }
    hi
}

fn window_end(pol: Pol, now: u128) -> u128 {
    let w = pol.window().unwrap_or(DAY) as u128;
    let secs = now / NS;
    (secs / w + 1) * w * NS
}

struct Sim {
    pol: Pol,
    /// lock B: never sees an administrator expiry — all property invariants are judged on it
    b: SoftLock,
    /// lock A: sees the administrator expiry; compared with B while ct <= expiry
    a: SoftLock,
    expiry: Option<Duration>,
    /// earliest administrator expiry set so far
    min_expiry: Option<Duration>,
    /// A is still comparable with B (no instant after the expiry has been applied yet)
    comparable: bool,
    now: u128,
    /// counted failures of B per window index
    per_window: BTreeMap<u64, u64>,
    /// (time of last counted failure, its lock length in ns or None = until window end, window idx)
    last_fail: Option<(u128, Option<u128>, u64)>,
    fails: u64,
    refused: u64,
    max_in_window: u64,
    crossed_windows: bool,
    steps: u64,
}

impl Sim {
    fn attempt(&mut self, wrong: bool, log: &mut CaseLog) {
        let ct = dur(self.now);
        // ---- lock A (with expiry), differential P4
        // Every expiry value ever set may have left its mark on lock A (reset_at is capped by it),
        // so the twins are only comparable while the clock has not passed the EARLIEST of them.
        if let Some(e) = self.min_expiry {
            if ct > e {
                self.comparable = false;
            }
        }
        self.a.apply_time_step(ct, self.expiry);
        let a_valid = self.a.is_valid();
        // ---- lock B
        self.b.apply_time_step(ct, None);
        let b_valid = self.b.is_valid();
        if self.comparable && a_valid != b_valid {
            log.fail(
                "administrator expiry changed the lock before the expiry time",
                format!(
                    "t={:?} expiry={:?}: with expiry valid={a_valid}, without valid={b_valid}; A={} B={}",
                    ct,
                    self.expiry,
                    self.a.debug(),
                    self.b.debug()
                ),
            );
        }
        if wrong && a_valid {
            self.a.record_failure(ct);
        }
        if !b_valid {
            self.refused += 1;
            return;
        }
        if !wrong {
            return;
        }
        // counted failure on B
        self.b.record_failure(ct);
        self.fails += 1;
        let widx = match self.pol.window() {
            Some(w) => (self.now / NS) as u64 / w,
            None => 0,
        };
        if self.pol.window().is_some() {
            let n = {
                let n = self.per_window.entry(widx).or_default();
                *n += 1;
                *n
            };
            self.max_in_window = self.max_in_window.max(n);
            if let Some(bound) = self.pol.bound() {
                if n > bound {
                    log.fail(
                        format!("more than {bound} counted failures in one window ({})", self.pol_kind()),
                        format!("window index {widx}: {n} failures, last at {:?}; lock {}", ct, self.b.debug()),
                    );
                }
            }
        }
        if matches!(self.pol, Pol::Unrestricted) {
            return;
        }
        // P1: refused right after the failure
        let wend = if self.pol.window().is_some() { window_end(self.pol, self.now) } else { u128::MAX };
        for off in [0u128, 1, NS / 2, NS - 1] {
            let p = self.now + off;
            if p > wend {
                continue;
            }
            let mut l = self.b.clone();
            l.apply_time_step(dur(p), None);
            if l.is_valid() {
                log.fail(
                    "credential accepted again less than a second after a failure",
                    format!("failure at {:?}, valid again at +{off}ns (window end {:?}); lock {}", ct, dur(wend.min(u128::MAX / 2)), self.b.debug()),
                );
            }
        }
        // P2: lock length never shrinks inside a window
        let unlock = first_valid(&self.b, self.now, None);
        let len = if unlock > wend { None } else { Some(unlock - self.now) };
        if let Some((pt, plen, pw)) = self.last_fail {
            if pw == widx && self.pol.window().is_some() {
                let shorter = match (plen, len) {
                    (Some(a), Some(b)) => b < a,
                    (None, Some(_)) => true,
                    _ => false,
                };
                if shorter {
                    log.fail(
                        "a later failure in the same window produced a shorter lock",
                        format!(
                            "failure at {:?} locked for {:?} ns, failure at {:?} for {:?} ns (None = to window end); lock {}",
                            dur(pt),
                            plen,
                            ct,
                            len,
                            self.b.debug()
                        ),
                    );
                }
            } else if pw != widx {
                self.crossed_windows = true;
            }
        }
        self.last_fail = Some((self.now, len, widx));
    }

    fn pol_kind(&self) -> &'static str {
        match self.pol {
            Pol::Password => "password",
            Pol::Totp(_) => "totp",
            Pol::Webauthn => "webauthn",
            Pol::Unrestricted => "unrestricted",
        }
    }

    fn adv_unlock(&mut self, extra: u64) {
        let t = first_valid(&self.b, self.now, None);
        self.now = t + extra as u128;
    }

    fn run(&mut self, ev: &Ev, log: &mut CaseLog) {
        self.steps += 1;
        match ev {
            Ev::Fail => self.attempt(true, log),
            Ev::Good => self.attempt(false, log),
            Ev::Adv(ns) => self.now += *ns as u128,
            Ev::AdvUnlock(extra) => self.adv_unlock(*extra),
            Ev::AdvWindow(off) => {
                let e = window_end(self.pol, self.now) as i128 + *off as i128;
                if e as u128 > self.now {
                    self.now = e as u128;
                }
            }
            Ev::Hammer(n, extra) => {
                for _ in 0..*n {
                    self.adv_unlock(*extra);
                    self.attempt(true, log);
                    if log.failed() {
                        return;
                    }
                }
            }
            Ev::SetExpiry(off) => {
                let e = (self.now / NS) as i128 + *off as i128;
                if e >= 0 {
                    let d = Duration::from_secs(e as u64);
                    self.expiry = Some(d);
                    self.min_expiry = Some(self.min_expiry.map_or(d, |m| m.min(d)));
                    // a new expiry value: A is comparable again until the clock passes it
                    // only if A and B are still in the same state, which we cannot see; so once
                    // diverged, stay diverged.
                }
            }
        }
    }
}

fn check(case: &Case) -> Outcome {
    let mut log = CaseLog::new();
    if let Pol::Totp(s) = case.pol {
        if s == 0 {
            return Outcome::discard();
        }
    }
    let mut sim = Sim {
        pol: case.pol,
        a: SoftLock::new(case.pol.real()),
        b: SoftLock::new(case.pol.real()),
        expiry: None,
        min_expiry: None,
        comparable: true,
        now: case.start.0 as u128 * NS + (case.start.1 % 1_000_000_000) as u128,
        per_window: BTreeMap::new(),
        last_fail: None,
        fails: 0,
        refused: 0,
        max_in_window: 0,
        crossed_windows: false,
        steps: 0,
    };
    for ev in &case.evs {
        sim.run(ev, &mut log);
        if log.failed() {
            break;
        }
    }
    log.class(format!("policy:{}", sim.pol_kind()));
    if sim.fails >= 2 {
        log.nontrivial();
    }
    if sim.refused > 0 {
        log.class("attempt-refused-while-locked");
    }
    if let Some(b) = case.pol.bound() {
        if sim.max_in_window >= b {
            log.class(format!("reached-window-bound:{}", sim.pol_kind()));
        }
    }
    if sim.crossed_windows {
        log.class("failures-in-several-windows");
    }
    if sim.expiry.is_some() {
        log.class("admin-expiry-set");
        if !sim.comparable {
            log.class("clock-passed-admin-expiry");
        }
    }
    log.finish()
}

// ---------------------------------------------------------------- bounded-exhaustive part

fn small_alphabet(pol: Pol, len: usize) -> Vec<Ev> {
    let mut v = vec![
        Ev::Fail,
        Ev::Good,
        Ev::Adv(1),
        Ev::Adv(NS as u64),
        Ev::AdvUnlock(0),
        Ev::AdvUnlock(1),
        Ev::AdvWindow(-1),
        Ev::AdvWindow(0),
        Ev::AdvWindow(1),
    ];
    match pol {
        Pol::Password => {
            if len <= 3 {
                v.push(Ev::Hammer(98, 0));
            }
            v.push(Ev::SetExpiry(2));
            v.push(Ev::SetExpiry(-5));
        }
        Pol::Totp(_) => {
            if len <= 3 {
                v.push(Ev::Hammer(4, 0));
            }
            v.push(Ev::Adv(1_500_000_000));
            v.push(Ev::SetExpiry(2));
            v.push(Ev::SetExpiry(-5));
        }
        _ => {}
    }
    v
}

fn enum_case(pol: Pol, start: (u64, u32), alpha: &[Ev], len: usize, mut i: u64) -> Case {
    let mut evs = Vec::with_capacity(len);
    for _ in 0..len {
        evs.push(alpha[(i % alpha.len() as u64) as usize]);
        i /= alpha.len() as u64;
    }
    Case { pol, start, evs }
}

// ---------------------------------------------------------------- random part

fn arb_pol() -> impl Strategy<Value = Pol> {
    prop_oneof![
        4 => Just(Pol::Password),
        3 => Just(Pol::Totp(30)),
        2 => (30u64..=3600).prop_map(Pol::Totp),
        1 => Just(Pol::Webauthn),
        1 => Just(Pol::Unrestricted),
    ]
}

fn arb_ev() -> impl Strategy<Value = Ev> {
    let small = prop_oneof![Just(0u64), Just(1), Just(999_999_999), Just(1_000_000_000), 0u64..3_000_000_000];
    prop_oneof![
        6 => Just(Ev::Fail),
        2 => Just(Ev::Good),
        3 => prop_oneof![
            Just(1u64), Just(999_999_999), Just(1_000_000_000), Just(1_000_000_001), Just(3_000_000_001),
            Just(5_000_000_001), Just(10_000_000_001), 0u64..40_000_000_000, 0u64..(2 * DAY * 1_000_000_000),
        ].prop_map(Ev::Adv),
        6 => small.clone().prop_map(Ev::AdvUnlock),
        2 => prop_oneof![Just(-1_000_000_000i64), Just(-1), Just(0), Just(1), Just(1_000_000_000), -2_000_000_000i64..2_000_000_000]
            .prop_map(Ev::AdvWindow),
        2 => (1u16..120, small).prop_map(|(n, e)| Ev::Hammer(n, e)),
        1 => prop_oneof![Just(-10i64), Just(0), Just(2), Just(86_400), -100i64..100_000].prop_map(Ev::SetExpiry),
    ]
}

fn arb_case(len: std::ops::Range<usize>) -> impl Strategy<Value = Case> {
    let start = prop_oneof![
        Just((1_700_000_000u64, 0u32)),
        Just((1_700_006_399u64, 999_999_999u32)), // one ns before a UTC midnight (1_700_006_400 = 19676 * 86400)
        Just((1_700_006_400u64, 0u32)),
        (1_600_000_000u64..4_000_000_000, 0u32..1_000_000_000),
        Just((10u64, 0u32)),
    ];
    (arb_pol(), start, proptest::collection::vec(arb_ev(), len)).prop_map(|(pol, start, evs)| Case { pol, start, evs })
}

fn main() {
    let cx = Check::from_args("C28", "exploration");
    cx.rule(
        "(i) real CredSoftLock under the server's call protocol: bounded-exhaustive event sequences (length <=4 quick / <=5 thorough) over \
         {fail, good, +1ns, +1s, to-first-unlock(+0/+1ns), to-window-end(-1ns/0/+1ns), hammer x98 (password) / x4 (totp) at length <=3, admin expiry +2s/-5s} for Password, Totp(30), Webauthn, Unrestricted, \
         started 1.5 s before a UTC midnight; random sequences of 10..60 events (hammer bursts up to 120 failures) on real time scales crossing UTC midnights and TOTP steps. \
         (ii) server paths: random attempt schedules (right/wrong password, TOTP, unix password, LDAP bind) against a real IdmServer. \
         oracle from the property text: refused for [t,t+1s) after a counted failure (clipped at the window end), lock length never shrinks inside a window (first-unlock found by bisection on clones), \
         <=100 counted failures per UTC day / <=3 per TOTP step, admin expiry E changes nothing at times <=E (differential). non-trivial = >=2 counted failures; distinct by hash / by construction",
    );
    cx.assume("a window reset (new UTC day / new TOTP step) is allowed to end a lock early; an administrator expiry is allowed to reset the count once the clock has passed it");
    let pols = [Pol::Password, Pol::Totp(30), Pol::Webauthn, Pol::Unrestricted];
    let maxlen = cx.tier.pick(4usize, 5usize);
    // 19676 * 86400 = 1_700_006_400 is a UTC midnight and a multiple of 30
    let start = (1_700_006_398u64, 500_000_000u32);
    for pol in pols {
        for len in 1..=maxlen {
            let alpha = small_alphabet(pol, len);
            if matches!(pol, Pol::Webauthn | Pol::Unrestricted) && len > 4 {
                continue;
            }
            let total = (alpha.len() as u64).pow(len as u32);
            let alpha = &alpha;
            cx.enumerate(
                &format!("exhaustive-{}-len{len}", match pol {
                    Pol::Password => "password",
                    Pol::Totp(_) => "totp30",
                    Pol::Webauthn => "webauthn",
                    Pol::Unrestricted => "unrestricted",
                }),
                total,
                |i| enum_case(pol, start, alpha, len, i),
                || (),
                |_, c| check(c),
            );
        }
    }
    cx.extra("t_after_exhaustive_s", serde_json::json!(cx.elapsed_s()));
    let n = cx.tier.pick(6_000, 300_000);
    cx.prop("random-sequences", PropCfg::new(n).shrink(400), || arb_case(10..60), || (), |_, c| check(c));
    cx.require_class("reached-window-bound:password", 50);
    cx.require_class("reached-window-bound:totp", 50);
    cx.require_class("failures-in-several-windows", 50);
    cx.require_class("clock-passed-admin-expiry", 50);

    cx.extra("t_after_random_s", serde_json::json!(cx.elapsed_s()));
    server_paths::run(&cx);
    cx.finish();
}
