//! C50 — Synchronisation agreements stay inside their own scope.
//!
//! Histories over two sync agreements, a pool of entry ids, native / recycled / reserved-range ids,
//! yield-authority changes and user modifications. After every committed operation the harness
//! compares the canonical dump before and after:
//!
//!  sync apply (Ok):
//!   * every entry that was NOT owned by the applying agreement is unchanged (status and every
//!     attribute except derived membership attributes; the agreement's own account entry may change
//!     its cookie only),
//!   * every new entry is owned by the applying agreement and is NOT in the reserved system uuid range,
//!   * on entries the agreement owned, only attributes change that the schema marks synchronisable
//!     and that are not in the agreement's yield-authority set (plus bookkeeping/derived attributes).
//!  sync apply (Err): nothing changed.
//!  user modify (Ok) of a synchronised entry: every changed attribute is in the agreement's
//!     yield-authority set (or session / credential-reset state, or derived from a yielded one).
//!
//! Ownership, yield sets and "synchronisable" are read from the stored entries / schema, not from
//! the functions under judgement.
use kanidm_proto::scim_v1::{ScimSyncRequest, ScimSyncRetentionMode, ScimSyncState};
use kanidmd_lib::constants::uuids::*;
use kanidmd_lib::entry::{Entry, EntryCommitted, EntrySealed};
use kanidmd_lib::idm::scim::{GenerateScimSyncTokenEvent, ScimSyncUpdateEvent};
use kanidmd_lib::idm::server::IdmServerTransaction;
use kanidmd_lib::prelude::*;
use kanidmd_lib::schema::SchemaTransaction;
use kanidmd_lib::verif_hooks::ident;
use proptest::prelude::*;
use scim_proto::{ScimAttr, ScimComplexAttr, ScimEntry, ScimValue};
use serde::{Deserialize, Serialize};
use std::collections::{BTreeMap, BTreeSet};
use std::sync::Arc;
use vf_core::{CaseLog, Check, Outcome, PropCfg};
use vf_world::dump::{self, EntryDump, Status};
use vf_world::pop::{self, Kind};
use vf_world::srv;

type E = Arc<Entry<EntrySealed, EntryCommitted>>;

const SIG_RESERVED: &str = "sync apply created an entry in the reserved system uuid range";
const SIG_FOREIGN: &str = "sync apply changed an entry the agreement does not own";
const SIG_NEW_NOT_OWNED: &str = "sync apply created an entry not owned by the agreement";
const SIG_ATTR: &str = "sync apply changed an attribute that is not synchronisable or is yielded";
const SIG_ERR_TRACE: &str = "failed sync apply left a trace";
const SIG_USER: &str = "user changed a non-yielded attribute of a synchronised entry";

#[derive(Debug, Clone, Copy, PartialEq, Eq, Hash, PartialOrd, Ord, Serialize, Deserialize)]
enum IdRef {
    /// shared pool of ordinary ids (whoever creates one first owns it)
    Pool(u8),
    NativePerson,
    NativeGroup,
    /// a native entry sitting in the recycle bin
    Recycled,
    /// ids below DYNAMIC_RANGE_MINIMUM_UUID (index into RESERVED)
    Reserved(u8),
    /// exactly DYNAMIC_RANGE_MINIMUM_UUID (first id that is NOT reserved)
    Boundary,
    /// the account entry of agreement i
    Agreement(u8),
}

const RESERVED: [Uuid; 8] = [
    uuid!("00000000-0000-0000-0000-ffff00000999"), // unused
    UUID_ADMIN,                                    // existing built-in account
    UUID_IDM_ADMINS,                               // existing built-in group
    uuid!("00000000-0000-0000-0000-fffffffffffd"), // unused, top of the range
    UUID_ANONYMOUS,                                // existing
    uuid!("00000000-0000-0000-0000-00000000f001"), // unused, low
    uuid!("00000000-0000-0000-0000-ffff0000ffff"), // unused
    uuid!("00000000-0000-0000-0000-ffffffffff00"), // unused
];

const N_POOL: u8 = 5;

impl IdRef {
    fn uuid(&self) -> Uuid {
        match self {
            IdRef::Pool(i) => pop::uuid_of(Kind::Other, 0x50 + (*i % N_POOL) as u32),
            IdRef::NativePerson => pop::person_uuid(0),
            IdRef::NativeGroup => pop::group_uuid(0),
            IdRef::Recycled => pop::person_uuid(1),
            IdRef::Reserved(i) => RESERVED[*i as usize % RESERVED.len()],
            IdRef::Boundary => DYNAMIC_RANGE_MINIMUM_UUID,
            IdRef::Agreement(i) => pop::uuid_of(Kind::Sync, (*i % 2) as u32),
        }
    }
}

#[derive(Debug, Clone, Copy, PartialEq, Eq, Hash, Serialize, Deserialize)]
enum SKind {
    Person,
    PosixPerson,
    Group,
    PosixGroup,
    /// class exists but is not sync-allowed / is protected
    Disallowed(u8),
    /// not a kanidm sync schema urn
    ForeignUrn,
    NoSchema,
}

const DISALLOWED: [&str; 5] = ["system_info", "access_control_profile", "builtin", "sync_account", "domain_info"];

#[derive(Debug, Clone, PartialEq, Eq, Hash, Serialize, Deserialize)]
enum SAttr {
    Name(u8),
    DisplayName(u8),
    LegalName(u8),
    Description(u8),
    Mail(Vec<u8>),
    Gid(u8),
    LoginShell(u8),
    Members(Vec<IdRef>),
    /// attributes a connector must never own; value is a plain string
    Forbidden(u8, u8),
}

const NAMES: [&str; 13] = ["anna", "bob", "carl", "dora", "native_p", "native_g", "emil", "admin", "syncp0", "syncp1", "syncp2", "syncg3", "syncg4"];
const TEXTS: [&str; 4] = ["Alpha", "Beta B", "gamma", "Delta"];
const MAILS: [&str; 4] = ["a@example.com", "b@example.com", "ab@example.org", "c@example.com"];
const GIDS: [i64; 4] = [70001, 70002, 80000, 70001];
const FORBIDDEN: [&str; 8] = [
    "uuid",
    "sync_parent_uuid",
    "memberof",
    "class",
    "entry_managed_by",
    "sync_external_id",
    "account_expire",
    "spn",
];

#[derive(Debug, Clone, PartialEq, Eq, Hash, Serialize, Deserialize)]
struct SEntry {
    id: IdRef,
    kind: SKind,
    ext: Option<u8>,
    attrs: Vec<SAttr>,
}

#[derive(Debug, Clone, PartialEq, Eq, Hash, Serialize, Deserialize)]
enum From {
    Refresh,
    /// the cookie currently stored (valid active state)
    Current,
    /// a cookie that is not the stored one
    Stale,
}

#[derive(Debug, Clone, PartialEq, Eq, Hash, Serialize, Deserialize)]
enum Retain {
    Ignore,
    Retain(Vec<IdRef>),
    Delete(Vec<IdRef>),
}

#[derive(Debug, Clone, Copy, PartialEq, Eq, Hash, PartialOrd, Ord, Serialize, Deserialize)]
enum YAttr {
    LegalName,
    DisplayName,
    Mail,
    Name,
    Member,
    GidNumber,
    Description,
    LoginShell,
}
impl YAttr {
    fn attr(&self) -> Attribute {
        match self {
            YAttr::LegalName => Attribute::LegalName,
            YAttr::DisplayName => Attribute::DisplayName,
            YAttr::Mail => Attribute::Mail,
            YAttr::Name => Attribute::Name,
            YAttr::Member => Attribute::Member,
            YAttr::GidNumber => Attribute::GidNumber,
            YAttr::Description => Attribute::Description,
            YAttr::LoginShell => Attribute::LoginShell,
        }
    }
}

#[derive(Debug, Clone, Copy, PartialEq, Eq, Hash, Serialize, Deserialize)]
enum Who {
    /// the built-in idm_admin account (people / group administration rights)
    IdmAdmin,
    /// the target entry itself (self-write rights)
    SelfTarget,
}

#[derive(Debug, Clone, PartialEq, Eq, Hash, Serialize, Deserialize)]
enum Op {
    Apply { y: u8, from: From, to_cookie: Option<u8>, entries: Vec<SEntry>, retain: Retain },
    SetYield { y: u8, attrs: Vec<YAttr> },
    UserModify { who: Who, target: IdRef, attr: YAttr, val: Option<u8> },
    /// a user (idm_admin) tries to delete a synchronised entry / a native one
    UserDelete { target: IdRef },
}

#[derive(Debug, Clone, Serialize, Deserialize)]
struct Case {
    ops: Vec<Op>,
}

// ------------------------------------------------------------------------------------ rendering

fn ext_id(i: u8) -> String {
    format!("cn=ext{},dc=test", i % 6)
}

fn sattr_to_scim(a: &SAttr) -> (String, ScimValue) {
    let s = |x: &str| ScimValue::Simple(ScimAttr::String(x.to_string()));
    match a {
        SAttr::Name(i) => (Attribute::Name.to_string(), s(NAMES[*i as usize % NAMES.len()])),
        SAttr::DisplayName(i) => (Attribute::DisplayName.to_string(), s(TEXTS[*i as usize % TEXTS.len()])),
        SAttr::LegalName(i) => (Attribute::LegalName.to_string(), s(TEXTS[*i as usize % TEXTS.len()])),
        SAttr::Description(i) => (Attribute::Description.to_string(), s(TEXTS[*i as usize % TEXTS.len()])),
        SAttr::LoginShell(i) => (Attribute::LoginShell.to_string(), s(["/bin/sh", "/bin/zsh"][*i as usize % 2])),
        SAttr::Gid(i) => (Attribute::GidNumber.to_string(), ScimValue::Simple(ScimAttr::Integer(GIDS[*i as usize % GIDS.len()]))),
        SAttr::Mail(v) => {
            let list: Vec<ScimComplexAttr> = v
                .iter()
                .enumerate()
                .map(|(k, m)| {
                    let mut c = ScimComplexAttr::new();
                    c.insert("value".into(), ScimAttr::String(MAILS[*m as usize % MAILS.len()].to_string()));
                    c.insert("primary".into(), ScimAttr::Bool(k == 0));
                    c
                })
                .collect();
            (Attribute::Mail.to_string(), ScimValue::MultiComplex(list))
        }
        SAttr::Members(v) => {
            let list: Vec<ScimComplexAttr> = v
                .iter()
                .map(|m| {
                    let mut c = ScimComplexAttr::new();
                    c.insert("external_id".into(), ScimAttr::String(m.uuid().as_hyphenated().to_string()));
                    c
                })
                .collect();
            (Attribute::Member.to_string(), ScimValue::MultiComplex(list))
        }
        SAttr::Forbidden(a, v) => {
            let name = FORBIDDEN[*a as usize % FORBIDDEN.len()];
            let val = match name {
                "uuid" | "sync_parent_uuid" | "entry_managed_by" | "memberof" => IdRef::Agreement(*v).uuid().as_hyphenated().to_string(),
                "class" => "builtin".to_string(),
                _ => TEXTS[*v as usize % TEXTS.len()].to_string(),
            };
            (name.to_string(), s(&val))
        }
    }
}

fn sentry_to_scim(e: &SEntry) -> ScimEntry {
    let urn = |c: &str| format!("urn:ietf:params:scim:schemas:kanidm:sync:1:{c}");
    let schemas = match e.kind {
        SKind::Person => vec![urn("account"), urn("person")],
        SKind::PosixPerson => vec![urn("account"), urn("person"), urn("posixaccount")],
        SKind::Group => vec![urn("group")],
        SKind::PosixGroup => vec![urn("group"), urn("posixgroup")],
        SKind::Disallowed(i) => vec![urn("group"), urn(DISALLOWED[i as usize % DISALLOWED.len()])],
        SKind::ForeignUrn => vec!["urn:ietf:params:scim:schemas:core:2.0:User".to_string()],
        SKind::NoSchema => vec![],
    };
    ScimEntry {
        schemas,
        id: e.id.uuid(),
        external_id: e.ext.map(ext_id),
        meta: None,
        attrs: e.attrs.iter().map(sattr_to_scim).collect(),
    }
}

// ------------------------------------------------------------------------------------ world

struct World {
    idms: IdmServer,
    _delayed: IdmServerDelayed,
    _audit: IdmServerAudit,
    tokens: Vec<kanidmd_lib::verif_hooks::proto::JwsCompact>,
    clock: u64,
}

type Snap = BTreeMap<Uuid, (E, EntryDump)>;

/// Full snapshot; the dump of an entry whose stored object is unchanged (same Arc as in `prev`) is reused.
async fn snapshot_from(w: &World, prev: Option<&Snap>) -> Snap {
    let mut r = w.idms.proxy_read().await.expect("read txn");
    let ents = dump::all_entries(&mut r.qs_read).expect("all entries");
    ents.into_iter()
        .map(|e| {
            let u = e.get_uuid();
            let d = match prev.and_then(|p| p.get(&u)) {
                Some((pe, pd)) if Arc::ptr_eq(pe, &e) => pd.clone(),
                _ => dump::dump_entry(&e),
            };
            (u, (e, d))
        })
        .collect()
}
async fn snapshot(w: &World) -> Snap {
    snapshot_from(w, None).await
}

async fn setup() -> World {
    let qs = srv::new_qs().await;
    let (idms, delayed, audit) = srv::new_idms(qs).await;
    let mut w = World { idms, _delayed: delayed, _audit: audit, tokens: Vec::new(), clock: 10 };
    let ct = srv::ct(w.clock);
    let mut tx = w.idms.proxy_write(ct).await.expect("write");
    let mut ents = Vec::new();
    for i in 0..2u8 {
        let mut e: pop::NewEntry = Entry::new();
        e.add_ava(Attribute::Class, EntryClass::Object.to_value());
        e.add_ava(Attribute::Class, EntryClass::SyncAccount.to_value());
        e.add_ava(Attribute::Name, Value::new_iname(&format!("sync_agreement_{i}")));
        e.add_ava(Attribute::Uuid, Value::Uuid(IdRef::Agreement(i).uuid()));
        e.add_ava(Attribute::Description, Value::new_utf8s("sync agreement"));
        ents.push(e);
    }
    ents.push(pop::person(IdRef::NativePerson.uuid(), "native_p"));
    ents.push(pop::person(IdRef::Recycled.uuid(), "recycled_p"));
    ents.push(pop::group(IdRef::NativeGroup.uuid(), "native_g", &[IdRef::NativePerson.uuid()]));
    tx.qs_write.internal_create(ents).expect("setup create");
    tx.qs_write
        .internal_delete(&Filter::new_ignore_hidden(f_eq(Attribute::Uuid, PartialValue::Uuid(IdRef::Recycled.uuid()))))
        .expect("setup delete");
    for i in 0..2u8 {
        let gte = GenerateScimSyncTokenEvent { ident: ident::internal(), target: IdRef::Agreement(i).uuid(), label: "connector".into() };
        w.tokens.push(tx.scim_sync_generate_token(&gte, ct).expect("sync token"));
    }
    tx.commit().expect("setup commit");
    w.clock += 1;
    w
}

fn owner(e: &E) -> Option<Uuid> {
    e.get_ava_single_refer(Attribute::SyncParentUuid)
}
fn is_sync_object(e: &E) -> bool {
    e.attribute_equality(Attribute::Class, &EntryClass::SyncObject.into())
}
fn yield_set(snap: &Snap, agreement: Uuid) -> BTreeSet<String> {
    snap.get(&agreement)
        .and_then(|(e, _)| e.get_ava_as_iutf8(Attribute::SyncYieldAuthority).map(|s| s.iter().map(|x| x.to_lowercase()).collect()))
        .unwrap_or_default()
}

/// attributes that differ between two dumps of one entry
fn changed_attrs(a: &EntryDump, b: &EntryDump) -> BTreeSet<String> {
    let keys: BTreeSet<&String> = a.attrs.keys().chain(b.attrs.keys()).collect();
    keys.into_iter().filter(|k| a.attrs.get(*k) != b.attrs.get(*k)).cloned().collect()
}

/// Derived / bookkeeping attributes maintained by the server as a consequence of other changes.
const DERIVED: [&str; 5] = ["memberof", "directmemberof", "dynmember", "last_modified_cid", "recycled_directmemberof"];
/// What a sync apply legitimately maintains on its own entries besides synchronisable attributes.
const SYNC_BOOKKEEPING: [&str; 6] = ["class", "sync_class", "sync_external_id", "sync_parent_uuid", "spn", "name_history"];
/// Where the phantom import attributes land.
const IMPORT_TARGETS: [&str; 3] = ["primary_credential", "unix_password", "totp_import"];
/// "session and credential-reset state"
const USER_STATE: [&str; 4] = ["user_auth_token_session", "oauth2_session", "oauth2_consent_scope_map", "credential_update_intent_token"];

fn brief(s: &BTreeSet<String>) -> String {
    s.iter().cloned().collect::<Vec<_>>().join(",")
}

fn judge_apply_ok(y: Uuid, pre: &Snap, post: &Snap, sync_allowed: &BTreeSet<String>, log: &mut CaseLog, ctx: &str) {
    let yielded = yield_set(pre, y);
    // entries owned by the agreement that this apply moved to the recycle bin
    let recycled_now: Vec<Uuid> = pre
        .iter()
        .filter(|(u, (e, d))| owner(e) == Some(y) && d.status == Status::Live && post.get(*u).map(|p| p.1.status == Status::Recycled).unwrap_or(false))
        .map(|(u, _)| *u)
        .collect();
    for (u, (e_pre, d_pre)) in pre {
        let own = owner(e_pre) == Some(y);
        match post.get(u) {
            None => {
                // entries never vanish within one apply (delete = recycle)
                log.fail(if own { SIG_ATTR } else { SIG_FOREIGN }, format!("{ctx}: entry {u} disappeared"));
            }
            Some((_e_post, d_post)) => {
                let mut ch = changed_attrs(d_pre, d_post);
                for d in DERIVED {
                    ch.remove(d);
                }
                // Referential integrity drops references to entries that were deleted: when this
                // apply recycled entries of its own, losing exactly those references (and nothing
                // else) from a entry's reference attribute is a consequence, not a change
                // made by the agreement.
                for ra in ["member", "entry_managed_by"] {
                    if ch.contains(ra) {
                        let a: BTreeSet<&String> = d_pre.attrs.get(ra).map(|v| v.iter().collect()).unwrap_or_default();
                        let b: BTreeSet<&String> = d_post.attrs.get(ra).map(|v| v.iter().collect()).unwrap_or_default();
                        let added = b.difference(&a).count();
                        let removed_ok = a.difference(&b).all(|r| recycled_now.iter().any(|u| r.contains(&u.as_hyphenated().to_string())));
                        if added == 0 && removed_ok {
                            ch.remove(ra);
                            log.class(if own { "owned-entry-lost-reference-to-entry-deleted-by-apply" } else { "foreign-entry-lost-reference-to-entry-deleted-by-apply" });
                        }
                    }
                }
                if !own {
                    if *u == y {
                        ch.remove("sync_cookie");
                    }
                    // the memberof plugin adds/removes the marker class `memberof` together with the derived attribute
                    if ch.contains("class") {
                        let a: BTreeSet<&String> = d_pre.attrs.get("class").map(|v| v.iter().collect()).unwrap_or_default();
                        let b: BTreeSet<&String> = d_post.attrs.get("class").map(|v| v.iter().collect()).unwrap_or_default();
                        if a.symmetric_difference(&b).all(|c| c.trim_matches('"') == "memberof") {
                            ch.remove("class");
                        }
                    }
                    if d_pre.status != d_post.status || !ch.is_empty() {
                        log.fail(
                            SIG_FOREIGN,
                            format!(
                                "{ctx}: entry {u} (owner {:?}, status {:?}->{:?}) changed attributes [{}]",
                                owner(e_pre),
                                d_pre.status,
                                d_post.status,
                                brief(&ch)
                            ),
                        );
                    }
                } else {
                    let bad: BTreeSet<String> = ch
                        .iter()
                        .filter(|a| {
                            let a = a.as_str();
                            if SYNC_BOOKKEEPING.contains(&a) || IMPORT_TARGETS.contains(&a) {
                                return false;
                            }
                            !(sync_allowed.contains(a) && !yielded.contains(a))
                        })
                        .cloned()
                        .collect();
                    // spn/name_history derive from name: they may only move when name may
                    let name_locked = yielded.contains("name");
                    let derived_bad = name_locked && (ch.contains("spn") || ch.contains("name_history"));
                    if !bad.is_empty() || derived_bad {
                        log.fail(
                            SIG_ATTR,
                            format!("{ctx}: owned entry {u}: changed [{}], not allowed [{}], yielded [{}]", brief(&ch), brief(&bad), brief(&yielded)),
                        );
                    }
                    if !ch.is_empty() {
                        log.class("apply-changed-owned-entry");
                        if !yielded.is_empty() {
                            log.class("apply-changed-owned-entry-while-yield-set");
                        }
                    }
                    if d_pre.status == Status::Live && d_post.status == Status::Recycled {
                        log.class("apply-deleted-owned-entry");
                    }
                }
            }
        }
    }
    for (u, (e_post, d_post)) in post {
        if pre.contains_key(u) {
            continue;
        }
        log.class("apply-created-entry");
        if *u < DYNAMIC_RANGE_MINIMUM_UUID {
            let classes = d_post.attrs.get("class").cloned().unwrap_or_default();
            log.fail(SIG_RESERVED, format!("{ctx}: new entry {u} has classes {classes:?}"));
        }
        if owner(e_post) != Some(y) || !is_sync_object(e_post) {
            log.fail(SIG_NEW_NOT_OWNED, format!("{ctx}: new entry {u} owner {:?}", owner(e_post)));
        }
        if *u == DYNAMIC_RANGE_MINIMUM_UUID {
            log.class("apply-created-entry-at-range-boundary");
        }
    }
}

fn same(pre: &Snap, post: &Snap) -> Vec<String> {
    let a: dump::Dump = pre.iter().map(|(u, (_, d))| (*u, d.clone())).collect();
    let b: dump::Dump = post.iter().map(|(u, (_, d))| (*u, d.clone())).collect();
    dump::diff(&a, &b, &dump::DiffOpts { skip_attrs: &[], ids: true, changestate: true })
}

fn classify_apply(entries: &[SEntry], retain: &Retain, y: Uuid, pre: &Snap, log: &mut CaseLog) {
    for e in entries {
        let u = e.id.uuid();
        let c = match pre.get(&u) {
            None if u < DYNAMIC_RANGE_MINIMUM_UUID => "id:reserved-range-unused",
            None => "id:new",
            Some((en, d)) => {
                if u < DYNAMIC_RANGE_MINIMUM_UUID {
                    "id:reserved-range-existing"
                } else if d.status != Status::Live {
                    "id:recycled"
                } else if owner(en) == Some(y) {
                    "id:owned"
                } else if owner(en).is_some() {
                    "id:owned-by-other-agreement"
                } else if en.attribute_equality(Attribute::Class, &EntryClass::SyncAccount.into()) {
                    "id:agreement-account"
                } else {
                    "id:native"
                }
            }
        };
        log.class(format!("request-{c}"));
        match e.kind {
            SKind::Disallowed(_) => log.class("request-class:disallowed"),
            SKind::ForeignUrn | SKind::NoSchema => log.class("request-class:malformed"),
            _ => log.class("request-class:allowed"),
        }
        if e.attrs.iter().any(|a| matches!(a, SAttr::Forbidden(..))) {
            log.class("request-attr:non-synchronisable");
        }
    }
    let ids: &[IdRef] = match retain {
        Retain::Ignore => &[],
        Retain::Retain(v) => {
            log.class("retain-mode:retain");
            v
        }
        Retain::Delete(v) => {
            log.class("retain-mode:delete");
            v
        }
    };
    for i in ids {
        if let Some((en, _)) = pre.get(&i.uuid()) {
            if owner(en) != Some(y) {
                log.class("retain-list-has-foreign-id");
            }
        }
    }
}

async fn run(c: &Case) -> Outcome {
    let mut log = CaseLog::new();
    let mut w = setup().await;
    let mut pre = snapshot(&w).await;
    let sync_allowed: BTreeSet<String> = {
        let r = w.idms.proxy_read().await.expect("read");
        r.qs_read.get_schema().get_attributes().values().filter(|a| a.sync_allowed).map(|a| a.name.to_string()).collect()
    };
    let mut apply_ok = 0;
    for (step, op) in c.ops.iter().enumerate() {
        let ct = srv::ct(w.clock);
        w.clock += 1;
        let ctx = format!("step {step} {op:?}");
        match op {
            Op::Apply { y, from, to_cookie, entries, retain } => {
                let yi = (*y % 2) as usize;
                let yu = IdRef::Agreement(*y).uuid();
                classify_apply(entries, retain, yu, &pre, &mut log);
                let mut tx = w.idms.proxy_write(ct).await.expect("write");
                let ident = match tx.validate_sync_client_auth_info_to_ident(ClientAuthInfo::new(Source::Internal, None, Some(w.tokens[yi].clone()), None), ct) {
                    Ok(i) => i,
                    Err(e) => {
                        log.fail("harness: sync token not accepted", format!("{ctx}: {e:?}"));
                        break;
                    }
                };
                let stored_cookie: Option<Vec<u8>> = pre.get(&yu).and_then(|(e, _)| e.get_ava_single_private_binary(Attribute::SyncCookie).map(|b| b.to_vec()));
                let from_state = match from {
                    From::Refresh => ScimSyncState::Refresh,
                    From::Current => match &stored_cookie {
                        Some(c) => ScimSyncState::Active { cookie: c.clone() },
                        None => ScimSyncState::Refresh,
                    },
                    From::Stale => ScimSyncState::Active { cookie: vec![0xde, 0xad] },
                };
                if matches!(from_state, ScimSyncState::Active { .. }) {
                    log.class(if matches!(from, From::Stale) { "from-state:stale-cookie" } else { "from-state:active" });
                } else {
                    log.class("from-state:refresh");
                }
                let req = ScimSyncRequest {
                    from_state,
                    to_state: match to_cookie {
                        Some(k) => ScimSyncState::Active { cookie: vec![1, *k] },
                        None => ScimSyncState::Refresh,
                    },
                    entries: entries.iter().map(sentry_to_scim).collect(),
                    retain: match retain {
                        Retain::Ignore => ScimSyncRetentionMode::Ignore,
                        Retain::Retain(v) => ScimSyncRetentionMode::Retain(v.iter().map(|i| i.uuid()).collect()),
                        Retain::Delete(v) => ScimSyncRetentionMode::Delete(v.iter().map(|i| i.uuid()).collect()),
                    },
                };
                let sse = ScimSyncUpdateEvent { ident };
                let res = tx.scim_sync_apply(&sse, &req, ct).and_then(|_| tx.commit());
                let post = snapshot_from(&w, Some(&pre)).await;
                match res {
                    Ok(()) => {
                        apply_ok += 1;
                        log.class("apply-ok");
                        judge_apply_ok(yu, &pre, &post, &sync_allowed, &mut log, &ctx);
                    }
                    Err(e) => {
                        log.class("apply-refused");
                        log.class(format!("apply-refused:{}", format!("{e:?}").split('(').next().unwrap_or("")));
                        let d = same(&pre, &post);
                        if !d.is_empty() {
                            log.fail(SIG_ERR_TRACE, format!("{ctx} -> Err({e:?}) but: {:?}", &d[..d.len().min(5)]));
                        }
                    }
                }
                pre = post;
            }
            Op::SetYield { y, attrs } => {
                let yu = IdRef::Agreement(*y).uuid();
                let mut tx = w.idms.proxy_write(ct).await.expect("write");
                let mut mods = vec![Modify::Purged(Attribute::SyncYieldAuthority)];
                for a in attrs {
                    mods.push(Modify::Present(Attribute::SyncYieldAuthority, Value::new_iutf8(a.attr().as_str())));
                }
                let r = tx.qs_write.internal_modify_uuid(yu, &ModifyList::new_list(mods)).and_then(|_| tx.commit());
                if let Err(e) = r {
                    log.fail("harness: could not set yield authority", format!("{ctx}: {e:?}"));
                    break;
                }
                log.class(if attrs.is_empty() { "yield-cleared" } else { "yield-set" });
                pre = snapshot_from(&w, Some(&pre)).await;
            }
            Op::UserModify { who, target, attr, val } => {
                let tu = target.uuid();
                let Some((t_pre, d_pre)) = pre.get(&tu).cloned() else {
                    log.class("user-modify:no-such-entry");
                    continue;
                };
                if d_pre.status != Status::Live {
                    log.class("user-modify:target-not-live");
                    continue;
                }
                let actor_uuid = match who {
                    Who::IdmAdmin => UUID_IDM_ADMIN,
                    Who::SelfTarget => tu,
                };
                let Some((actor, _)) = pre.get(&actor_uuid).cloned() else { continue };
                if !actor.attribute_equality(Attribute::Class, &EntryClass::Account.into()) {
                    log.class("user-modify:actor-not-an-account");
                    continue;
                }
                let id = ident::user_readwrite(actor);
                let a = attr.attr();
                let mut mods = vec![Modify::Purged(a.clone())];
                if let Some(v) = val {
                    let value = match attr {
                        YAttr::LegalName | YAttr::DisplayName | YAttr::Description => Value::new_utf8s(TEXTS[*v as usize % TEXTS.len()]),
                        YAttr::Mail => Value::new_email_address_s(MAILS[*v as usize % MAILS.len()]).expect("mail"),
                        YAttr::Name => Value::new_iname(NAMES[*v as usize % NAMES.len()]),
                        YAttr::Member => Value::Refer(IdRef::NativePerson.uuid()),
                        YAttr::GidNumber => Value::Uint32(GIDS[*v as usize % GIDS.len()] as u32),
                        YAttr::LoginShell => Value::new_iutf8("/bin/fish"),
                    };
                    mods.push(Modify::Present(a.clone(), value));
                }
                let f = Filter::new_ignore_hidden(f_eq(Attribute::Uuid, PartialValue::Uuid(tu)));
                let mut tx = w.idms.proxy_write(ct).await.expect("write");
                let res = tx.qs_write.impersonate_modify(&f, &f, &ModifyList::new_list(mods), &id).and_then(|_| tx.commit());
                let post = snapshot_from(&w, Some(&pre)).await;
                let synced = is_sync_object(&t_pre);
                match res {
                    Ok(()) => {
                        if synced {
                            let yielded = owner(&t_pre).map(|y| yield_set(&pre, y)).unwrap_or_default();
                            let d_post = &post.get(&tu).expect("target still there").1;
                            let mut ch = changed_attrs(&d_pre, d_post);
                            for d in DERIVED {
                                ch.remove(d);
                            }
                            let bad: BTreeSet<String> = ch
                                .iter()
                                .filter(|x| {
                                    let x = x.as_str();
                                    if yielded.contains(x) || USER_STATE.contains(&x) {
                                        return false;
                                    }
                                    // derived from name only
                                    !((x == "spn" || x == "name_history") && yielded.contains("name"))
                                })
                                .cloned()
                                .collect();
                            if !bad.is_empty() {
                                log.fail(SIG_USER, format!("{ctx}: changed [{}], yielded [{}]", brief(&ch), brief(&yielded)));
                            }
                            if !ch.is_empty() {
                                log.class("user-modify:ok-on-synced-entry(yielded attr)");
                                log.nontrivial();
                            } else {
                                log.class("user-modify:ok-no-change");
                            }
                        } else {
                            log.class("user-modify:ok-on-native-entry");
                        }
                    }
                    Err(e) => {
                        if synced {
                            let yielded = owner(&t_pre).map(|y| yield_set(&pre, y)).unwrap_or_default();
                            if yielded.contains(a.as_str()) {
                                log.class("user-modify:refused-although-yielded(acp/schema)");
                            } else {
                                log.class("user-modify:refused-on-synced-entry(not yielded)");
                            }
                        } else {
                            log.class("user-modify:refused-on-native-entry");
                        }
                        let d = same(&pre, &post);
                        if !d.is_empty() {
                            log.fail("refused user modify left a trace", format!("{ctx} -> Err({e:?}) but: {:?}", &d[..d.len().min(5)]));
                        }
                    }
                }
                pre = post;
            }
            Op::UserDelete { target } => {
                let tu = target.uuid();
                let Some((t_pre, d_pre)) = pre.get(&tu).cloned() else { continue };
                if d_pre.status != Status::Live {
                    continue;
                }
                let Some((actor, _)) = pre.get(&UUID_IDM_ADMIN).cloned() else { continue };
                let id = ident::user_readwrite(actor);
                let f = Filter::new_ignore_hidden(f_eq(Attribute::Uuid, PartialValue::Uuid(tu)));
                let mut tx = w.idms.proxy_write(ct).await.expect("write");
                let res = DeleteEvent::from_parts(id, &f, &mut tx.qs_write).and_then(|de| tx.qs_write.delete(&de)).and_then(|_| tx.commit());
                let post = snapshot_from(&w, Some(&pre)).await;
                match res {
                    Ok(()) => {
                        // The property speaks about attribute changes only; a delete is recorded, not judged.
                        log.class(if is_sync_object(&t_pre) { "user-delete:ok-on-synced-entry" } else { "user-delete:ok" });
                    }
                    Err(_) => log.class(if is_sync_object(&t_pre) { "user-delete:refused-on-synced-entry" } else { "user-delete:refused" }),
                }
                pre = post;
            }
        }
        if log.failed() {
            break;
        }
    }
    if apply_ok >= 2 {
        log.nontrivial();
    }
    log.finish()
}

// ------------------------------------------------------------------------------------ generators

fn arb_id() -> BoxedStrategy<IdRef> {
    prop_oneof![
        10 => (0..N_POOL).prop_map(IdRef::Pool),
        2 => Just(IdRef::NativePerson),
        2 => Just(IdRef::NativeGroup),
        1 => Just(IdRef::Recycled),
        3 => (0u8..RESERVED.len() as u8).prop_map(IdRef::Reserved),
        1 => Just(IdRef::Boundary),
        1 => (0u8..2).prop_map(IdRef::Agreement),
    ]
    .boxed()
}

fn arb_sentry() -> BoxedStrategy<SEntry> {
    let kind = prop_oneof![
        8 => Just(SKind::Person),
        3 => Just(SKind::PosixPerson),
        6 => Just(SKind::Group),
        2 => Just(SKind::PosixGroup),
        1 => (0u8..DISALLOWED.len() as u8).prop_map(SKind::Disallowed),
        1 => Just(SKind::ForeignUrn),
        1 => Just(SKind::NoSchema),
    ];
    (arb_id(), kind, proptest::option::weighted(0.6, 0u8..6), any::<[u8; 6]>(), proptest::collection::vec(arb_id(), 0..3), 0u8..24)
        .prop_map(|(id, kind, ext, r, members, extra)| {
            let mut attrs = Vec::new();
            // a well-formed body for the kind, then optional extras
            match kind {
                SKind::Group | SKind::PosixGroup | SKind::Disallowed(_) => {
                    attrs.push(SAttr::Name(r[0]));
                    if r[1] % 2 == 0 {
                        attrs.push(SAttr::Description(r[2]));
                    }
                    if !members.is_empty() {
                        attrs.push(SAttr::Members(members));
                    }
                    if matches!(kind, SKind::PosixGroup) {
                        attrs.push(SAttr::Gid(r[3]));
                    }
                }
                _ => {
                    attrs.push(SAttr::Name(r[0]));
                    attrs.push(SAttr::DisplayName(r[1]));
                    if r[2] % 2 == 0 {
                        attrs.push(SAttr::LegalName(r[3]));
                    }
                    if r[4] % 2 == 0 {
                        attrs.push(SAttr::Mail(vec![r[4] / 2, r[5]]));
                    }
                    if matches!(kind, SKind::PosixPerson) {
                        attrs.push(SAttr::Gid(r[3]));
                        if r[5] % 2 == 0 {
                            attrs.push(SAttr::LoginShell(r[5] / 2));
                        }
                    }
                }
            }
            if extra < FORBIDDEN.len() as u8 && extra % 3 == 0 {
                attrs.push(SAttr::Forbidden(extra, r[5]));
            }
            SEntry { id, kind, ext, attrs }
        })
        .boxed()
}

/// A well-formed entry for pool id k: persons on 0..2, groups on 3..4, unique names and external ids.
fn arb_clean_sentry() -> BoxedStrategy<SEntry> {
    (0u8..N_POOL, any::<[u8; 4]>(), proptest::collection::vec(prop_oneof![4 => (0u8..3).prop_map(IdRef::Pool), 1 => Just(IdRef::NativePerson)], 0..3), any::<bool>())
        .prop_map(|(k, r, members, posix)| {
            let mut attrs = vec![SAttr::Name(8 + k)];
            let kind = if k < 3 {
                attrs.push(SAttr::DisplayName(r[0]));
                if r[1] % 2 == 0 {
                    attrs.push(SAttr::LegalName(r[1] / 2));
                }
                if r[2] % 2 == 0 {
                    // distinct addresses per id: mail values are unique in the directory
                    attrs.push(SAttr::Mail(vec![k]));
                }
                if posix {
                    attrs.push(SAttr::Gid(k));
                    SKind::PosixPerson
                } else {
                    SKind::Person
                }
            } else {
                if !members.is_empty() {
                    attrs.push(SAttr::Members(members));
                }
                SKind::Group
            };
            SEntry { id: IdRef::Pool(k), kind, ext: Some(k), attrs }
        })
        .boxed()
}

fn arb_op() -> BoxedStrategy<Op> {
    // both the yield sets and the user modifications favour the same few attributes so that they meet
    let yattr = proptest::sample::select(vec![
        YAttr::LegalName,
        YAttr::LegalName,
        YAttr::LegalName,
        YAttr::LegalName,
        YAttr::LegalName,
        YAttr::DisplayName,
        YAttr::DisplayName,
        YAttr::DisplayName,
        YAttr::DisplayName,
        YAttr::Mail,
        YAttr::Mail,
        YAttr::Name,
        YAttr::Member,
        YAttr::GidNumber,
        YAttr::Description,
        YAttr::LoginShell,
    ]);
    let retain = prop_oneof![
        5 => Just(Retain::Ignore),
        2 => proptest::collection::vec(arb_id(), 0..4).prop_map(Retain::Retain),
        3 => proptest::collection::vec(arb_id(), 0..4).prop_map(Retain::Delete),
    ];
    let clean_retain = prop_oneof![
        6 => Just(Retain::Ignore),
        1 => proptest::collection::vec((0u8..N_POOL).prop_map(IdRef::Pool), 1..4).prop_map(Retain::Retain),
        2 => proptest::collection::vec((0u8..N_POOL).prop_map(IdRef::Pool), 1..3).prop_map(Retain::Delete),
    ];
    let from = prop_oneof![3 => Just(From::Refresh), 5 => Just(From::Current), 1 => Just(From::Stale)];
    prop_oneof![
        // well-formed requests (the connector behaving): these make the agreements own entries
        12 => (prop_oneof![4 => Just(0u8), 1 => Just(1u8)], prop_oneof![2 => Just(From::Refresh), 5 => Just(From::Current)], proptest::option::weighted(0.9, 0u8..4), proptest::collection::vec(arb_clean_sentry(), 1..4), clean_retain)
            .prop_map(|(y, from, to_cookie, mut entries, retain)| {
                // one entry per id
                let mut seen = BTreeSet::new();
                entries.retain(|e| seen.insert(e.id));
                Op::Apply { y, from, to_cookie, entries, retain }
            }),
        // trespass: a well-formed request that also names an entry of somebody else, without an external id
        // (the external-id step is one of the two places that assert ownership)
        3 => (0u8..2, arb_clean_sentry(), prop_oneof![2 => Just(IdRef::NativePerson), 1 => Just(IdRef::NativeGroup), 4 => (0u8..N_POOL).prop_map(IdRef::Pool)], any::<[u8; 2]>())
            .prop_map(|(y, own, target, r)| {
                let (kind, attrs) = match target {
                    IdRef::NativePerson => (SKind::Person, vec![SAttr::Name(4), SAttr::DisplayName(r[0]), SAttr::LegalName(r[1])]),
                    IdRef::NativeGroup => (SKind::Group, vec![SAttr::Name(5)]),
                    IdRef::Pool(k) if k % N_POOL < 3 => (SKind::Person, vec![SAttr::Name(8 + k % N_POOL), SAttr::DisplayName(r[0]), SAttr::LegalName(r[1])]),
                    IdRef::Pool(k) => (SKind::Group, vec![SAttr::Name(8 + k % N_POOL)]),
                    _ => (SKind::Group, vec![SAttr::Name(5)]),
                };
                let mut entries = vec![own];
                if entries[0].id != target {
                    entries.push(SEntry { id: target, kind, ext: None, attrs });
                }
                Op::Apply { y, from: From::Current, to_cookie: Some(r[0] % 4), entries, retain: Retain::Ignore }
            }),
        // anything goes
        7 => (0u8..2, from, proptest::option::weighted(0.8, 0u8..4), proptest::collection::vec(prop_oneof![2 => arb_sentry(), 1 => arb_clean_sentry()], 0..4), retain)
            .prop_map(|(y, from, to_cookie, entries, retain)| Op::Apply { y, from, to_cookie, entries, retain }),
        4 => (prop_oneof![4 => Just(0u8), 1 => Just(1u8)], proptest::collection::vec(yattr.clone(), 0..4)).prop_map(|(y, attrs)| Op::SetYield { y, attrs }),
        8 => (
            prop_oneof![3 => Just(Who::IdmAdmin), 1 => Just(Who::SelfTarget)],
            prop_oneof![8 => (0u8..3).prop_map(IdRef::Pool), 2 => (3u8..N_POOL).prop_map(IdRef::Pool), 1 => Just(IdRef::NativePerson), 1 => Just(IdRef::NativeGroup)],
            yattr,
            proptest::option::weighted(0.85, 0u8..4)
        )
            .prop_map(|(who, target, attr, val)| Op::UserModify { who, target, attr, val }),
        1 => prop_oneof![4 => (0..N_POOL).prop_map(IdRef::Pool), 1 => Just(IdRef::NativePerson)].prop_map(|target| Op::UserDelete { target }),
    ]
    .boxed()
}

fn main() {
    let cx = Check::from_args("C50", "exploration");
    cx.rule(
        "random histories (6..17 ops) on a fresh server with two sync agreements, a native person+group, a recycled person: sync apply requests (refresh / active-with-current-cookie / stale cookie; \
         0..3 entries with ids from {5-id pool shared by both agreements, native, recycled, 8 reserved-range ids (used and unused), the range boundary, the agreement accounts}; person/posix/group \
         schemas, disallowed classes, malformed schema urns; synchronisable and non-synchronisable attributes; external ids; member references; retain modes ignore/retain/delete with foreign ids), \
         yield-authority changes, user modifications (idm_admin or the entry itself) of synchronised and native entries, user deletes. After every op the full canonical dump is compared with the one before. \
         non-trivial = >=2 successful applies or a successful user change of a synchronised entry; distinct by hash of the history",
    );
    cx.assume("ownership = stored sync_parent_uuid; yield set = stored sync_yield_authority; synchronisable = schema attribute flag sync_allowed");
    cx.assume("derived attributes (memberof, directmemberof, dynmember, last_modified_cid) are not counted as changes; class/sync_class/sync_external_id/spn/name_history/credential import targets are bookkeeping of the sync path");
    cx.assume("histories do not make native groups reference synchronised entries (referential clean-up of such a reference after a scoped delete would be a consequential change)");
    let n = cx.tier.pick(800, 25_000);
    cx.prop(
        "sync-histories",
        PropCfg::new(n).shrink(250),
        || {
            // every history starts with a well-formed refresh by agreement 0 so that synchronised entries exist
            (proptest::collection::vec(arb_clean_sentry(), 3..6), proptest::collection::vec(arb_op(), 5..17)).prop_map(|(mut entries, mut ops)| {
                let mut seen = BTreeSet::new();
                entries.retain(|e| seen.insert(e.id));
                ops.insert(0, Op::Apply { y: 0, from: From::Refresh, to_cookie: Some(0), entries, retain: Retain::Ignore });
                Case { ops }
            })
        },
        srv::runtime,
        |rt, c| rt.block_on(run(c)),
    );
    for (c, floor) in [
        ("apply-ok", 200),
        ("apply-created-entry", 150),
        ("apply-changed-owned-entry", 40),
        ("apply-refused", 200),
        ("request-id:reserved-range-unused", 100),
        ("request-id:reserved-range-existing", 50),
        ("request-id:owned-by-other-agreement", 20),
        ("request-id:native", 100),
        ("request-id:recycled", 30),
        ("retain-list-has-foreign-id", 50),
        ("yield-set", 100),
        ("user-modify:ok-on-synced-entry(yielded attr)", 6),
        ("user-modify:refused-on-synced-entry(not yielded)", 50),
    ] {
        cx.require_class(c, floor);
    }
    cx.finish();
}
