//! C22 — SPNs are always name@domain.
//!
//! Random histories of creates / renames of persons, service accounts and groups (plus deletes,
//! revives, attempts to write `spn` directly) interleaved with domain renames on a real server;
//! after EVERY op every live account or group must carry exactly one spn equal to its stored
//! name + "@" + the domain name stored on the domain_info entry. Second sub-check: two replicas.
use kanidmd_lib::modify::{Modify, ModifyList};
use kanidmd_lib::prelude::*;
use kanidmd_lib::value::Value;
use proptest::prelude::*;
use serde::{Deserialize, Serialize};
use vf_core::{CaseLog, Check, Outcome, PropCfg};
use vf_world::dump::{status_of, Status};
use vf_world::g_integrity as gi;
use vf_world::ops::{self, Node, Op, Ref, Step, Weights, DOMAINS, NAMES};
use vf_world::repl::{Cluster, ReplResult, StepResult};
use vf_world::srv;

/// `ops::Op` plus direct writes to `spn`.
#[derive(Debug, Clone, Serialize, Deserialize)]
enum XOp {
    Base(Op),
    /// purge + present of a caller-chosen spn (name index, domain index)
    SetSpn { t: Ref, name: u8, dom: u8 },
    /// present only
    AddSpn { t: Ref, name: u8, dom: u8 },
    PurgeSpn { t: Ref },
    /// rename and set a foreign spn in one modify
    RenameWithSpn { t: Ref, name: u8, spn_name: u8, dom: u8 },
    /// create a group that brings its own spn
    CreateGroupWithSpn { i: u8, name: u8, spn_name: u8, dom: u8 },
}

#[derive(Debug, Clone, Serialize, Deserialize)]
struct Case {
    ops: Vec<XOp>,
}
#[derive(Debug, Clone, Serialize, Deserialize)]
struct RCase {
    steps: Vec<Step>,
}

const SPN_DOMAINS: [&str; 4] = ["example.com", "new.example.org", "dev.example.net", "evil.example"];

fn spn_value(name: u8, dom: u8) -> Value {
    Value::new_spn_str(NAMES[name as usize % NAMES.len()], SPN_DOMAINS[dom as usize % SPN_DOMAINS.len()])
}

fn apply_x<'n>(node: &'n mut Node, op: &'n XOp) -> gi::OpFuture<'n> {
    Box::pin(async move {
        let mods = |t: &Ref, m: Vec<Modify>| (t.uuid(), ModifyList::new_list(m));
        let (u, ml) = match op {
            XOp::Base(o) => return ops::apply(node, o).await,
            XOp::SetSpn { t, name, dom } => mods(t, vec![Modify::Purged(Attribute::Spn), Modify::Present(Attribute::Spn, spn_value(*name, *dom))]),
            XOp::AddSpn { t, name, dom } => mods(t, vec![Modify::Present(Attribute::Spn, spn_value(*name, *dom))]),
            XOp::PurgeSpn { t } => mods(t, vec![Modify::Purged(Attribute::Spn)]),
            XOp::RenameWithSpn { t, name, spn_name, dom } => mods(
                t,
                vec![
                    Modify::Purged(Attribute::Name),
                    Modify::Present(Attribute::Name, Value::new_iname(NAMES[*name as usize % NAMES.len()])),
                    Modify::Purged(Attribute::Spn),
                    Modify::Present(Attribute::Spn, spn_value(*spn_name, *dom)),
                ],
            ),
            XOp::CreateGroupWithSpn { i, name, spn_name, dom } => {
                let mut e = vf_world::pop::group(Ref::G(*i).uuid(), NAMES[*name as usize % NAMES.len()], &[]);
                e.add_ava(Attribute::Spn, spn_value(*spn_name, *dom));
                let mut w = node.qs.write(node.now()).await?;
                w.internal_create(vec![e])?;
                w.commit()?;
                node.clock += 1;
                return Ok(());
            }
        };
        let mut w = node.qs.write(node.now()).await?;
        // live entries only (as every other op of the language)
        let f = Filter::new_ignore_hidden(f_eq(Attribute::Uuid, PartialValue::Uuid(u)));
        w.internal_modify(&f, &ml)?;
        w.commit()?;
        node.clock += 1;
        Ok(())
    })
}

fn weights() -> Weights {
    Weights {
        create: 8,
        rename: 14,
        attr: 2,
        member: 2,
        manager: 0,
        oauth2: 2,
        dyngroup: 1,
        posix: 1,
        delete: 4,
        revive: 4,
        purge: 1,
        reindex: 1,
        advance: 1,
        domain_rename: 5,
        bad: 2,
        missing_refs: false,
        persons: 4,
        services: 2,
        groups: 5,
        ..Weights::default()
    }
}

fn arb_xop(w: &Weights) -> BoxedStrategy<XOp> {
    let any = ops::arb_ref(w, false, false);
    let n = 0u8..NAMES.len() as u8;
    let d = 0u8..4;
    prop_oneof![
        40 => ops::arb_op(w).prop_map(XOp::Base),
        2 => (any.clone(), n.clone(), d.clone()).prop_map(|(t, name, dom)| XOp::SetSpn { t, name, dom }),
        1 => (any.clone(), n.clone(), d.clone()).prop_map(|(t, name, dom)| XOp::AddSpn { t, name, dom }),
        1 => any.clone().prop_map(|t| XOp::PurgeSpn { t }),
        2 => (any, n.clone(), n.clone(), d.clone()).prop_map(|(t, name, spn_name, dom)| XOp::RenameWithSpn { t, name, spn_name, dom }),
        1 => (0..w.groups, n.clone(), n, d).prop_map(|(i, name, spn_name, dom)| XOp::CreateGroupWithSpn { i, name, spn_name, dom }),
    ]
    .boxed()
}


fn single(rt: &tokio::runtime::Runtime, c: &Case) -> Outcome {
    let mut log = CaseLog::new();
    rt.block_on(async {
        let mut node = Node::new().await;
        let mut domain_renames = 0; // committed renames that really changed the stored name
        let mut renames_after = 0;
        let mut creates_after = 0;
        let mut revive_after = 0;
        let mut direct_spn = 0;
        let mut known: Option<String> = None;
        let mut nameless = false;
        let stats = gi::run_hist(&mut node, &c.ops, &mut log, true, apply_x, |a, log| {
            if matches!(a.op, XOp::Base(Op::Advance { .. })) {
                return;
            }
            if a.committed() {
                let dom_changed = gi::stored_domain_name(a.before) != gi::stored_domain_name(a.entries);
                match a.op {
                    XOp::Base(Op::DomainRename { .. }) if dom_changed => domain_renames += 1,
                    XOp::Base(Op::Rename { t, .. }) | XOp::RenameWithSpn { t, .. } if domain_renames > 0 => {
                        if a.before.iter().any(|e| e.get_uuid() == t.uuid() && status_of(e) == Status::Live) {
                            renames_after += 1;
                        }
                    }
                    XOp::Base(Op::CreatePerson { .. } | Op::CreateService { .. } | Op::CreateGroup { .. } | Op::CreateOAuth2 { .. }) | XOp::CreateGroupWithSpn { .. }
                        if domain_renames > 0 =>
                    {
                        creates_after += 1
                    }
                    XOp::Base(Op::Revive { t }) if domain_renames > 0 => {
                        if a.before.iter().any(|e| e.get_uuid() == t.uuid() && status_of(e) == Status::Recycled) {
                            revive_after += 1;
                        }
                    }
                    _ => {}
                }
                if matches!(a.op, XOp::SetSpn { .. } | XOp::AddSpn { .. } | XOp::PurgeSpn { .. } | XOp::RenameWithSpn { .. } | XOp::CreateGroupWithSpn { .. }) {
                    direct_spn += 1;
                }
            }
            let v = gi::spn_violations(a.entries);
            for (sig, first) in &v {
                let msg = format!("after step {} {:?} -> {:?}: {first} ({} in total)", a.step, a.op, a.res, v.len());
                if *sig == gi::SIG_SPN_NAMELESS {
                    // known finding: remember the first, keep checking everything else
                    if known.is_none() {
                        known = Some(msg);
                    }
                } else {
                    log.fail(*sig, msg);
                }
            }
            if a.entries.iter().any(|e| {
                status_of(e) == Status::Live && e.has_class(&EntryClass::Group) && e.get_uuid().as_u128() >> 112 == 0xAAAA && !e.attribute_pres(Attribute::Name)
            }) {
                nameless = true;
            }
        })
        .await;
        if nameless {
            log.class("history-has-nameless-group");
        }
        // the domain name the server itself reports must be the stored one at the end
        {
            // (one read transaction at a time: the in-memory server has a single connection)
            let stored = gi::stored_domain_name(&gi::read_all(&node).await);
            let r = node.qs.read().await.expect("read");
            if Some(r.get_domain_name().to_string()) != stored && !log.failed() {
                log.fail(
                    "server's loaded domain name differs from the stored one",
                    format!("loaded {:?}, stored {stored:?}", r.get_domain_name()),
                );
            }
        }
        if domain_renames > 0 {
            log.class("domain-renamed");
        }
        if domain_renames > 1 {
            log.class("domain-renamed>=2");
        }
        if renames_after > 0 {
            log.class("rename-after-domain-rename");
            log.nontrivial();
        }
        if creates_after > 0 {
            log.class("create-after-domain-rename");
        }
        if revive_after > 0 {
            log.class("revive-after-domain-rename");
        }
        if direct_spn > 0 {
            log.class("accepted-direct-spn-write");
        }
        log.class(format!("committed:{}", (stats.committed / 10) * 10));
        if let Some(msg) = known {
            log.fail(gi::SIG_SPN_NAMELESS, msg);
        }
    });
    log.finish()
}

fn replicated(rt: &tokio::runtime::Runtime, c: &RCase) -> Outcome {
    let mut log = CaseLog::new();
    rt.block_on(async {
        let mut cl = Cluster::new(2).await;
        let mut applied = 0;
        let mut renames = 0;
        for (i, s) in c.steps.iter().enumerate() {
            gi::untie_clocks(&mut cl);
            let r = cl.step(s).await;
            let node = match (s, &r) {
                (Step::Do { r: n, op }, StepResult::Op(Ok(()))) => {
                    if matches!(op, Op::Rename { .. }) {
                        renames += 1;
                    }
                    Some(*n as usize % 2)
                }
                (Step::Repl { to, .. }, StepResult::Repl(ReplResult::Applied)) => {
                    applied += 1;
                    Some(*to as usize % 2)
                }
                (Step::Refresh { to, .. }, StepResult::Refresh(Ok(()))) => Some(*to as usize % 2),
                _ => None,
            };
            if let Some(n) = node {
                let entries = gi::read_all(&cl.nodes[n]).await;
                let v = gi::spn_violations(&entries);
                if let Some((sig, first)) = v.iter().find(|(s, _)| *s != gi::SIG_SPN_NAMELESS).or(v.first()) {
                    log.fail(*sig, format!("replica {n} after step {i} {s:?} -> {r:?}: {first} ({} in total)", v.len()));
                    break;
                }
            }
        }
        if applied > 0 && renames > 0 {
            log.nontrivial();
            log.class("replicated-renames-applied");
        }
    });
    log.finish()
}

fn main() {
    let cx = Check::from_args("C22", "exploration");
    cx.rule(
        "random op histories (population prefix + creates, renames from a 16-name pool, deletes/revives, domain renames among 3 names through danger_domain_rename, and direct writes of foreign spn values by set/add/purge/rename+spn/create+spn) on a real in-memory server; \
         after EVERY op each live entry of class account or group must have exactly one spn == its stored name + '@' + the domain_name stored on the domain_info entry, and the server's loaded domain name must equal the stored one; rejected ops must leave the dump unchanged. \
         second sub-check: 2 replicas (same domain) with renames on both sides and random incremental replication. \
         non-trivial = a live entry was renamed after the stored domain name had really changed (replicated: renames + an applied change set); distinct by hash of the history",
    );
    cx.assume("domain renames are not replicated between the two replicas of the second sub-check (replication refuses a domain mismatch); they are explored on the single server");
    let w = weights();
    let n = cx.tier.pick(400, 10_000);
    let len = cx.tier.pick(12..45usize, 20..120usize);
    cx.prop(
        "single-server-histories",
        PropCfg::new(n).shrink(300),
        || {
            (ops::arb_prefix(&w), proptest::collection::vec(arb_xop(&w), len.clone())).prop_map(|(p, mut o)| {
                let mut ops: Vec<XOp> = p.into_iter().map(XOp::Base).collect();
                ops.append(&mut o);
                Case { ops }
            })
        },
        srv::runtime,
        |rt, c| single(rt, c),
    );
    let mut w2 = weights();
    w2.domain_rename = 0;
    let n2 = cx.tier.pick(100, 2_500);
    let len2 = cx.tier.pick(10..35usize, 20..90usize);
    cx.prop(
        "two-replica-histories",
        PropCfg::new(n2).shrink(200),
        || ops::arb_steps(&w2, 2, len2.clone(), 3, 0).prop_map(|steps| RCase { steps }),
        srv::runtime,
        |rt, c| replicated(rt, c),
    );
    cx.require_class("domain-renamed", 100);
    cx.require_class("rename-after-domain-rename", 60);
    cx.require_class("create-after-domain-rename", 40);
    cx.require_class("replicated-renames-applied", 20);
    let _ = DOMAINS;
    cx.finish();
}
