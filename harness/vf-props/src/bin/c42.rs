//! C42 — SCIM filter text round-trips and honours precedence.
//!
//! Both implementations of the text format in the tree are judged: `kanidm_proto::scim_v1`
//! (the one the server parses requests with; the property's mechanism anchors) and the older copy
//! `scim_proto::filter` (second anchored file).
//!
//!  (1) round trip: for generated trees F (valid SCIM names, scalar values), `parse(print(F)) == F`
//!      whenever the printed text nests at most as deep as the limit allows;
//!  (2) limit: a printed text nesting deeper than the limit is an *error* (and bracket bombs of any
//!      length return an error instead of exhausting the stack);
//!  (3) precedence: flat token strings `a op v (and|or) ...` without parentheses parse to
//!      OR-of-AND groups as an independent splitter says, and trees printed by the harness's own
//!      minimal-parenthesis printer (AND under OR left bare) parse back to the same tree;
//!  (4) text-level: mutated texts that still parse satisfy (1) for what they parsed to.
//!
//! Nesting is measured on the text by the harness (open `(`/`[` outside string literals); the top
//! level expression is level 1, so a text with b open brackets has b+1 levels; limit = 128 levels
//! (the repository's own unit test pins this reading: `((c pr and d pr))` needs limit 3).
use proptest::prelude::*;
use serde::{Deserialize, Serialize};
use std::collections::BTreeSet;
use vf_core::{Check, Outcome, PropCfg};
use vf_world::g_proto::scim::{self, Chain, Impl, KanidmProto, ScimProto, SC, SF};

const LIMIT_LEVELS: usize = 128;

#[derive(Debug, Clone, Serialize, Deserialize)]
struct TreeCase {
    f: SF,
}
#[derive(Debug, Clone, Serialize, Deserialize)]
struct ChainCase {
    c: Chain,
}
#[derive(Debug, Clone, Serialize, Deserialize)]
struct TokCase {
    atoms: Vec<SF>,
    /// connective between atom i and i+1: true = and
    ands: Vec<bool>,
    seps: Vec<u8>,
}
#[derive(Debug, Clone, Serialize, Deserialize)]
struct CTokCase {
    atoms: Vec<SC>,
    ands: Vec<bool>,
    seps: Vec<u8>,
}
#[derive(Debug, Clone, Serialize, Deserialize)]
struct MinCase {
    f: SF,
    seps: Vec<u8>,
}
#[derive(Debug, Clone, Serialize, Deserialize)]
struct TextCase {
    f: SF,
    seps: Vec<u8>,
    canonical: bool,
    /// (position selector, edit kind, payload)
    edits: Vec<(u16, u8, u8)>,
}
#[derive(Debug, Clone, Serialize, Deserialize)]
struct BombCase {
    n: u32,
    kind: u8,
}

fn clip(s: &str) -> String {
    if s.chars().count() > 600 {
        let head: String = s.chars().take(300).collect();
        let tail: String = s.chars().rev().take(200).collect::<Vec<_>>().into_iter().rev().collect();
        format!("{head} …[{} chars]… {tail}", s.chars().count())
    } else {
        s.to_string()
    }
}

/// (1)+(2) on one tree.
fn roundtrip<I: Impl>(f: &SF) -> Outcome {
    let built = I::build(f);
    let text = I::print(&built);
    let levels = scim::text_brackets(&text) + 1;
    let mut labels = BTreeSet::new();
    scim::labels(f, &mut labels);
    let parsed = I::parse(&text);
    if levels <= LIMIT_LEVELS {
        match parsed {
            Ok(g) if g == built => {}
            Ok(g) => {
                return Outcome::fail(
                    format!("{}: parse(print(f)) != f", I::NAME),
                    format!("text {:?}\n built  {:?}\n parsed {:?}", clip(&text), clip(&format!("{built:?}")), clip(&format!("{g:?}"))),
                )
            }
            Err(e) => {
                return Outcome::fail(
                    format!("{}: printed filter within the nesting limit does not parse", I::NAME),
                    format!("levels {levels} text {:?}: {e}", clip(&text)),
                )
            }
        }
        labels.insert(if levels >= LIMIT_LEVELS - 1 { "nesting:at-limit(127-128)".into() } else if levels > 100 { "nesting:101-126".into() } else { "nesting:<=100".into() });
    } else {
        if parsed.is_ok() {
            return Outcome::fail(
                format!("{}: nesting beyond the documented limit is accepted", I::NAME),
                format!("text with {levels} nesting levels (limit {LIMIT_LEVELS}) parsed: {:?}", clip(&text)),
            );
        }
        labels.insert(if levels <= LIMIT_LEVELS + 2 { "nesting:just-beyond(129-130)".into() } else { "nesting:beyond".into() });
    }
    let nontrivial = scim::size(f) >= 2 || labels.iter().any(|l| l.starts_with("string-has") || l == "value:float");
    Outcome::pass(nontrivial).classes(labels).class(format!("impl:{}", I::NAME))
}

fn render_tokens(atom_texts: &[String], ands: &[bool], seps: &[u8], i: &mut usize) -> String {
    let mut s = String::new();
    for (k, a) in atom_texts.iter().enumerate() {
        if k > 0 {
            let sp = |i: &mut usize| {
                let v = seps.get(*i % seps.len().max(1)).copied().unwrap_or(0);
                *i += 1;
                match v % 5 {
                    0 | 1 | 2 => " ",
                    3 => "\t",
                    _ => "\n",
                }
            };
            s.push_str(sp(i));
            s.push_str(if ands.get(k - 1).copied().unwrap_or(false) { "and" } else { "or" });
            s.push_str(sp(i));
        }
        s.push_str(a);
    }
    s
}

/// independent splitter: OR binds weaker, so OR positions split the list into AND groups.
fn groups<T: Clone>(atoms: &[T], ands: &[bool]) -> Vec<Vec<T>> {
    let mut out = vec![vec![atoms[0].clone()]];
    for k in 1..atoms.len() {
        if ands.get(k - 1).copied().unwrap_or(false) {
            out.last_mut().unwrap().push(atoms[k].clone());
        } else {
            out.push(vec![atoms[k].clone()]);
        }
    }
    out
}

fn tok_classes(ands: &[bool], n: usize) -> Vec<String> {
    let used = &ands[..n.saturating_sub(1).min(ands.len())];
    let mut c = Vec::new();
    let has_and = used.iter().any(|a| *a);
    let has_or = used.iter().any(|a| !*a);
    if has_and && has_or {
        c.push("tokens:mixed-and-or".to_string());
        // "x or y and z" shape: an AND after an OR
        if used.windows(2).any(|w| !w[0] && w[1]) {
            c.push("tokens:or-then-and".into());
        }
        if used.windows(2).any(|w| w[0] && !w[1]) {
            c.push("tokens:and-then-or".into());
        }
    } else if has_and {
        c.push("tokens:only-and".into());
    } else if has_or {
        c.push("tokens:only-or".into());
    } else {
        c.push("tokens:single".into());
    }
    c
}

fn precedence_tokens<I: Impl>(c: &TokCase) -> Outcome {
    if c.atoms.is_empty() {
        return Outcome::discard();
    }
    let mut i = 0usize;
    let texts: Vec<String> = c.atoms.iter().map(|a| scim::min_text(a, &c.seps, &mut i)).collect();
    let text = render_tokens(&texts, &c.ands, &c.seps, &mut i);
    let want: Vec<Vec<I::F>> = groups(&c.atoms, &c.ands).into_iter().map(|g| g.iter().map(I::build).collect()).collect();
    let got = match I::parse(&text) {
        Ok(g) => g,
        Err(e) => return Outcome::fail(format!("{}: valid unparenthesised filter text rejected", I::NAME), format!("text {:?}: {e}", clip(&text))),
    };
    let got_s = format!("{got:?}");
    match I::or_of_ands(got) {
        Some(g) if g == want => {}
        Some(g) => {
            return Outcome::fail(
                format!("{}: AND/OR grouping differs from precedence rule", I::NAME),
                format!("text {:?}\n want groups {:?}\n got groups  {:?}", clip(&text), clip(&format!("{want:?}")), clip(&format!("{g:?}"))),
            )
        }
        None => {
            return Outcome::fail(
                format!("{}: OR nested inside AND without parentheses (precedence inverted)", I::NAME),
                format!("text {:?}\n parsed {}", clip(&text), clip(&got_s)),
            )
        }
    }
    let cl = tok_classes(&c.ands, c.atoms.len());
    let nt = cl.iter().any(|x| x == "tokens:mixed-and-or");
    Outcome::pass(nt).classes(cl).class(format!("impl:{}", I::NAME))
}

fn precedence_tokens_c<I: Impl>(c: &CTokCase) -> Outcome {
    if c.atoms.is_empty() {
        return Outcome::discard();
    }
    let mut i = 0usize;
    let texts: Vec<String> = c.atoms.iter().map(|a| scim::min_text_c(a, &c.seps, &mut i)).collect();
    let text = render_tokens(&texts, &c.ands, &c.seps, &mut i);
    let want: Vec<Vec<I::C>> = groups(&c.atoms, &c.ands).into_iter().map(|g| g.iter().map(I::build_c).collect()).collect();
    let got = match I::parse_c(&text) {
        Ok(g) => g,
        Err(e) => {
            return Outcome::fail(
                format!("{}: valid unparenthesised complex filter text rejected", I::NAME),
                format!("text {:?}: {e}", clip(&text)),
            )
        }
    };
    let got_s = format!("{got:?}");
    match I::or_of_ands_c(got) {
        Some(g) if g == want => {}
        Some(g) => {
            return Outcome::fail(
                format!("{}: AND/OR grouping differs from precedence rule (complex)", I::NAME),
                format!("text {:?}\n want groups {:?}\n got groups  {:?}", clip(&text), clip(&format!("{want:?}")), clip(&format!("{g:?}"))),
            )
        }
        None => {
            return Outcome::fail(
                format!("{}: OR nested inside AND without parentheses (precedence inverted, complex)", I::NAME),
                format!("text {:?}\n parsed {}", clip(&text), clip(&got_s)),
            )
        }
    }
    let cl: Vec<String> = tok_classes(&c.ands, c.atoms.len()).into_iter().map(|s| format!("complex-{s}")).collect();
    let nt = cl.iter().any(|x| x == "complex-tokens:mixed-and-or");
    Outcome::pass(nt).classes(cl).class(format!("impl:{}", I::NAME))
}

fn min_print<I: Impl>(c: &MinCase) -> Outcome {
    let mut i = 0usize;
    let text = scim::min_text(&c.f, &c.seps, &mut i);
    if scim::text_brackets(&text) + 1 > LIMIT_LEVELS {
        return Outcome::discard();
    }
    let want = I::build(&c.f);
    match I::parse(&text) {
        Ok(g) if g == want => {}
        Ok(g) => {
            return Outcome::fail(
                format!("{}: minimal-parenthesis text parses to a different tree", I::NAME),
                format!("text {:?}\n want {:?}\n got  {:?}", clip(&text), clip(&format!("{want:?}")), clip(&format!("{g:?}"))),
            )
        }
        Err(e) => return Outcome::fail(format!("{}: valid minimal-parenthesis text rejected", I::NAME), format!("text {:?}: {e}", clip(&text))),
    }
    let bare = scim::has_and_under_or(&c.f);
    Outcome::pass(bare).class_if(bare, "min-print:bare-and-under-or").class_if(!bare, "min-print:no-bare-and").class(format!("impl:{}", I::NAME))
}

const EDIT_CHARS: [&str; 24] = [
    "(", ")", "[", "]", "\"", "\\", " ", "\t", " and ", " or ", "not ", "not (", ".", " pr", " eq ", "1", "true", "null", "{}", "[1]", "{\"a\":1}", "a", "\n", "\\\"",
];

fn mutate(mut s: String, edits: &[(u16, u8, u8)]) -> String {
    for (pos, kind, payload) in edits {
        let idxs: Vec<usize> = s.char_indices().map(|(i, _)| i).chain(std::iter::once(s.len())).collect();
        let at = idxs[vf_core::pick_idx(*pos, idxs.len())];
        match kind % 4 {
            0 => s.insert_str(at, EDIT_CHARS[*payload as usize % EDIT_CHARS.len()]),
            1 => {
                if at < s.len() {
                    s.remove(at);
                }
            }
            2 => {
                // delete a short span
                let end = idxs.iter().copied().find(|i| *i >= at + 1 + (*payload as usize % 6)).unwrap_or(s.len());
                s.replace_range(at..end, "");
            }
            _ => {
                // duplicate a short span
                let end = idxs.iter().copied().find(|i| *i >= at + 1 + (*payload as usize % 12)).unwrap_or(s.len());
                let span = s[at..end].to_string();
                s.insert_str(at, &span);
            }
        }
    }
    s
}

/// (4): whatever parses must satisfy the round trip law for what it parsed to.
fn text_level<I: Impl>(c: &TextCase) -> Outcome {
    let mut i = 0usize;
    let base = if c.canonical { I::print(&I::build(&c.f)) } else { scim::min_text(&c.f, &c.seps, &mut i) };
    let text = mutate(base.clone(), &c.edits);
    let changed = text != base;
    let Ok(g) = I::parse(&text) else {
        return Outcome::pass(false).class("text:rejected").class(format!("impl:{}", I::NAME));
    };
    if !I::scalar_only(&g) {
        return Outcome::pass(false).class("text:parsed-nonscalar-value(out of scope)");
    }
    let printed = I::print(&g);
    if scim::text_brackets(&printed) + 1 > LIMIT_LEVELS {
        return Outcome::pass(false).class("text:print-exceeds-limit(out of scope)");
    }
    match I::parse(&printed) {
        Ok(h) if h == g => {}
        Ok(h) => {
            return Outcome::fail(
                format!("{}: parse(print(f)) != f", I::NAME),
                format!("source {:?}\n parsed  {:?}\n printed {:?}\n reparsed {:?}", clip(&text), clip(&format!("{g:?}")), clip(&printed), clip(&format!("{h:?}"))),
            )
        }
        Err(e) => {
            return Outcome::fail(
                format!("{}: printed filter within the nesting limit does not parse", I::NAME),
                format!("source {:?}\n printed {:?}: {e}", clip(&text), clip(&printed)),
            )
        }
    }
    Outcome::pass(changed)
        .class(if changed { "text:mutated-still-parses" } else { "text:unmutated-parses" })
        .class(format!("impl:{}", I::NAME))
}

fn bomb_text(c: &BombCase) -> String {
    let n = c.n as usize;
    match c.kind % 6 {
        0 => format!("{}a pr{}", "(".repeat(n), ")".repeat(n)),
        1 => format!("{}a pr{}", "not (".repeat(n), ")".repeat(n)),
        2 => format!("{}a pr{}", "(b pr and ".repeat(n), ")".repeat(n)),
        // unbalanced: only openers
        3 => "(".repeat(n),
        4 => format!("mail[{}type pr{}]", "(".repeat(n), ")".repeat(n)),
        _ => format!("{}mail[{}type pr{}]{}", "(".repeat(n / 2), "(".repeat(n - n / 2), ")".repeat(n - n / 2), ")".repeat(n / 2)),
    }
}

/// (2) on adversarial bracket runs: decided purely from the harness's text measure.
fn bomb<I: Impl>(c: &BombCase) -> Outcome {
    let text = bomb_text(c);
    let levels = scim::text_brackets(&text) + 1;
    let balanced = c.kind % 6 != 3;
    let r = I::parse(&text);
    if levels > LIMIT_LEVELS {
        if r.is_ok() {
            return Outcome::fail(
                format!("{}: nesting beyond the documented limit is accepted", I::NAME),
                format!("bracket run kind {} n {} ({levels} levels) parsed", c.kind % 6, c.n),
            );
        }
        Outcome::pass(true).class("bomb:beyond-limit-rejected").class(format!("impl:{}", I::NAME))
    } else if balanced {
        if let Err(e) = r {
            return Outcome::fail(
                format!("{}: well-formed filter within the nesting limit rejected", I::NAME),
                format!("bracket run kind {} n {} ({levels} levels): {e}", c.kind % 6, c.n),
            );
        }
        Outcome::pass(true).class("bomb:within-limit-accepted").class(format!("impl:{}", I::NAME))
    } else {
        Outcome::pass(false).class("bomb:unbalanced")
    }
}

fn arb_atom() -> BoxedStrategy<SF> {
    prop_oneof![
        6 => scim::arb_leaf(),
        1 => scim::arb_filter(2).prop_map(|f| SF::Not(Box::new(f))),
    ]
    .boxed()
}
fn arb_catom() -> BoxedStrategy<SC> {
    prop_oneof![
        6 => scim::arb_cleaf(),
        1 => scim::arb_complex(2).prop_map(|f| SC::Not(Box::new(f))),
    ]
    .boxed()
}

fn run_all<I: Impl>(cx: &Check, tag: &str, scale: u64) {
    let q = |quick: u64, thorough: u64| cx.tier.pick(quick * 3, thorough) / scale;
    cx.prop(
        &format!("{tag}-roundtrip-trees"),
        PropCfg::new(q(24_000, 2_000_000)),
        || scim::arb_filter(7).prop_map(|f| TreeCase { f }),
        || (),
        |_, c| roundtrip::<I>(&c.f),
    );
    cx.prop(
        &format!("{tag}-roundtrip-near-limit"),
        PropCfg::new(q(3_000, 100_000)),
        || scim::arb_chain(118, 134).prop_map(|c| ChainCase { c }),
        || (),
        |_, c| roundtrip::<I>(&c.c.build()).class("chain"),
    );
    cx.prop(
        &format!("{tag}-precedence-tokens"),
        PropCfg::new(q(12_000, 600_000)),
        || {
            (proptest::collection::vec(arb_atom(), 1..9), proptest::collection::vec(any::<bool>(), 8), proptest::collection::vec(0u8..6, 1..6))
                .prop_map(|(atoms, ands, seps)| TokCase { atoms, ands, seps })
        },
        || (),
        |_, c| precedence_tokens::<I>(c),
    );
    cx.prop(
        &format!("{tag}-precedence-tokens-complex"),
        PropCfg::new(q(6_000, 300_000)),
        || {
            (proptest::collection::vec(arb_catom(), 1..9), proptest::collection::vec(any::<bool>(), 8), proptest::collection::vec(0u8..6, 1..6))
                .prop_map(|(atoms, ands, seps)| CTokCase { atoms, ands, seps })
        },
        || (),
        |_, c| precedence_tokens_c::<I>(c),
    );
    cx.prop(
        &format!("{tag}-minimal-parentheses"),
        PropCfg::new(q(10_000, 500_000)),
        || (scim::arb_filter(6), proptest::collection::vec(0u8..6, 1..6)).prop_map(|(f, seps)| MinCase { f, seps }),
        || (),
        |_, c| min_print::<I>(c),
    );
    cx.prop(
        &format!("{tag}-mutated-text"),
        PropCfg::new(q(20_000, 1_500_000)),
        || {
            (
                scim::arb_filter(4),
                proptest::collection::vec(0u8..6, 1..4),
                any::<bool>(),
                proptest::collection::vec((any::<u16>(), 0u8..4, any::<u8>()), 0..4),
            )
                .prop_map(|(f, seps, canonical, edits)| TextCase { f, seps, canonical, edits })
        },
        || (),
        |_, c| text_level::<I>(c),
    );
    let ns: Vec<u32> = vec![1, 2, 60, 63, 64, 65, 100, 120, 125, 126, 127, 128, 129, 130, 131, 200, 254, 255, 256, 257, 300, 1000, 5000, 20_000, 100_000];
    let nsr = &ns;
    cx.enumerate(
        &format!("{tag}-bracket-runs"),
        (ns.len() * 6) as u64,
        |i| BombCase { n: nsr[(i / 6) as usize], kind: (i % 6) as u8 },
        || (),
        |_, c| bomb::<I>(c),
    );
}

fn main() {
    let cx = Check::from_args("C42", "exploration");
    cx.rule(
        "for each of the two implementations (kanidm_proto::scim_v1 — the server's parser — and scim_proto::filter): random filter trees (depth<=7; all 10 operators; \
         attribute paths with sub-attributes; complex attr[...] filters with and/or/not inside; valid SCIM names incl. keyword look-alikes; values: strings with quotes, \
         backslashes, brackets, controls, unicode, plus integers, u64, arbitrary finite doubles, bool, null) and wrapper chains whose printed nesting lands in 119..135 levels: \
         parse(print(F)) == F when the text has <=128 levels, error when it has more; flat token strings of 1..8 atoms joined by and/or with mixed whitespace (top level and \
         inside attr[...]) against an independent OR-splits-AND-groups splitter (associativity ignored); trees printed by the harness's own minimal-parenthesis printer; \
         mutated texts (insert/delete/duplicate) that still parse must satisfy the round-trip law; bracket runs of 1..100000 must be errors beyond the limit. \
         non-trivial = tree has a connective/complex part or a string with special characters or a float (round trip), mixed and/or (tokens), bare AND under OR (minimal print), \
         a mutated text that still parses; distinct by hash of the generated case",
    );
    cx.assume("valid names = ALPHA *(ALPHA/DIGIT/'-'/'_'); attribute values are built with the crates' own canonical constructors (Attribute::from / SubAttribute::from)");
    cx.assume("nesting levels = open brackets outside string literals + 1; limit 128 levels as pinned by the repository's recursion-limit unit test");
    cx.assume("associativity of equal connectives is not asserted (the property states only AND over OR)");
    run_all::<KanidmProto>(&cx, "kp", 1);
    run_all::<ScimProto>(&cx, "sp", 2);
    cx.not_exhaustive();
    for (c, floor) in [
        ("nesting:at-limit(127-128)", 100),
        ("nesting:just-beyond(129-130)", 100),
        ("tokens:or-then-and", 500),
        ("complex-tokens:or-then-and", 300),
        ("min-print:bare-and-under-or", 500),
        ("text:mutated-still-parses", 300),
        ("string-has-quote", 300),
        ("string-has-backslash", 300),
        ("value:float", 500),
        ("complex", 500),
        ("attrpath-with-subattr", 500),
        ("bomb:beyond-limit-rejected", 50),
    ] {
        cx.require_class(c, floor);
    }
    cx.finish();
}
